#!/usr/bin/env python3
"""Orchestrator: check.py <Cxx> [--tier quick|thorough] [--replay FILE]

For one property it
  1. regenerates the source-derived Lean tables (translator), builds the property's theorem
     modules and the model driver with lake, audits `#print axioms` of every headline theorem
     and greps the Lean sources for forbidden constructs               (P: proof)
  2. rebuilds the Rust harness against /repo's current working tree, generates operation lines,
     runs them on the real code and on the compiled Lean model and compares the two output
     streams line by line                                              (T: correspondence)
  3. collects the property-level oracle verdicts computed on the implementation (O: oracles)
  4. decides: VIOLATION (with a shrunk replay), KNOWN-FINDING, or pass; writes evidence/<id>.json

Exit status 0 iff the property held on everything explored (listed known findings excepted).
"""
import fcntl
import json
import os
import re
import subprocess
import sys
import time

ROOT = os.path.dirname(os.path.abspath(__file__))
LEAN = os.path.join(ROOT, "lean")
HARNESS = os.path.join(ROOT, "harness")
ALLOWED_AXIOMS = {"propext", "Classical.choice", "Quot.sound"}
FORBIDDEN = re.compile(r"\bsorry\b|\badmit\b|^axiom\s|native_decide|bv_decide|implemented_by|\bunsafe\s|maxHeartbeats\s+0\b")
ENV = dict(os.environ, CARGO_NET_OFFLINE="true")


def log(*a):
    print(*a, flush=True)


def sh(cmd, cwd=None, stdin=None, stdout=None, stderr=None, timeout=None, env=None):
    return subprocess.run(cmd, cwd=cwd, stdin=stdin, stdout=stdout, stderr=stderr, timeout=timeout, env=env or ENV)


class Lock:
    """serialise builds when several checks run at once"""

    def __init__(self, name):
        os.makedirs(os.path.join(ROOT, "work"), exist_ok=True)
        self.path = os.path.join(ROOT, "work", name + ".lock")

    def __enter__(self):
        self.f = open(self.path, "w")
        fcntl.flock(self.f, fcntl.LOCK_EX)

    def __exit__(self, *a):
        fcntl.flock(self.f, fcntl.LOCK_UN)
        self.f.close()


# --------------------------------------------------------------------------- Lean side


def strip_comments(src):
    """remove Lean block comments (nested) and line comments"""
    out = []
    i, depth, n = 0, 0, len(src)
    while i < n:
        if src.startswith("/-", i):
            depth += 1
            i += 2
        elif depth and src.startswith("-/", i):
            depth -= 1
            i += 2
        elif depth:
            if src[i] == "\n":
                out.append("\n")
            i += 1
        elif src.startswith("--", i):
            while i < n and src[i] != "\n":
                i += 1
        else:
            out.append(src[i])
            i += 1
    return "".join(out)


def forbidden_scan():
    hits = []
    for dp, _, fs in os.walk(LEAN):
        if ".lake" in dp:
            continue
        for f in fs:
            if f.endswith(".lean"):
                p = os.path.join(dp, f)
                body = strip_comments(open(p, encoding="utf-8").read())
                # string literals may mention the words (e.g. in messages); drop them
                body = re.sub(r'"(?:\\.|[^"\\])*"', '""', body)
                for k, line in enumerate(body.split("\n"), 1):
                    if FORBIDDEN.search(line):
                        hits.append(f"{os.path.relpath(p, ROOT)}:{k}: {line.strip()[:120]}")
    return hits


def run_translator(cfg, res):
    tr = os.path.join(ROOT, "tools", "extract_tables.py")
    if not os.path.exists(tr):
        return True
    p = sh([sys.executable, tr], cwd=ROOT, stdout=subprocess.PIPE, stderr=subprocess.STDOUT)
    res["translator"] = {"rc": p.returncode, "out": p.stdout.decode(errors="replace")[-2000:]}
    ok = p.returncode == 0
    # further extractors registered by the property (e.g. tools/extract_ffi.py for the C wrapper layer)
    for extra in cfg.get("translators", []):
        q = sh([sys.executable, os.path.join(ROOT, extra)], cwd=ROOT, stdout=subprocess.PIPE, stderr=subprocess.STDOUT)
        res["translator"]["out"] += f"\n[{extra}] rc={q.returncode} " + q.stdout.decode(errors="replace")[-800:]
        res["translator"]["rc"] = res["translator"]["rc"] or q.returncode
        ok = ok and q.returncode == 0
    return ok


def lean_build(cfg, res):
    mods = cfg.get("lean_modules", [])
    targets = mods + ["oxdriver"]
    cmd = ["lake", "build"] + targets
    t = time.time()
    p = sh(cmd, cwd=LEAN, stdout=subprocess.PIPE, stderr=subprocess.STDOUT)
    out = p.stdout.decode(errors="replace")
    res["lean_build"] = {"cmd": "cd lean && " + " ".join(cmd), "rc": p.returncode, "wall_s": round(time.time() - t, 1)}
    if p.returncode != 0:
        res["lean_build"]["out"] = out[-6000:]
        # which modules failed?
        res["lean_build"]["failed"] = sorted(set(re.findall(r"error: (?:\S*?/)?(OxiddModel/\S+?\.lean)", out)))
    return p.returncode == 0


def axiom_audit(cfg, res, prop):
    thms = cfg.get("theorems", [])
    mods = cfg.get("lean_modules", [])
    os.makedirs(os.path.join(LEAN, ".lake", "audit"), exist_ok=True)
    f = os.path.join(LEAN, ".lake", "audit", prop + ".lean")
    with open(f, "w") as h:
        for m in mods:
            h.write(f"import {m}\n")
        for t in thms:
            h.write(f"#print axioms {t}\n")
    p = sh(["lake", "env", "lean", f], cwd=LEAN, stdout=subprocess.PIPE, stderr=subprocess.STDOUT)
    out = p.stdout.decode(errors="replace")
    audit = {}
    # outputs: "'name' depends on axioms: [a, b]" or "'name' does not depend on any axioms"
    for m in re.finditer(r"'(\S+?)' depends on axioms: \[([^\]]*)\]", out.replace("\n", " ")):
        audit[m.group(1)] = [a.strip() for a in m.group(2).split(",") if a.strip()]
    for m in re.finditer(r"'(\S+?)' does not depend on any axioms", out):
        audit[m.group(1)] = []
    ok, bad = [], []
    for t in thms:
        if t in audit and set(audit[t]) <= ALLOWED_AXIOMS:
            ok.append(t)
        else:
            bad.append({"theorem": t, "axioms": audit.get(t), "note": "missing from audit output" if t not in audit else "disallowed axiom"})
    res["axiom_audit"] = {"cmd": f"cd lean && lake env lean .lake/audit/{prop}.lean", "theorems": len(thms), "clean": len(ok), "bad": bad,
                          "axioms_used": sorted({a for t in ok for a in audit[t]})}
    if bad:
        res["axiom_audit"]["out"] = out[-3000:]
    return ok, bad


def leanchecker(cfg, res):
    mods = cfg.get("lean_modules", [])
    outs = []
    allok = True
    for m in mods:
        p = sh(["lake", "env", "leanchecker", m], cwd=LEAN, stdout=subprocess.PIPE, stderr=subprocess.STDOUT)
        outs.append({"module": m, "rc": p.returncode, "out": p.stdout.decode(errors="replace")[-500:]})
        allok = allok and p.returncode == 0
    res["leanchecker"] = outs
    return allok


# --------------------------------------------------------------------------- harness side


def cargo_build(bins, res, features=None, target_dir=None):
    cmd = ["cargo", "build", "--release", "--offline"]
    for b in bins:
        cmd += ["--bin", b]
    if features is not None:
        cmd += ["--no-default-features", "--features", features]
    env = dict(ENV)
    env["RUSTFLAGS"] = (env.get("RUSTFLAGS", "") + " --cfg oxidd_verif").strip()
    if target_dir:
        env["CARGO_TARGET_DIR"] = target_dir
    t = time.time()
    p = sh(cmd, cwd=HARNESS, stdout=subprocess.PIPE, stderr=subprocess.STDOUT, env=env)
    res.setdefault("cargo_build", []).append({"cmd": "cd harness && RUSTFLAGS='--cfg oxidd_verif' " + " ".join(cmd), "rc": p.returncode,
                                              "wall_s": round(time.time() - t, 1)})
    if p.returncode != 0:
        res["cargo_build"][-1]["out"] = p.stdout.decode(errors="replace")[-6000:]
    return p.returncode == 0


def bin_path(name, target_dir=None):
    return os.path.join(target_dir or os.path.join(HARNESS, "target"), "release", name)


def run_impl(stream, ops_path, out_dir, tag="impl", timeout=None, budget_kill_ok=False):
    """run the implementation side; returns (rc, out_path, oracle failures, stats, leak cases)"""
    outp = os.path.join(out_dir, tag + ".out")
    orp = os.path.join(out_dir, tag + ".oracle")
    stp = os.path.join(out_dir, tag + ".stats")
    errp = os.path.join(out_dir, tag + ".err")
    for p in (orp, stp):
        if os.path.exists(p):
            os.remove(p)
    cmd = [bin_path(stream["bin"], stream.get("target_dir")), "run", "--oracle-out", orp, "--stats", stp] + stream.get("run_args", [])
    with open(ops_path, "rb") as i, open(outp, "wb") as o, open(errp, "wb") as e:
        try:
            p = sh(cmd, stdin=i, stdout=o, stderr=e, timeout=timeout or stream.get("timeout", 3000))
            rc = p.returncode
            timed_out = False
        except subprocess.TimeoutExpired:
            rc = -9
            timed_out = True
    fails = []
    if os.path.exists(orp):
        for l in open(orp, encoding="utf-8", errors="replace"):
            l = l.strip()
            if l:
                try:
                    fails.append(json.loads(l))
                except Exception:
                    fails.append({"line": 0, "case": "?", "sig": "unparsable", "msg": l})
    stats = {}
    if os.path.exists(stp):
        try:
            stats = json.load(open(stp))
        except Exception:
            pass
    # leak monitor and abnormal termination
    cur = "?"
    seen_leak = set()
    for l in open(errp, encoding="utf-8", errors="replace"):
        if l.startswith("@case"):
            cur = l[1:].strip()
        elif "must not be dropped" in l and cur not in seen_leak:
            seen_leak.add(cur)
            fails.append({"line": 0, "case": cur, "sig": "edge-leak", "msg": "manager reported a leaked edge: " + l.strip()[:200]})
    if timed_out and budget_kill_ok:
        # the orchestrator's own time budget ended the run (search / shrinking): inconclusive, not a
        # crash; hangs of a single operation are reported by the harness's watchdog itself
        pass
    elif rc not in (0, 3):
        tail = open(errp, encoding="utf-8", errors="replace").read()[-600:]
        fails.append({"line": 0, "case": cur, "sig": "crash", "msg": f"harness process ended with status {rc} (abort/crash/timeout); stderr tail: {tail}"})
    return rc, outp, fails, stats


def run_model(stream, ops_path, out_dir, tag="model"):
    outp = os.path.join(out_dir, tag + ".out")
    cmd = [os.path.join(LEAN, ".lake", "build", "bin", "oxdriver"), stream["proto"]]
    with open(ops_path, "rb") as i, open(outp, "wb") as o:
        p = sh(cmd, stdin=i, stdout=o, stderr=subprocess.PIPE, timeout=stream.get("timeout", 3000))
    return p.returncode, outp


def read_lines(p):
    with open(p, encoding="utf-8", errors="replace") as f:
        return [l.rstrip("\n") for l in f]


def case_ranges(ops):
    """list of (start, end, header) line index ranges of the cases"""
    starts = [i for i, l in enumerate(ops) if l.startswith("case")]
    if not starts:
        return [(0, len(ops), "case ?")]
    rs = []
    for k, s in enumerate(starts):
        e = starts[k + 1] if k + 1 < len(starts) else len(ops)
        rs.append((s, e, ops[s]))
    return rs


def compare(ops, impl, model):
    """returns list of (case header, first differing line idx, impl line, model line)"""
    diffs = []
    n = max(len(impl), len(model))
    ranges = case_ranges(ops)
    ri = 0
    seen = set()
    for i in range(n):
        a = impl[i] if i < len(impl) else "<missing>"
        b = model[i] if i < len(model) else "<missing>"
        if a != b:
            while ri + 1 < len(ranges) and ranges[ri + 1][0] <= i:
                ri += 1
            hdr = ranges[ri][2] if ranges[ri][0] <= i else "case ?"
            if hdr not in seen:
                seen.add(hdr)
                diffs.append({"case": hdr, "line": i + 1, "op": ops[i] if i < len(ops) else "<eof>", "impl": a[:400], "model": b[:400]})
                if len(diffs) >= 50:
                    break
    return diffs


def extract_case(ops, header):
    for s, e, h in case_ranges(ops):
        if h == header:
            return ops[s:e]
    return None


def still_fails(stream, lines, work, kind, sig):
    """re-run a candidate case; kind = 'oracle' (same sig fails) or 'diff' (streams differ)"""
    p = os.path.join(work, "shrink.ops")
    with open(p, "w") as f:
        f.write("\n".join(lines) + "\n")
    rc, outp, fails, _ = run_impl(stream, p, work, tag="shrink", timeout=120, budget_kill_ok=True)
    if kind == "oracle":
        return any(f["sig"] == sig for f in fails)
    rc2, mp = run_model(stream, p, work, tag="shrinkm")
    return read_lines(outp) != read_lines(mp)


def shrink(stream, lines, work, kind, sig, budget_s=25):
    t0 = time.time()
    if not still_fails(stream, lines, work, kind, sig):
        return lines, False
    cur = list(lines)
    # chunked removal, then single lines, never the `case` header
    chunk = max(1, (len(cur) - 1) // 2)
    while chunk >= 1 and time.time() - t0 < budget_s:
        i = len(cur) - chunk
        progressed = False
        while i >= 1 and time.time() - t0 < budget_s:
            cand = cur[:i] + cur[i + chunk:]
            if len(cand) >= 1 and still_fails(stream, cand, work, kind, sig):
                cur = cand
                progressed = True
            i -= chunk
        if chunk == 1 and not progressed:
            break
        chunk = chunk // 2 if chunk > 1 else (1 if progressed else 0)
    return cur, True


# --------------------------------------------------------------------------- verdicts


def load_known():
    p = os.path.join(ROOT, "known_findings.json")
    if not os.path.exists(p):
        return []
    return json.load(open(p)).get("findings", [])


def match_known(known, prop, fail):
    """a failure is a listed finding iff property, signature and case pattern all match"""
    for k in known:
        if k.get("status") != "open" or prop not in k.get("properties", []):
            continue
        sigs = k.get("sig")
        if fail.get("sig") not in (sigs if isinstance(sigs, list) else [sigs]):
            continue
        if re.search(k.get("case_regex", "^$"), fail.get("case", "")):
            return k
    return None


def write_replay(prop, name, obj):
    d = os.path.join(ROOT, "replays")
    os.makedirs(d, exist_ok=True)
    p = os.path.join(d, f"{prop}-{name}.json")
    json.dump(obj, open(p, "w"), indent=1)
    return p


def main():
    args = sys.argv[1:]
    if not args:
        print(__doc__)
        return 2
    prop = args[0]
    tier = os.environ.get("VERIF_TIER", "quick")
    replay = None
    i = 1
    while i < len(args):
        if args[i] == "--tier":
            tier = args[i + 1]
            i += 2
        elif args[i] == "--replay":
            replay = args[i + 1]
            i += 2
        else:
            i += 1
    seed = int(os.environ.get("VERIF_SEED", "1"))
    t0 = time.time()
    cfg = json.load(open(os.path.join(ROOT, "checks", prop + ".json")))
    if ROOT != "/verif":
        # the configs name build directories under /verif; when the framework runs from a copy
        # (a snapshot for a background run, an isolated evaluation) they live under that copy
        def _reroot(x):
            if isinstance(x, str):
                # (leave strings alone that an isolated evaluation already rewrote to this copy)
                return x if ROOT in x else x.replace("/verif/", ROOT + "/")
            if isinstance(x, list):
                return [_reroot(y) for y in x]
            if isinstance(x, dict):
                return {k: _reroot(v) for k, v in x.items()}
            return x
        cfg = _reroot(cfg)
    work = os.path.join(ROOT, "work", prop, tier)
    os.makedirs(work, exist_ok=True)
    res = {}
    known = load_known()
    violations = []  # (replay path, suffix)
    known_hits = {}
    broken = []  # proof obligations / correspondence streams that no longer check

    if replay:
        return do_replay(prop, cfg, replay, work)

    # ---------------- P
    with Lock("lean"):
        tr_ok = run_translator(cfg, res)
        if not tr_ok:
            broken.append({"what": "translator", "detail": res["translator"]["out"][-800:]})
        built = lean_build(cfg, res)
        if built:
            ok, bad = axiom_audit(cfg, res, prop)
            for b in bad:
                broken.append({"what": "theorem " + b["theorem"], "detail": b["note"] + " " + str(b["axioms"])})
        else:
            ok, bad = [], []
            broken.append({"what": "lean build (theorem modules " + ", ".join(res["lean_build"].get("failed", [])) + ")",
                           "detail": res["lean_build"].get("out", "")[-1500:]})
        hits = forbidden_scan()
        res["forbidden_scan"] = hits
        for h in hits:
            broken.append({"what": "forbidden construct", "detail": h})
        if tier == "thorough" and built:
            if not leanchecker(cfg, res):
                broken.append({"what": "leanchecker", "detail": json.dumps(res["leanchecker"])[-800:]})
    driver_ok = os.path.exists(os.path.join(LEAN, ".lake", "build", "bin", "oxdriver")) and built

    # ---------------- T and O
    for cmd in cfg.get("pre_cmds", []):
        with Lock("cargo"):
            t = time.time()
            p = sh(["bash", "-c", cmd], cwd=ROOT, stdout=subprocess.PIPE, stderr=subprocess.STDOUT)
            res.setdefault("pre_cmds", []).append({"cmd": cmd, "rc": p.returncode, "wall_s": round(time.time() - t, 1)})
            if p.returncode != 0:
                broken.append({"what": "pre-command " + cmd, "detail": p.stdout.decode(errors="replace")[-1500:]})
    streams = [s for s in cfg.get("streams", []) if tier in s.get("tiers", ["quick", "thorough"])]
    with Lock("cargo"):
        groups = {}
        for s in streams:
            groups.setdefault((s.get("features"), s.get("target_dir")), []).append(s["bin"])
        cargo_ok = True
        for (feat, td), bins in groups.items():
            cargo_ok = cargo_build(sorted(set(bins)), res, feat, td) and cargo_ok
    if not cargo_ok:
        broken.append({"what": "harness build against /repo", "detail": res["cargo_build"][-1].get("out", "")[-1500:]})

    total_eval = 0
    distinct = set()
    samples = []
    stream_res = []
    all_stats = {}
    for s in (streams if cargo_ok else []):
        sdir = os.path.join(work, s["name"])
        os.makedirs(sdir, exist_ok=True)
        ops_path = os.path.join(sdir, "ops.txt")
        gen_cmd = [bin_path(s["bin"], s.get("target_dir")), "gen", "--tier", tier, "--seed", str(seed)] + s.get("gen", {}).get(tier, [])
        with open(ops_path, "wb") as o:
            g = sh(gen_cmd, stdout=o, stderr=subprocess.PIPE)
        if g.returncode != 0:
            broken.append({"what": f"generator {s['name']}", "detail": g.stderr.decode(errors="replace")[-500:]})
            continue
        ts = time.time()
        rc, implp, fails, stats = run_impl(s, ops_path, sdir)
        t_impl = time.time() - ts
        ops = read_lines(ops_path)
        impl = read_lines(implp)
        diffs = []
        t_model = 0
        if driver_ok and s.get("proto"):
            ts = time.time()
            mrc, modelp = run_model(s, ops_path, sdir)
            t_model = time.time() - ts
            model = read_lines(modelp)
            if mrc != 0:
                broken.append({"what": f"model driver on stream {s['name']}", "detail": f"exit status {mrc}"})
            diffs = compare(ops, impl, model)
        n_ops = sum(1 for l in ops if l and not l.startswith("#") and not l.startswith("case"))
        total_eval += n_ops
        for k, v in stats.items():
            all_stats[s["name"] + "." + k] = v
        for o_, i_ in zip(ops, impl):
            if o_ and not o_.startswith("#") and not o_.startswith("case") and len(i_) > 3:
                distinct.add(hash((s["name"], i_)))
        idxs = [j for j, l in enumerate(ops) if l and not l.startswith("#") and not l.startswith("case")]
        for j in ([idxs[0], idxs[len(idxs) // 2], idxs[-1]] if idxs else []):
            samples.append({"stream": s["name"], "line": j + 1, "op": ops[j][:300], "impl": impl[j][:300] if j < len(impl) else None})
        sr = {"name": s["name"], "bin": s["bin"], "proto": s.get("proto"), "gen_cmd": " ".join(gen_cmd[1:]), "ops": n_ops,
              "cases": sum(1 for l in ops if l.startswith("case")), "impl_rc": rc, "impl_wall_s": round(t_impl, 1),
              "model_wall_s": round(t_model, 1), "oracle_failures": len(fails), "stream_differences": len(diffs)}
        stream_res.append(sr)

        # --- oracle failures: real violations on the implementation
        reported = set()
        for f in fails:
            k = match_known(known, prop, f)
            if k:
                known_hits.setdefault(k["id"], k)
                continue
            key = (f["sig"], f["case"])
            if key in reported or len(violations) >= 5:
                continue
            reported.add(key)
            lines = extract_case(ops, f["case"]) or ops
            small, confirmed = shrink(s, lines, sdir, "oracle", f["sig"])
            rp = write_replay(prop, f"{s['name']}-{seed}-{len(violations)}", {
                "property": prop, "kind": "oracle-failure-on-implementation", "stream": s["name"], "bin": s["bin"], "proto": s.get("proto"),
                "run_args": s.get("run_args", []), "seed": seed, "tier": tier, "failure": f, "confirmed_on_rerun": confirmed, "ops": small})
            violations.append((rp, ""))
        # --- stream differences without an oracle failure in the same case
        failing_cases = {f["case"] for f in fails}
        for d in diffs:
            if d["case"] in failing_cases:
                continue
            broken.append({"what": f"correspondence stream {s['name']}", "detail": d, "stream": s, "ops_path": ops_path})
    res["streams"] = stream_res

    # ---------------- streams that must agree with another stream (same operation lines on a
    # different build configuration): compare the implementation outputs directly
    for s in (streams if cargo_ok else []):
        ref = s.get("same_as")
        if not ref:
            continue
        a = os.path.join(work, s["name"], "impl.out")
        b = os.path.join(work, ref, "impl.out")
        oa = os.path.join(work, s["name"], "ops.txt")
        if not (os.path.exists(a) and os.path.exists(b)):
            continue
        la, lb, ops = read_lines(a), read_lines(b), read_lines(oa)
        d = compare(ops, la, lb)
        for x in d[:5]:
            x["note"] = f"stream {s['name']} (impl) vs stream {ref} (model column = the other configuration)"
            broken.append({"what": f"configurations disagree: {s['name']} vs {ref}", "detail": x})
        for sr in stream_res:
            if sr["name"] == s["name"]:
                sr["same_as"] = ref
                sr["differences_to_reference_configuration"] = len(d)

    # ---------------- a broken obligation or correspondence is not by itself a violation: search
    if broken and not violations:
        found = search_failing_input(prop, cfg, tier, seed, work, known, res)
        if found:
            violations.append((found, ""))
        else:
            det = []
            for b in broken[:10]:
                d = dict(b)
                st = d.pop("stream", None)
                opsp = d.pop("ops_path", None)
                if st and isinstance(d.get("detail"), dict):
                    ops = read_lines(opsp)
                    lines = extract_case(ops, d["detail"]["case"]) or []
                    if lines and len(lines) < 5000:
                        small, conf = shrink(st, lines, os.path.join(work, st["name"]), "diff", None, budget_s=15)
                        d["ops"] = small
                        d["bin"] = st["bin"]
                        d["proto"] = st.get("proto")
                det.append(d)
            rp = write_replay(prop, f"unchecked-{seed}", {
                "property": prop, "kind": "obligation-or-correspondence-no-longer-checks", "no_longer_checks": det,
                "note": "the search over the implementation oracles and the model found no input on which the property itself fails"})
            violations.append((rp, " no-failing-input-found"))

    # ---------------- evidence
    thms = cfg.get("theorems", [])
    n_obl = len(thms)
    n_dis = len(ok) if built else 0
    ev = {
        "property_id": prop, "tier": tier, "seed": seed, "level": cfg.get("level", "proof"),
        "coverage": {
            "obligations": max(n_obl, 1), "discharged": n_dis,
            "checker_cmd": "; ".join(x for x in [res.get("lean_build", {}).get("cmd"), res.get("axiom_audit", {}).get("cmd")] if x),
            "trusted_base": cfg.get("trusted_base", []) + [
                "Lean 4.33.0 kernel; axioms allowed: propext, Classical.choice, Quot.sound (audited by #print axioms on every headline theorem: "
                + ", ".join(res.get("axiom_audit", {}).get("axioms_used", [])) + ")",
                "Lean compiler/runtime for the executable model driver (oxdriver)",
                "correspondence harness /verif/harness, check.py, tools/extract_tables.py"],
            "theorems": thms,
            "evaluations": max(total_eval, 1), "distinct_nontrivial": len(distinct),
            "rule": cfg.get("rule", "operation lines are generated by the harness generator from one splitmix64 state (VERIF_SEED) or enumerated; "
                            "a case counts as distinct+non-trivial when its canonical implementation output line is longer than 3 characters and differs from every other output line of the stream"),
            "samples": samples, "traces_validated_against_impl": sum(x["cases"] for x in stream_res),
            "streams": stream_res, "harness_stats": all_stats,
            "lean": {k: res.get(k) for k in ("translator", "lean_build", "axiom_audit", "forbidden_scan", "leanchecker") if k in res},
            "cargo": res.get("cargo_build"),
            "implementation_vs_oracle_failures": [v[0] for v in violations if not v[1]],
            "model_vs_implementation_or_proof_breaks": [{"what": b["what"], "detail": b["detail"] if not isinstance(b["detail"], dict) else b["detail"]} for b in broken][:20],
            "known_findings_reproduced": sorted(known_hits),
            "exhaustive": bool(cfg.get("exhaustive", {}).get(tier, False)),
        },
        "assumptions": cfg.get("assumptions", []),
        "wall_s": round(time.time() - t0, 1),
        "violations": len(violations),
    }
    os.makedirs(os.path.join(ROOT, "evidence"), exist_ok=True)
    json.dump(ev, open(os.path.join(ROOT, "evidence", prop + ".json"), "w"), indent=1)

    for k in sorted(known_hits):
        log(f"KNOWN-FINDING: property={prop} {known_hits[k]['what']}")
    for rp, suffix in violations:
        log(f"VIOLATION property={prop} replay={rp}{suffix}")
        try:  # one line of detail (what failed, where), so that a log of the run is enough to triage
            j = json.load(open(rp))
            f = j.get("failure") or {}
            det = f"sig={f.get('sig')} case={f.get('case')!r} msg={str(f.get('msg'))[:400]!r}" if f else json.dumps(j.get("no_longer_checks", ""))[:500]
            log(f"  detail: stream={j.get('stream', j.get('bin'))} {det}")
        except Exception:
            pass
    log(f"{prop} {tier}: theorems {n_dis}/{n_obl} clean, {total_eval} operation lines on implementation and model, "
        f"{sum(x['stream_differences'] for x in stream_res)} stream differences, {sum(x['oracle_failures'] for x in stream_res)} oracle failures, "
        f"{len(known_hits)} known findings, {len(violations)} violations, {ev['wall_s']} s")
    return 1 if violations else 0


def search_failing_input(prop, cfg, tier, seed, work, known, res):
    """P or T broke: look for a concrete input on which the property fails on the implementation.
    Uses the thorough generators with fresh seeds under a time budget, oracles only."""
    budget = cfg.get("search_budget_s", {}).get(tier, 120 if tier == "quick" else 600)
    t0 = time.time()
    tried = 0
    for rnd in range(1000):
        for s in cfg.get("streams", []):
            if time.time() - t0 > budget:
                res["search"] = {"rounds": tried, "found": False, "wall_s": round(time.time() - t0, 1)}
                return None
            sdir = os.path.join(work, "search")
            os.makedirs(sdir, exist_ok=True)
            ops_path = os.path.join(sdir, "ops.txt")
            sd = seed * 1000 + rnd + 7
            gtier = "thorough" if rnd % 2 == 0 else "quick"
            gen_cmd = [bin_path(s["bin"], s.get("target_dir")), "gen", "--tier", gtier, "--seed", str(sd)] + s.get("gen", {}).get(gtier, [])
            if not os.path.exists(gen_cmd[0]):
                continue
            with open(ops_path, "wb") as o:
                try:
                    sh(gen_cmd, stdout=o, stderr=subprocess.DEVNULL, timeout=300)
                except subprocess.TimeoutExpired:
                    continue
            rc, implp, fails, _ = run_impl(s, ops_path, sdir, timeout=max(30, budget - (time.time() - t0)), budget_kill_ok=True)
            tried += 1
            fails = [f for f in fails if not match_known(known, prop, f)]
            if fails:
                f = fails[0]
                ops = read_lines(ops_path)
                lines = extract_case(ops, f["case"]) or ops
                small, confirmed = shrink(s, lines, sdir, "oracle", f["sig"])
                res["search"] = {"rounds": tried, "found": True, "wall_s": round(time.time() - t0, 1)}
                return write_replay(prop, f"search-{s['name']}-{sd}", {
                    "property": prop, "kind": "oracle-failure-on-implementation (found by the search after a proof/correspondence break)",
                    "stream": s["name"], "bin": s["bin"], "proto": s.get("proto"), "run_args": s.get("run_args", []), "seed": sd, "tier": gtier,
                    "failure": f, "confirmed_on_rerun": confirmed, "ops": small})
    res["search"] = {"rounds": tried, "found": False, "wall_s": round(time.time() - t0, 1)}
    return None


def do_replay(prop, cfg, path, work):
    r = json.load(open(path))
    entries = [r] if "ops" in r else [x for x in r.get("no_longer_checks", []) if "ops" in x]
    if not entries:
        log("replay file names an obligation without an input: " + json.dumps(r.get("no_longer_checks", r))[:2000])
        return 1
    res = {}
    bins = sorted({e["bin"] for e in entries})
    with Lock("cargo"):
        cargo_build(bins, res)
    with Lock("lean"):
        lean_build({"lean_modules": []}, res)
    rc_all = 0
    for e in entries:
        p = os.path.join(work, "replay.ops")
        open(p, "w").write("\n".join(e["ops"]) + "\n")
        st = {"bin": e["bin"], "proto": e.get("proto"), "run_args": e.get("run_args", [])}
        rc, outp, fails, _ = run_impl(st, p, work, tag="replay")
        impl = read_lines(outp)
        log("--- ops / implementation output" + (" / model output" if st["proto"] else ""))
        model = []
        if st["proto"]:
            _, mp = run_model(st, p, work, tag="replaym")
            model = read_lines(mp)
        for k, o in enumerate(e["ops"]):
            a = impl[k] if k < len(impl) else "<missing>"
            b = model[k] if k < len(model) else ""
            mark = "   " if (not st["proto"] or a == b) else "!= "
            log(f"{mark}{o}\n      impl : {a}" + (f"\n      model: {b}" if st["proto"] else ""))
        for f in fails:
            log("ORACLE FAILURE: " + json.dumps(f))
        if fails or (st["proto"] and impl != model):
            rc_all = 1
    return rc_all


if __name__ == "__main__":
    sys.exit(main())
