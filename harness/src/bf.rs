//! Boolean-function scenario helpers (filled in below).
