//! Boolean-function scenario shared by the BDD, BCDD and ZBDD kinds.
//!
//! `Bf<K>` interprets the line protocol of DESIGN.md Appendix A on a real manager of kind `K`.
//! For every handle it tracks the *expected* truth table, computed from the operands' expected
//! tables by the propositional definition of the operation (never from the implementation), and
//! compares it with the table obtained by an independent node-by-node walk of the returned
//! diagram (`Kind::walk_eval`) and with `eval`.

use std::collections::{BTreeMap, HashMap};
use std::hash::Hash;

use oxidd::util::{AllocResult, OptBool, SatCountCache};
use oxidd::{BooleanFunction, Function, Manager, ManagerRef};
use oxidd_core::function::EdgeOfFunc;

use crate::{Ctx, Scenario, words};

// ------------------------------------------------------------------------------------------------
// Truth tables

/// Truth table over `n` variables; bit `a` is the value under the assignment whose bit `v` is the
/// value of variable `v`.
#[derive(Clone, PartialEq, Eq, Hash, Debug)]
pub struct TT {
    pub n: u32,
    pub bits: Vec<u64>,
}

impl TT {
    pub fn len(&self) -> usize {
        1usize << self.n
    }
    pub fn new(n: u32, v: bool) -> TT {
        let len = 1usize << n;
        let words = len.div_ceil(64);
        let mut t = TT { n, bits: vec![if v { !0u64 } else { 0 }; words] };
        t.mask();
        t
    }
    fn mask(&mut self) {
        let len = self.len();
        if len < 64 {
            self.bits[0] &= (1u64 << len) - 1;
        }
    }
    pub fn get(&self, a: usize) -> bool {
        (self.bits[a / 64] >> (a % 64)) & 1 != 0
    }
    pub fn set(&mut self, a: usize, v: bool) {
        if v {
            self.bits[a / 64] |= 1 << (a % 64);
        } else {
            self.bits[a / 64] &= !(1 << (a % 64));
        }
    }
    pub fn from_fn(n: u32, f: impl Fn(usize) -> bool) -> TT {
        let mut t = TT::new(n, false);
        for a in 0..t.len() {
            if f(a) {
                t.set(a, true);
            }
        }
        t
    }
    pub fn var(n: u32, v: u32) -> TT {
        TT::from_fn(n, |a| (a >> v) & 1 != 0)
    }
    pub fn map2(&self, o: &TT, f: impl Fn(bool, bool) -> bool) -> TT {
        assert_eq!(self.n, o.n);
        TT::from_fn(self.n, |a| f(self.get(a), o.get(a)))
    }
    pub fn not(&self) -> TT {
        TT::from_fn(self.n, |a| !self.get(a))
    }
    pub fn is_false(&self) -> bool {
        self.bits.iter().all(|&w| w == 0)
    }
    pub fn is_true(&self) -> bool {
        *self == TT::new(self.n, true)
    }
    pub fn count(&self) -> u64 {
        self.bits.iter().map(|w| w.count_ones() as u64).sum()
    }
    /// `self` with variable `v` fixed to `b`
    pub fn cofactor(&self, v: u32, b: bool) -> TT {
        TT::from_fn(self.n, |a| self.get(if b { a | (1 << v) } else { a & !(1 << v) }))
    }
    pub fn depends_on(&self, v: u32) -> bool {
        self.cofactor(v, false) != self.cofactor(v, true)
    }
    pub fn implies(&self, o: &TT) -> bool {
        self.bits.iter().zip(&o.bits).all(|(a, b)| a & !b == 0)
    }
    /// extend to `n2 >= n` variables (function does not depend on the new ones)
    pub fn extend(&self, n2: u32) -> TT {
        let m = self.len() - 1;
        TT::from_fn(n2, |a| self.get(a & m))
    }
    /// ZBDD view: new variables must be 0
    pub fn extend_zero(&self, n2: u32) -> TT {
        let len = self.len();
        TT::from_fn(n2, |a| a < len && self.get(a))
    }
    pub fn hex(&self) -> String {
        let mut s = String::new();
        for w in self.bits.iter().rev() {
            if self.len() >= 64 {
                s.push_str(&format!("{:016x}", w));
            } else {
                s.push_str(&format!("{:0width$x}", w, width = self.len().div_ceil(4).max(1)));
            }
        }
        s
    }
    /// if `self` is a (satisfiable) cube: literals `(var, polarity)`; variables it does not fix are omitted
    pub fn cube_literals(&self) -> Option<Vec<(u32, bool)>> {
        if self.is_false() {
            return None;
        }
        let mut lits = Vec::new();
        let mut rebuilt = TT::new(self.n, true);
        for v in 0..self.n {
            let xv = TT::var(self.n, v);
            if self.implies(&xv) {
                lits.push((v, true));
                rebuilt = rebuilt.map2(&xv, |a, b| a && b);
            } else if self.implies(&xv.not()) {
                lits.push((v, false));
                rebuilt = rebuilt.map2(&xv, |a, b| a && !b);
            }
        }
        if rebuilt == *self { Some(lits) } else { None }
    }
}

pub fn bin_sem(op: &str) -> Option<fn(bool, bool) -> bool> {
    Some(match op {
        "and" => |a, b| a && b,
        "or" => |a, b| a || b,
        "nand" => |a, b| !(a && b),
        "nor" => |a, b| !(a || b),
        "xor" => |a, b| a ^ b,
        "equiv" => |a, b| a == b,
        "imp" => |a, b| !a || b,
        "imp_strict" => |a, b| !a && b,
        _ => return None,
    })
}

pub const BIN_OPS: [&str; 8] = ["and", "or", "nand", "nor", "xor", "equiv", "imp", "imp_strict"];

// ------------------------------------------------------------------------------------------------
// Kind interface

pub struct AuditInfo {
    /// number of inner nodes found by iterating over all levels
    pub inner: usize,
    /// per inner node: (level, printed tree, ref count)
    pub nodes: Vec<(u32, String, usize)>,
}

pub trait Kind: Sized + 'static {
    type F: BooleanFunction + Function<ManagerRef: Send + Sync> + Eq + Hash + Clone + Ord + Send + Sync;
    const NAME: &'static str;
    /// number of nodes `node_count` reports for a terminal-only diagram etc. is kind specific; the
    /// reference diagram size is computed by `ref_node_count`
    fn new_manager(nodes: usize, cache: usize, threads: u32) -> <Self::F as Function>::ManagerRef;
    /// canonical rendering with variable numbers
    fn tree<'id>(m: &<Self::F as Function>::Manager<'id>, e: &EdgeOfFunc<'id, Self::F>) -> String;
    /// independent node-by-node interpretation under the current order
    fn walk_eval<'id>(m: &<Self::F as Function>::Manager<'id>, e: &EdgeOfFunc<'id, Self::F>, a: usize) -> bool;
    /// structural audit through the public API (C03): `Err(msg)` on the first violated rule
    fn audit<'id>(m: &<Self::F as Function>::Manager<'id>) -> Result<AuditInfo, String>;
    /// reorder (set_var_order); `seq` selects `set_var_order_seq`
    fn reorder(mref: &<Self::F as Function>::ManagerRef, order: &[u32], seq: bool);
    /// how a handle's expected table changes when variables are appended
    fn extend_tt(t: &TT, n2: u32) -> TT;
    /// number of nodes (as `node_count` counts them) of the reduced diagram of `t` under the
    /// order `l2v` (level -> var), computed by an independent reference construction
    fn ref_node_count(t: &TT, l2v: &[u32]) -> usize;
    /// kind-specific operations (quantification, substitution, set operations, ...)
    fn ext(sc: &mut Bf<Self>, w: &[&str], ctx: &mut Ctx) -> Option<String>;
    /// ids of the nodes that the manager keeps alive itself (internal roots), as printed trees
    fn internal_roots<'id>(_m: &<Self::F as Function>::Manager<'id>) -> usize {
        0
    }
    /// set the split depth of the manager's worker pool (`None` = automatic)
    fn set_split_depth(_mref: &<Self::F as Function>::ManagerRef, _depth: Option<u32>) {}
    /// the printed trees of the internal roots (one entry per reference held)
    fn internal_root_trees<'id>(_m: &<Self::F as Function>::Manager<'id>) -> Vec<String> {
        Vec::new()
    }
    /// expected table of `restrict(f, cube)`; `plain` is the cofactor of `f` w.r.t. the cube's
    /// literals (the B(C)DD reading). ZBDDs override this with their documented reading.
    fn restrict_expected(_f: &TT, _cube: &TT, plain: TT) -> TT {
        plain
    }
}

pub struct Bf<K: Kind> {
    pub mref: Option<<K::F as Function>::ManagerRef>,
    pub h: HashMap<String, K::F>,
    pub tt: HashMap<String, TT>,
    pub n: u32,
    pub threads: u32,
    pub extra: BTreeMap<String, String>,
    pub satcache_u64: Option<SatCountCache<oxidd_core::util::num::Saturating<u64>, std::hash::RandomState>>,
    pub state: HashMap<String, Box<dyn std::any::Any>>,
}

impl<K: Kind> Bf<K> {
    pub fn new(extra: &BTreeMap<String, String>) -> Self {
        Bf {
            mref: None,
            h: HashMap::new(),
            tt: HashMap::new(),
            n: 0,
            threads: 1,
            extra: extra.clone(),
            satcache_u64: None,
            state: HashMap::new(),
        }
    }

    pub fn mref(&self) -> &<K::F as Function>::ManagerRef {
        self.mref.as_ref().expect("no manager: `mgr` line missing")
    }

    pub fn tree_of(&self, f: &K::F) -> String {
        f.with_manager_shared(|m, e| K::tree(m, e))
    }

    pub fn l2v(&self) -> Vec<u32> {
        self.mref().with_manager_shared(|m| (0..m.num_levels()).map(|l| m.level_to_var(l)).collect())
    }

    /// actual truth table by the independent walk; also cross-checks `eval`
    pub fn actual_tt(&self, f: &K::F, ctx: &mut Ctx, what: &str) -> TT {
        let n = self.n;
        let t = f.with_manager_shared(|m, e| TT::from_fn(n, |a| K::walk_eval(m, e, a)));
        // `eval` must agree with the node-by-node interpretation (C02)
        let step = if n <= 6 { 1 } else { 37 };
        let mut a = 0usize;
        while a < t.len() {
            let ev = f.eval((0..n).map(|v| (v, (a >> v) & 1 != 0)));
            if ev != t.get(a) {
                ctx.fail("eval-vs-walk", &format!("{}: eval under assignment {:#b} gives {} but the node-by-node walk gives {}", what, a, ev, t.get(a)));
                break;
            }
            a += step;
        }
        t
    }

    /// register a result handle: compare with the expected table, print the tree
    pub fn put(&mut self, name: &str, r: AllocResult<K::F>, expected: Option<TT>, ctx: &mut Ctx, what: &str) -> String {
        match r {
            Err(_) => {
                ctx.count("oom");
                "OOM".into()
            }
            Ok(f) => {
                let actual = self.actual_tt(&f, ctx, what);
                if let Some(exp) = &expected {
                    if *exp != actual {
                        ctx.fail("wrong-function", &format!("{}: result has truth table {} but the specification gives {}", what, actual.hex(), exp.hex()));
                    }
                }
                // canonicity on the implementation (C01): same function <=> same handle
                if self.h.len() <= 600 {
                    for (k, g) in &self.h {
                        if let Some(tg) = self.tt.get(k) {
                            let same_fn = *tg == actual;
                            let same_h = *g == f;
                            if same_fn != same_h {
                                ctx.fail("canonicity", &format!("{}: handle {} {} the new handle but their truth tables are {} ({} vs {})", what, k, if same_h { "==" } else { "!=" }, if same_fn { "equal" } else { "different" }, tg.hex(), actual.hex()));
                                break;
                            }
                        }
                    }
                }
                let s = self.tree_of(&f);
                // (after a mismatch the actual table is remembered, so one wrong result is
                // reported once and not again by every later comparison)
                let _ = expected;
                self.tt.insert(name.to_string(), actual);
                self.h.insert(name.to_string(), f);
                s
            }
        }
    }

    pub fn get(&self, name: &str) -> Option<(&K::F, &TT)> {
        Some((self.h.get(name)?, self.tt.get(name)?))
    }

    fn do_audit(&mut self, ctx: &mut Ctx) -> Option<AuditInfo> {
        // exclusive: the gc thread (which collects under the shared lock) must not remove nodes
        // while the store is walked
        let r = self.mref().with_manager_exclusive(|m| K::audit(&*m));
        match r {
            Ok(info) => Some(info),
            Err(msg) => {
                ctx.fail("audit", &msg);
                None
            }
        }
    }
}

fn parse_kv<'a>(w: &[&'a str], key: &str) -> Option<&'a str> {
    w.iter().find_map(|x| x.strip_prefix(key).and_then(|r| r.strip_prefix('=')))
}

impl<K: Kind> Scenario for Bf<K> {
    fn reset(&mut self) {
        self.h.clear();
        self.tt.clear();
        self.state.clear();
        self.satcache_u64 = None;
        self.mref = None;
        self.n = 0;
    }

    fn step(&mut self, line: &str, ctx: &mut Ctx) -> String {
        let w = words(line);
        match w[0] {
            "mgr" => {
                let nodes: usize = parse_kv(&w, "nodes").map(|s| s.parse().unwrap()).unwrap_or(1 << 16);
                let cache: usize = parse_kv(&w, "cache").map(|s| s.parse().unwrap()).unwrap_or(1 << 10);
                let threads: u32 = parse_kv(&w, "threads").map(|s| s.parse().unwrap()).unwrap_or(1);
                self.threads = threads;
                self.mref = Some(K::new_manager(nodes, cache, threads));
                if let Some(sd) = parse_kv(&w, "split") {
                    K::set_split_depth(self.mref(), if sd == "auto" { None } else { Some(sd.parse().unwrap()) });
                }
                let vars: u32 = parse_kv(&w, "vars").map(|s| s.parse().unwrap()).unwrap_or(0);
                if vars > 0 {
                    self.mref().with_manager_exclusive(|m| {
                        m.add_vars(vars);
                    });
                    self.n = vars;
                }
                "ok".into()
            }
            "addvars" => {
                let k: u32 = w[1].parse().unwrap();
                let r = self.mref().with_manager_exclusive(|m| m.add_vars(k));
                let n2 = self.n + k;
                for t in self.tt.values_mut() {
                    *t = K::extend_tt(t, n2);
                }
                self.n = n2;
                // handles must denote the extended functions (C16 / C09)
                let names: Vec<String> = self.h.keys().cloned().collect();
                for k in names {
                    let f = self.h[&k].clone();
                    let act = self.actual_tt(&f, ctx, "after addvars");
                    if act != self.tt[&k] {
                        ctx.fail("addvars-changed-function", &format!("handle {} denotes {} after add_vars, expected {}", k, act.hex(), self.tt[&k].hex()));
                        break;
                    }
                }
                let (nl, nv) = self.mref().with_manager_shared(|m| (m.num_levels(), m.num_vars()));
                if nl != n2 || nv != n2 {
                    ctx.fail("levels-vs-vars", &format!("after add_vars: num_levels {} num_vars {} expected {}", nl, nv, n2));
                }
                format!("{}..{}", r.start, r.end)
            }
            "addnamed" | "frommap" => {
                // addnamed <name>...  /  frommap <name>... (`-` = unnamed): variable creation with names on
                // this diagram kind (C16: a rejected call keeps the variables before the duplicate; the
                // kind's own bookkeeping, e.g. the ZBDD tautology chain, follows every change)
                let names: Vec<String> = w[1..].iter().map(|x| if *x == "-" { String::new() } else { x.to_string() }).collect();
                let before = self.n;
                let out = if w[0] == "addnamed" {
                    match self.mref().with_manager_exclusive(|m| m.add_named_vars(names.iter().cloned())) {
                        Ok(r) => format!("ok {}..{}", r.start, r.end),
                        Err(e) => format!("dup {} present={} added={}..{}", e.name, e.present_var, e.added_vars.start, e.added_vars.end),
                    }
                } else {
                    let mut map = oxidd_core::util::VarNameMap::new();
                    let mut rejected = None;
                    for nm in &names {
                        if nm.is_empty() {
                            map.add_unnamed(1);
                        } else if map.name_to_var(nm).is_some() {
                            rejected = Some(nm.clone());
                            break;
                        } else {
                            let _ = map.add_named([nm.clone()]);
                        }
                    }
                    match rejected {
                        Some(nm) => format!("map-rejects {}", nm),
                        None => match self.mref().with_manager_exclusive(|m| m.add_named_vars_from_map(map)) {
                            Ok(r) => format!("ok {}..{}", r.start, r.end),
                            Err(e) => format!("dup {} present={} added={}..{}", e.name, e.present_var, e.added_vars.start, e.added_vars.end),
                        },
                    }
                };
                let (nl, nv) = self.mref().with_manager_shared(|m| (m.num_levels(), m.num_vars()));
                if nl != nv {
                    ctx.fail("levels-vs-vars", &format!("after `{}`: num_levels {} num_vars {}", line, nl, nv));
                }
                let n2 = nv;
                if n2 < before {
                    ctx.fail("vars-shrunk", &format!("after `{}`: num_vars {} < {}", line, n2, before));
                    return out;
                }
                for t in self.tt.values_mut() {
                    *t = K::extend_tt(t, n2);
                }
                self.n = n2;
                let hs: Vec<String> = self.h.keys().cloned().collect();
                for k in hs {
                    let f = self.h[&k].clone();
                    let act = self.actual_tt(&f, ctx, "after adding named variables");
                    if act != self.tt[&k] {
                        ctx.fail("addvars-changed-function", &format!("handle {} denotes {} after `{}`, expected {}", k, act.hex(), line, self.tt[&k].hex()));
                        break;
                    }
                }
                // names and numbers are mutually inverse
                self.mref().with_manager_shared(|m| {
                    for v in 0..n2 {
                        let nm = m.var_name(v).to_string();
                        if !nm.is_empty() && m.name_to_var(&nm) != Some(v) {
                            ctx.fail("names-not-inverse", &format!("after `{}`: var_name({}) = {:?} but name_to_var gives {:?}", line, v, nm, m.name_to_var(&nm)));
                        }
                    }
                });
                out
            }
            "const" => {
                let v = w[2] == "T";
                let r = self.mref().with_manager_shared(|m| if v { K::F::t(m) } else { K::F::f(m) });
                let e = TT::new(self.n, v);
                self.put(w[1], Ok(r), Some(e), ctx, line)
            }
            "var" | "notvar" => {
                let v: u32 = w[2].parse().unwrap();
                let neg = w[0] == "notvar";
                let r = self.mref().with_manager_shared(|m| if neg { K::F::not_var(m, v) } else { K::F::var(m, v) });
                let e = TT::var(self.n, v);
                self.put(w[1], r, Some(if neg { e.not() } else { e }), ctx, line)
            }
            "cube" => {
                // cube h +0 -2 ...: conjunction of literals built by and-chains
                let mut e = TT::new(self.n, true);
                let r = self.mref().with_manager_shared(|m| -> AllocResult<K::F> {
                    let mut acc = K::F::t(m);
                    for l in &w[2..] {
                        let v: u32 = l[1..].parse().unwrap();
                        let lit = if l.starts_with('-') { K::F::not_var(m, v)? } else { K::F::var(m, v)? };
                        acc = acc.and(&lit)?;
                    }
                    Ok(acc)
                });
                for l in &w[2..] {
                    let v: u32 = l[1..].parse().unwrap();
                    let x = TT::var(self.n, v);
                    e = e.map2(&x, |a, b| a && (b != l.starts_with('-')));
                }
                self.put(w[1], r, Some(e), ctx, line)
            }
            "tt" => {
                // tt h <hex>: build the function with the given truth table as a sum of minterms
                // (route A) or as a Shannon ite chain (route B: `ttb`)
                let n = self.n;
                let val = u128::from_str_radix(w[2], 16).unwrap();
                let e = TT::from_fn(n, |a| (val >> a) & 1 != 0);
                let r = self.mref().with_manager_shared(|m| -> AllocResult<K::F> {
                    let mut f = K::F::f(m);
                    for a in 0..(1usize << n) {
                        if !e.get(a) {
                            continue;
                        }
                        let mut c = K::F::t(m);
                        for v in 0..n {
                            let x = if (a >> v) & 1 != 0 { K::F::var(m, v)? } else { K::F::not_var(m, v)? };
                            c = c.and(&x)?;
                        }
                        f = f.or(&c)?;
                    }
                    Ok(f)
                });
                self.put(w[1], r, Some(e), ctx, line)
            }
            "ttb" => {
                let n = self.n;
                let val = u128::from_str_radix(w[2], 16).unwrap();
                let e = TT::from_fn(n, |a| (val >> a) & 1 != 0);
                fn build<F: BooleanFunction>(m: &F::Manager<'_>, e: &TT, v: u32, fixed: usize) -> AllocResult<F> {
                    if v == e.n {
                        return Ok(if e.get(fixed) { F::t(m) } else { F::f(m) });
                    }
                    let hi = build::<F>(m, e, v + 1, fixed | (1 << v))?;
                    let lo = build::<F>(m, e, v + 1, fixed)?;
                    F::var(m, v)?.ite(&hi, &lo)
                }
                let r = self.mref().with_manager_shared(|m| build::<K::F>(m, &e, 0, 0));
                self.put(w[1], r, Some(e), ctx, line)
            }
            "op" => {
                let name = w[1];
                let op = w[2];
                let a = match self.get(w[3]) {
                    Some((f, t)) => (f.clone(), t.clone()),
                    None => return "bad-op".into(),
                };
                if op == "not" {
                    let r = a.0.not();
                    return self.put(name, r, Some(a.1.not()), ctx, line);
                }
                let b = match self.get(w[4]) {
                    Some((f, t)) => (f.clone(), t.clone()),
                    None => return "bad-op".into(),
                };
                if op == "ite" {
                    let c = match self.get(w[5]) {
                        Some((f, t)) => (f.clone(), t.clone()),
                        None => return "bad-op".into(),
                    };
                    let r = a.0.ite(&b.0, &c.0);
                    let e = TT::from_fn(self.n, |x| if a.1.get(x) { b.1.get(x) } else { c.1.get(x) });
                    return self.put(name, r, Some(e), ctx, line);
                }
                let sem = match bin_sem(op) {
                    Some(s) => s,
                    None => return "bad-op".into(),
                };
                let r = match op {
                    "and" => a.0.and(&b.0),
                    "or" => a.0.or(&b.0),
                    "nand" => a.0.nand(&b.0),
                    "nor" => a.0.nor(&b.0),
                    "xor" => a.0.xor(&b.0),
                    "equiv" => a.0.equiv(&b.0),
                    "imp" => a.0.imp(&b.0),
                    "imp_strict" => a.0.imp_strict(&b.0),
                    _ => unreachable!(),
                };
                self.put(name, r, Some(a.1.map2(&b.1, sem)), ctx, line)
            }
            "clone" => {
                let (f, t) = match self.get(w[2]) {
                    Some((f, t)) => (f.clone(), t.clone()),
                    None => return "bad-op".into(),
                };
                self.h.insert(w[1].into(), f);
                self.tt.insert(w[1].into(), t);
                "ok".into()
            }
            "drop" => {
                if self.h.remove(w[1]).is_none() {
                    return "bad-op".into();
                }
                self.tt.remove(w[1]);
                "ok".into()
            }
            "dropall" => {
                self.h.clear();
                self.tt.clear();
                "ok".into()
            }
            "eq" => {
                let (a, b) = match (self.get(w[1]), self.get(w[2])) {
                    (Some(a), Some(b)) => (a, b),
                    _ => return "bad-op".into(),
                };
                let same = a.0 == b.0;
                if same != (a.1 == b.1) {
                    ctx.fail("canonicity", &format!("{} == {} is {} but the functions are {}", w[1], w[2], same, if a.1 == b.1 { "equal" } else { "different" }));
                }
                // Hash and Ord must be consistent with ==
                use std::hash::{BuildHasher, BuildHasherDefault, DefaultHasher};
                let bh = BuildHasherDefault::<DefaultHasher>::default();
                if same && bh.hash_one(a.0) != bh.hash_one(b.0) {
                    ctx.fail("hash-vs-eq", "equal handles hash differently");
                }
                if same != (a.0.cmp(b.0) == std::cmp::Ordering::Equal) {
                    ctx.fail("ord-vs-eq", "Ord disagrees with ==");
                }
                crate_bool(same)
            }
            "eval" => {
                let (f, t) = match self.get(w[1]) {
                    Some(x) => x,
                    None => return "bad-op".into(),
                };
                let a = usize::from_str_radix(w[2], 2).unwrap();
                let n = self.n;
                // the documented contract: "if a variable is given multiple times, the last value
                // counts" - some variables are listed first with the opposite (or a random) value,
                // in a shuffled order, and then all variables in descending or ascending order
                let mut rng = crate::Rng::new(ctx.line_no.wrapping_mul(0x9e3779b97f4a7c15) ^ a as u64);
                let mut args: Vec<(u32, bool)> = Vec::new();
                for v in 0..n {
                    if rng.chance(1, 3) {
                        args.push((v, if rng.chance(2, 3) { (a >> v) & 1 == 0 } else { rng.chance(1, 2) }));
                    }
                }
                rng.shuffle(&mut args);
                if rng.chance(1, 2) {
                    args.extend((0..n).map(|v| (v, (a >> v) & 1 != 0)));
                } else {
                    args.extend((0..n).rev().map(|v| (v, (a >> v) & 1 != 0)));
                }
                if !args.is_empty() && args.len() > n as usize {
                    ctx.count("eval_with_repeated_variables");
                }
                let r = f.eval(args.iter().copied());
                if r != t.get(a) {
                    ctx.fail("wrong-eval", &format!("eval {} under {:#b} = {} expected {}", w[1], a, r, t.get(a)));
                }
                crate_bool(r)
            }
            "sat" | "valid" => {
                let (f, t) = match self.get(w[1]) {
                    Some(x) => x,
                    None => return "bad-op".into(),
                };
                let (r, e) = if w[0] == "sat" { (f.satisfiable(), !t.is_false()) } else { (f.valid(), t.is_true()) };
                if r != e {
                    ctx.fail("wrong-sat-valid", &format!("{} {} = {} expected {}", w[0], w[1], r, e));
                }
                crate_bool(r)
            }
            "count" => {
                let (f, t) = match self.get(w[1]) {
                    Some(x) => x,
                    None => return "bad-op".into(),
                };
                let c = f.node_count();
                let l2v = self.l2v();
                let e = K::ref_node_count(t, &l2v);
                if c != e {
                    ctx.fail("node-count", &format!("node_count({}) = {} but the reduced diagram of {} under order {:?} has {} nodes", w[1], c, t.hex(), l2v, e));
                }
                c.to_string()
            }
            "bigcount" => {
                // bigcount <k>: node_count() of the k largest ballast functions against an independent
                // traversal through the public node API (a set of node ids) - diagrams far beyond the
                // sizes the tracked handles reach (node sets of both backends: pages, offsets, hashes)
                let k: usize = w[1].parse().unwrap();
                let Some(b) = self.state.get("ballast") else { return "bad-op".into() };
                let Some(pool) = b.downcast_ref::<Vec<K::F>>() else { return "bad-op".into() };
                let mut fs: Vec<K::F> = pool.iter().rev().take(k).cloned().collect();
                // one function combining ballast created at very different times (its nodes are spread
                // over the whole store)
                let stride = (pool.len() / 48).max(1);
                let mut acc = pool[0].clone();
                for g in pool.iter().step_by(stride).skip(1) {
                    match acc.xor(g) {
                        Ok(r) => acc = r,
                        Err(_) => break,
                    }
                }
                fs.push(acc);
                for f in fs {
                    let c = f.node_count();
                    let e = f.with_manager_shared(|m, e| {
                        use oxidd::{Edge, InnerNode, Node};
                        let mut seen: std::collections::HashSet<oxidd::NodeID> = std::collections::HashSet::new();
                        let mut terminals: std::collections::HashSet<oxidd::NodeID> = std::collections::HashSet::new();
                        let mut stack = vec![m.clone_edge(e)];
                        while let Some(x) = stack.pop() {
                            match m.get_node(&x) {
                                Node::Inner(n) => {
                                    if seen.insert(x.node_id()) {
                                        for c in n.children() {
                                            stack.push(m.clone_edge(&c));
                                        }
                                    }
                                }
                                Node::Terminal(_) => {
                                    terminals.insert(x.node_id());
                                }
                            }
                            m.drop_edge(x);
                        }
                        seen.len() + terminals.len()
                    });
                    ctx.add("bigcount_nodes", e as u64);
                    if c != e {
                        ctx.fail("node-count", &format!("node_count() of a ballast function = {c} but an independent traversal finds {e} nodes (inner + terminal)"));
                    }
                }
                "ok".into()
            }
            "cof" => {
                let (f, _t) = match self.get(w[1]) {
                    Some(x) => x,
                    None => return "bad-op".into(),
                };
                match f.cofactors() {
                    None => "none".into(),
                    Some((ft, fe)) => {
                        let (a, b) = (f.cofactor_true().unwrap(), f.cofactor_false().unwrap());
                        if a != ft || b != fe {
                            ctx.fail("cofactors-inconsistent", "cofactors() disagrees with cofactor_true()/cofactor_false()");
                        }
                        let r = format!("{} {}", self.tree_of(&ft), self.tree_of(&fe));
                        // Shannon cofactors w.r.t. the top variable are checked by the kind (ext op `cofchk`)
                        self.state.insert("cof_t".into(), Box::new(ft));
                        self.state.insert("cof_e".into(), Box::new(fe));
                        r
                    }
                }
            }
            "pickvec" => {
                // pickvec h <choice bits by level>: pick_cube with a scripted choice function
                let (f, t) = match self.get(w[1]) {
                    Some(x) => x,
                    None => return "bad-op".into(),
                };
                let choice = usize::from_str_radix(w[2], 2).unwrap();
                let mut asked = 0usize;
                let mut twice = false;
                let mut wrong_level = false;
                let r = f.pick_cube(|m, e, level| {
                    if asked & (1 << level) != 0 {
                        twice = true;
                    }
                    asked |= 1 << level;
                    if let oxidd::Node::Inner(n) = m.get_node(e) {
                        use oxidd::InnerNode;
                        if !n.check_level(|l| l == level) {
                            wrong_level = true;
                        }
                    } else {
                        wrong_level = true;
                    }
                    (choice >> level) & 1 != 0
                });
                if twice {
                    ctx.fail("choice-twice", "pick_cube asked the choice function twice for one level");
                }
                if wrong_level {
                    ctx.fail("choice-wrong-node", "pick_cube passed a node that is not at the given level");
                }
                match r {
                    None => {
                        if !t.is_false() {
                            ctx.fail("pick-none-for-sat", "pick_cube returned None for a satisfiable function");
                        }
                        "NONE".into()
                    }
                    Some(cube) => {
                        if t.is_false() {
                            ctx.fail("pick-some-for-unsat", "pick_cube returned a cube for the unsatisfiable function");
                        }
                        let n = self.n;
                        let l2v = self.l2v();
                        let v2l: Vec<u32> = {
                            let mut x = vec![0; l2v.len()];
                            for (l, &v) in l2v.iter().enumerate() {
                                x[v as usize] = l as u32;
                            }
                            x
                        };
                        let mut c = TT::new(n, true);
                        let mut s = String::new();
                        for (v, &l) in cube.iter().enumerate() {
                            let x = TT::var(n, v as u32);
                            match l {
                                OptBool::True => c = c.map2(&x, |a, b| a && b),
                                OptBool::False => c = c.map2(&x, |a, b| a && !b),
                                OptBool::None => {}
                            }
                            s.push(match l {
                                OptBool::True => '1',
                                OptBool::False => '0',
                                OptBool::None => '-',
                            });
                            // the choice is honoured where it was asked
                            let lvl = v2l[v];
                            if asked & (1 << lvl) != 0 {
                                let want = (choice >> lvl) & 1 != 0;
                                if l != OptBool::from(want) {
                                    ctx.fail("choice-ignored", &format!("variable {} (level {}): choice {} was requested but the cube has {:?}", v, lvl, want, l as i8));
                                }
                            } else if l != OptBool::None {
                                // forced: flipping the literal must leave f
                                let flipped = TT::from_fn(n, |a| c_get_flip(&cube, a, v));
                                if flipped.implies(t) {
                                    ctx.fail("choice-not-asked", &format!("variable {} is fixed in the cube although it is neither forced nor was the choice function asked", v));
                                }
                            }
                        }
                        if cube.len() != n as usize {
                            ctx.fail("pick-len", "cube vector has wrong length");
                        }
                        if !c.implies(t) {
                            ctx.fail("pick-not-implicant", &format!("pick_cube result {} does not imply f = {}", s, t.hex()));
                        }
                        self.state.insert("last_cube".into(), Box::new(c));
                        s
                    }
                }
            }
            "pick" => {
                // pick h f <choice bits>: pick_cube_dd; must describe the same cube as pick_cube
                let (f, t) = match self.get(w[2]) {
                    Some((f, t)) => (f.clone(), t.clone()),
                    None => return "bad-op".into(),
                };
                let choice = usize::from_str_radix(w[3], 2).unwrap();
                let r = f.pick_cube_dd(|_, _, level| (choice >> level) & 1 != 0);
                let v = f.pick_cube(|_, _, level| (choice >> level) & 1 != 0);
                let n = self.n;
                let expected = match v {
                    None => TT::new(n, false),
                    Some(cube) => {
                        let mut c = TT::new(n, true);
                        for (v, &l) in cube.iter().enumerate() {
                            let x = TT::var(n, v as u32);
                            match l {
                                OptBool::True => c = c.map2(&x, |a, b| a && b),
                                OptBool::False => c = c.map2(&x, |a, b| a && !b),
                                OptBool::None => {}
                            }
                        }
                        c
                    }
                };
                if t.is_false() != expected.is_false() {
                    ctx.fail("pick-none-iff-false", "pick_cube is None iff the function is unsatisfiable — violated");
                }
                if !expected.implies(&t) {
                    ctx.fail("pick-not-implicant", "cube does not imply the function");
                }
                // expected = the cube of pick_cube: pick_cube_dd must describe the same cube
                self.put(w[1], r, Some(expected), ctx, line)
            }
            "pickset" => {
                // pickset h f hset
                let (f, t) = match self.get(w[2]) {
                    Some((f, t)) => (f.clone(), t.clone()),
                    None => return "bad-op".into(),
                };
                let (s, ts) = match self.get(w[3]) {
                    Some((f, t)) => (f.clone(), t.clone()),
                    None => return "bad-op".into(),
                };
                let lits = match ts.cube_literals() {
                    Some(l) => l,
                    None => return "bad-op".into(),
                };
                let r = f.pick_cube_dd_set(&s);
                let out = self.put(w[1], r, None, ctx, line);
                if out == "OOM" {
                    return out;
                }
                let c = self.tt[w[1]].clone();
                if t.is_false() {
                    if !c.is_false() {
                        ctx.fail("pick-some-for-unsat", "pick_cube_dd_set of ⊥ is not ⊥");
                    }
                    return out;
                }
                if c.is_false() || !c.implies(&t) {
                    ctx.fail("pick-not-implicant", &format!("pick_cube_dd_set result {} is not a non-empty implicant of {}", c.hex(), t.hex()));
                    return out;
                }
                let cl = match c.cube_literals() {
                    Some(l) => l,
                    None => {
                        ctx.fail("pick-not-cube", "pick_cube_dd_set result is not a cube");
                        return out;
                    }
                };
                // wherever the result fixes a variable against the literal set, flipping it must leave f;
                // wherever the literal set names a variable that the result leaves open or fixes
                // the other way, the requested polarity must be impossible... (only the first is demanded)
                let n = self.n;
                for &(v, pol) in &cl {
                    if let Some(&(_, want)) = lits.iter().find(|(lv, _)| *lv == v) {
                        if want != pol {
                            // flipped cube (with v := want) must not imply f
                            let xv = TT::var(n, v);
                            let without = TT::from_fn(n, |a| c.get(a) || c.get(a ^ (1 << v)));
                            let flipped = without.map2(&xv, |a, b| a && (b == want));
                            if flipped.implies(&t) {
                                ctx.fail("literal-set-ignored", &format!("variable {} is set to {} although the literal set asks for {} and that choice is possible (f = {}, set = {}, result = {})", v, pol, want, t.hex(), ts.hex(), c.hex()));
                            }
                        }
                    }
                }
                out
            }
            "gc" => {
                let (col, inner) = self.mref().with_manager_shared(|m| {
                    let before = m.num_inner_nodes();
                    let c = m.gc();
                    let after = m.num_inner_nodes();
                    if before - after != c {
                        (usize::MAX, after)
                    } else {
                        (c, after)
                    }
                });
                if col == usize::MAX {
                    ctx.fail("gc-return", "gc() return value differs from the change of num_inner_nodes()");
                }
                // handles unchanged by gc (C05)
                let names: Vec<String> = self.h.keys().cloned().collect();
                for k in names {
                    let f = self.h[&k].clone();
                    let act = self.actual_tt(&f, ctx, "after gc");
                    if act != self.tt[&k] {
                        ctx.fail("gc-changed-function", &format!("handle {} changed by gc", k));
                        break;
                    }
                }
                // after gc the stored nodes are exactly those reachable from live handles
                if let Some(info) = self.do_audit(ctx) {
                    let mut reach = std::collections::HashSet::new();
                    for f in self.h.values() {
                        f.with_manager_shared(|m, e| collect_nodes::<K>(m, e, &mut reach));
                    }
                    let internal = self.mref().with_manager_shared(|m| K::internal_roots(m));
                    if info.inner != reach.len() + internal && internal == 0 {
                        ctx.fail("gc-not-exact", &format!("after gc {} inner nodes are stored but {} are reachable from live handles", info.inner, reach.len()));
                    }
                    if info.inner != inner {
                        ctx.fail("num-inner-nodes", &format!("num_inner_nodes() = {} but iterating the levels finds {}", inner, info.inner));
                    }
                }
                inner.to_string()
            }
            "ballast" => {
                // ballast <count> <seed> <lo> <hi>: many live nodes over the variables lo..hi that
                // are not tracked by the truth-table oracles (they only make collections take longer)
                let count: usize = w[1].parse().unwrap();
                let mut rng = crate::Rng::new(w[2].parse().unwrap());
                let (lo, hi): (u32, u32) = (w[3].parse().unwrap(), w[4].parse().unwrap());
                let mut pool: Vec<K::F> = Vec::new();
                self.mref().with_manager_shared(|m| {
                    for v in lo..hi {
                        pool.push(K::F::var(m, v).unwrap());
                        pool.push(K::F::not_var(m, v).unwrap());
                    }
                });
                // `count` is the target number of stored nodes
                for it in 0..2_000_000usize {
                    if it % 64 == 0 && self.mref().with_manager_shared(|m| m.num_inner_nodes()) >= count {
                        break;
                    }
                    let a = rng.pick(&pool[pool.len().saturating_sub(2000)..]).clone();
                    let b = rng.pick(&pool).clone();
                    let r = match rng.below(3) {
                        0 => a.and(&b),
                        1 => a.xor(&b),
                        _ => a.or(&b),
                    };
                    if let Ok(r) = r {
                        pool.push(r);
                    }
                }
                self.state.insert("ballast".into(), Box::new(pool));
                "ok".into()
            }
            "dropballast" => {
                self.state.remove("ballast");
                "ok".into()
            }
            "satrace" => {
                // satrace <pairs> <rounds>: a model-count cache kept across a *large* collection that
                // runs on another thread. f1 = OR_i (x_i AND x_{i+n}) (more than 2^(n+1) nodes) is
                // counted (its node ids fill the cache) and dropped; a second thread collects; as soon
                // as the collector has handed freed slots back (the approximate node count drops),
                // this thread builds f2 = AND_i x_i in the recycled slots and counts it with the same
                // cache. The count must be 1 whatever the collector is doing (C07, C12).
                let n: usize = w[1].parse().unwrap();
                let rounds: usize = w[2].parse().unwrap();
                let vars = 2 * n as u32;
                if self.n < vars {
                    return "bad-op".into();
                }
                let mref = self.mref().clone();
                let xs: Vec<K::F> = mref.with_manager_shared(|m| (0..vars).map(|v| K::F::var(m, v).unwrap()).collect());
                let mut cache: SatCountCache<oxidd_core::util::num::Saturating<u64>, std::hash::RandomState> = SatCountCache::default();
                // every node is memoised (by default only nodes with more than one reference are)
                cache.cache_all = true;
                let expected_f1: u64 = 4u64.pow(n as u32) - 3u64.pow(n as u32);
                for round in 0..rounds {
                    let mut f1 = xs[0].and(&xs[n]).unwrap();
                    for i in 1..n {
                        f1 = f1.or(&xs[i].and(&xs[i + n]).unwrap()).unwrap();
                    }
                    mref.with_manager_shared(|m| m.gc());
                    let c1 = f1.sat_count(vars, &mut cache).0;
                    if c1 != expected_f1 {
                        ctx.fail("satrace-count", &format!("round {round}: sat_count(OR_i x_i & x_(i+{n})) = {c1}, expected {expected_f1}"));
                    }
                    let before = mref.with_manager_shared(|m| m.approx_num_inner_nodes());
                    drop(f1);
                    let done = std::sync::atomic::AtomicBool::new(false);
                    let (c2, during) = std::thread::scope(|sc| {
                        sc.spawn(|| {
                            mref.with_manager_shared(|m| m.gc());
                            done.store(true, std::sync::atomic::Ordering::SeqCst);
                        });
                        // wait for the first hand-over of freed slots (or the end of the collection)
                        let t0 = std::time::Instant::now();
                        loop {
                            let now = mref.with_manager_shared(|m| m.approx_num_inner_nodes());
                            if now + 60000 < before || done.load(std::sync::atomic::Ordering::SeqCst) || t0.elapsed().as_secs() > 20 {
                                break;
                            }
                            std::hint::spin_loop();
                        }
                        let mut f2 = xs[vars as usize - 1].clone();
                        for v in xs.iter().rev().skip(1) {
                            f2 = v.and(&f2).unwrap();
                        }
                        let c2 = f2.sat_count(vars, &mut cache).0;
                        (c2, !done.load(std::sync::atomic::Ordering::SeqCst))
                    });
                    if during {
                        ctx.count("satrace_count_during_collection");
                    } else {
                        ctx.count("satrace_count_after_collection");
                    }
                    if c2 != 1 {
                        ctx.fail("satrace-count", &format!("round {round}: sat_count(AND_i x_i) with a cache kept across a collection on another thread = {c2}, expected 1 (collection still running: {during})"));
                    }
                }
                "ok".into()
            }
            "pargc" => {
                // a collection that may run concurrently with operations of other threads
                self.mref().with_manager_shared(|m| m.gc());
                "ok".into()
            }
            "par" => {
                // par t0:<op line> ; t1:<op line> ; ... — the items of each thread run in order on
                // their own OS thread, all threads concurrently on this manager. Threads only define
                // and drop handles with their own prefix `t<k>_`, so every result is determined by
                // the operands alone and must equal the sequential result (C07).
                let body = line.strip_prefix("par").unwrap().trim();
                let items: Vec<(usize, String)> = body
                    .split(" ; ")
                    .map(|it| {
                        let (t, l) = it.trim().split_once(':').expect("par item");
                        (t[1..].parse::<usize>().unwrap(), l.to_string())
                    })
                    .collect();
                let nthreads = items.iter().map(|x| x.0).max().map(|m| m + 1).unwrap_or(0);
                let mut per: Vec<Vec<(usize, String)>> = vec![Vec::new(); nthreads];
                for (i, (t, l)) in items.iter().enumerate() {
                    per[*t].push((i, l.clone()));
                }
                let mref = self.mref().clone();
                let (h0, tt0, n, threads, extra) = (self.h.clone(), self.tt.clone(), self.n, self.threads, self.extra.clone());
                let seed = ctx.line_no;
                let results: Vec<(Vec<(usize, String)>, HashMap<String, K::F>, HashMap<String, TT>, Vec<String>)> = std::thread::scope(|sc| {
                    let handles: Vec<_> = per
                        .iter()
                        .enumerate()
                        .map(|(t, lines)| {
                            let (mref, h0, tt0, extra) = (mref.clone(), h0.clone(), tt0.clone(), extra.clone());
                            let case = ctx.case.clone();
                            let line_no = ctx.line_no;
                            sc.spawn(move || {
                                let mut child: Bf<K> = Bf::new(&extra);
                                child.mref = Some(mref);
                                child.h = h0;
                                child.tt = tt0;
                                child.n = n;
                                child.threads = threads;
                                let mut cctx = Ctx { line_no, case, failures: Vec::new(), stats: BTreeMap::new(), extra: extra.clone() };
                                let mut rng = crate::Rng::new(seed * 131 + t as u64);
                                let mut outs = Vec::new();
                                for (i, l) in lines {
                                    match rng.below(4) {
                                        0 => std::thread::yield_now(),
                                        1 => std::thread::sleep(std::time::Duration::from_micros(rng.below(200))),
                                        _ => {}
                                    }
                                    outs.push((*i, child.step(l, &mut cctx)));
                                }
                                let prefix = format!("t{}_", t);
                                let h: HashMap<String, K::F> = child.h.iter().filter(|(k, _)| k.starts_with(&prefix)).map(|(k, v)| (k.clone(), v.clone())).collect();
                                let tt: HashMap<String, TT> = child.tt.iter().filter(|(k, _)| k.starts_with(&prefix)).map(|(k, v)| (k.clone(), v.clone())).collect();
                                (outs, h, tt, cctx.failures)
                            })
                        })
                        .collect();
                    handles.into_iter().map(|j| j.join().expect("worker thread panicked")).collect()
                });
                let mut outs: Vec<String> = vec![String::new(); items.len()];
                for (t, (o, h, tt, fails)) in results.into_iter().enumerate() {
                    for (i, s) in o {
                        outs[i] = s;
                    }
                    let prefix = format!("t{}_", t);
                    self.h.retain(|k, _| !k.starts_with(&prefix));
                    self.tt.retain(|k, _| !k.starts_with(&prefix));
                    self.h.extend(h);
                    self.tt.extend(tt);
                    for f in fails {
                        ctx.failures.push(f);
                        ctx.count("oracle_failures");
                    }
                }
                ctx.add("par_items", items.len() as u64);
                outs.join(" ; ")
            }
            "rcchk" => {
                // the reference-count oracle on the current store (garbage included); prints `ok`
                let _ = self.step("dump", ctx);
                "ok".into()
            }
            "nodes" => {
                // informational (garbage included, so not predicted by the tree-level model)
                let k = self.mref().with_manager_shared(|m| m.num_inner_nodes());
                ctx.add("max_nodes_seen", 0);
                let e = ctx.stats.entry("max_nodes_seen".into()).or_insert(0);
                *e = (*e).max(k as u64);
                "-".into()
            }
            "dump" => {
                // all stored inner nodes with their reference counts, sorted; oracle (C05): the
                // count of a node = live handles + stored parent edges (+ kind-internal roots)
                match self.do_audit(ctx) {
                    None => "audit-failed".into(),
                    Some(info) => {
                        let mut expected: HashMap<String, usize> = HashMap::new();
                        for f in self.h.values() {
                            let (root, inner) = f.with_manager_shared(|m, e| (K::tree(m, e), matches!(m.get_node(e), oxidd::Node::Inner(_))));
                            if inner {
                                *expected.entry(strip_neg(&root)).or_insert(0) += 1;
                            }
                        }
                        // handles held by reusable substitution objects (`mksubst`) are live references too
                        for v in self.state.values() {
                            if let Some(ballast) = v.downcast_ref::<Vec<K::F>>() {
                                for f in ballast {
                                    let (root, inner) = f.with_manager_shared(|m, e| (K::tree(m, e), matches!(m.get_node(e), oxidd::Node::Inner(_))));
                                    if inner {
                                        *expected.entry(strip_neg(&root)).or_insert(0) += 1;
                                    }
                                }
                            }
                            if let Some((sub, _, _)) = v.downcast_ref::<(oxidd::Subst<K::F>, Vec<u32>, Vec<TT>)>() {
                                use oxidd_core::util::Substitution;
                                for (_, f) in sub.pairs() {
                                    let (root, inner) = f.with_manager_shared(|m, e| (K::tree(m, e), matches!(m.get_node(e), oxidd::Node::Inner(_))));
                                    if inner {
                                        *expected.entry(strip_neg(&root)).or_insert(0) += 1;
                                    }
                                }
                            }
                        }
                        for (_, t, _) in &info.nodes {
                            for c in child_trees(t) {
                                if c.contains('(') {
                                    *expected.entry(strip_neg(&c)).or_insert(0) += 1;
                                }
                            }
                        }
                        let internal = self.mref().with_manager_shared(|m| K::internal_root_trees(m));
                        for t in internal {
                            *expected.entry(strip_neg(&t)).or_insert(0) += 1;
                        }
                        let mut out: Vec<String> = Vec::new();
                        for (l, t, rc) in &info.nodes {
                            let e = *expected.get(t).unwrap_or(&0);
                            if e != *rc {
                                ctx.fail("ref-count", &format!("node {} at level {} reports ref_count {} but {} references exist (live handles + stored parent edges + internal roots)", t, l, rc, e));
                            }
                            out.push(format!("{}:{}", t, rc));
                        }
                        out.sort();
                        format!("{} {}", out.len(), out.join(" | "))
                    }
                }
            }
            "audit" => match self.do_audit(ctx) {
                Some(info) => {
                    // reference counts (C05): rc = handles + stored parent edges (+ internal)
                    let _ = info;
                    "ok".into()
                }
                None => "ok".into(),
            },
            "order" => {
                let order: Vec<u32> = w[1..].iter().filter(|x| !x.contains('=')).map(|x| x.parse().unwrap()).collect();
                let seq = w.iter().any(|x| *x == "seq=1");
                let before = self.l2v();
                K::reorder(self.mref(), &order, seq);
                let l2v = self.l2v();
                // requested relative order holds
                let pos: HashMap<u32, usize> = l2v.iter().enumerate().map(|(l, &v)| (v, l)).collect();
                for p in order.windows(2) {
                    if pos[&p[0]] >= pos[&p[1]] {
                        ctx.fail("order-not-established", &format!("requested {:?} but level_to_var is {:?}", order, l2v));
                        break;
                    }
                }
                // maps are inverse permutations
                let ok_perm = self.mref().with_manager_shared(|m| (0..m.num_levels()).all(|l| m.var_to_level(m.level_to_var(l)) == l));
                if !ok_perm || l2v.len() != before.len() {
                    ctx.fail("perm-broken", "var_to_level/level_to_var are not inverse permutations after reordering");
                }
                // every handle denotes the same function (a sample when there are very many)
                let mut names: Vec<String> = self.h.keys().cloned().collect();
                if names.len() > 1500 {
                    names.sort();
                    let stride = names.len() / 1000;
                    names = names.into_iter().step_by(stride).collect();
                }
                for k in names {
                    let f = self.h[&k].clone();
                    let act = self.actual_tt(&f, ctx, "after reorder");
                    if act != self.tt[&k] {
                        ctx.fail("reorder-changed-function", &format!("handle {} denotes {} after set_var_order {:?} (before: {:?}), expected {}", k, act.hex(), order, before, self.tt[&k].hex()));
                        break;
                    }
                }
                // (very big stores: the structural walk takes seconds; such scripts ask for `audit` explicitly)
                if self.mref().with_manager_shared(|m| m.num_inner_nodes()) < 200_000 {
                    self.do_audit(ctx);
                }
                l2v.iter().map(|v| v.to_string()).collect::<Vec<_>>().join(" ")
            }
            "restrict" => {
                // restrict h f hcube
                let (f, t) = match self.get(w[2]) {
                    Some((f, t)) => (f.clone(), t.clone()),
                    None => return "bad-op".into(),
                };
                let (c, tc) = match self.get(w[3]) {
                    Some((f, t)) => (f.clone(), t.clone()),
                    None => return "bad-op".into(),
                };
                let lits = match tc.cube_literals() {
                    Some(l) => l,
                    None => return "bad-op".into(),
                };
                let mut e = t.clone();
                for (v, b) in lits {
                    e = e.cofactor(v, b);
                }
                let r = f.restrict(&c);
                self.put(w[1], r, Some(K::restrict_expected(&t, &tc, e)), ctx, line)
            }
            "satcount" => {
                // satcount f vars u64|u128|f64|nat [cache=<name>]
                use oxidd_core::util::num::{F64, Natural, Saturating};
                let (f, t) = match self.get(w[1]) {
                    Some((f, t)) => (f.clone(), t.clone()),
                    None => return "bad-op".into(),
                };
                let vars: u32 = w[2].parse().unwrap();
                let n = self.n;
                // exact expected count: models over `vars` variables (vars >= n; ZBDD: vars == n)
                let base = t.count() as u128;
                let cname = parse_kv(&w, "cache").unwrap_or("").to_string();
                macro_rules! with_cache {
                    ($ty:ty, $body:expr) => {{
                        let key = format!("satcache-{}-{}", stringify!($ty), cname);
                        let mut c: Box<SatCountCache<$ty, std::hash::RandomState>> = if cname.is_empty() {
                            Box::new(SatCountCache::default())
                        } else {
                            match self.state.remove(&key) {
                                Some(b) => b.downcast().unwrap(),
                                None => {
                                    let mut c: SatCountCache<$ty, std::hash::RandomState> = SatCountCache::default();
                                    // caches named `…all` memoise every node, not only the shared ones
                                    c.cache_all = cname.ends_with("all");
                                    Box::new(c)
                                }
                            }
                        };
                        let r: $ty = f.sat_count(vars, &mut c);
                        if !cname.is_empty() {
                            self.state.insert(key, c);
                        }
                        let f2: fn($ty) -> String = $body;
                        f2(r)
                    }};
                }
                let extra = vars.saturating_sub(n);
                let out = match w[3] {
                    "u64" => with_cache!(Saturating<u64>, |r| r.0.to_string()),
                    "u128" => with_cache!(Saturating<u128>, |r| r.0.to_string()),
                    "f64" => with_cache!(F64, |r| format!("{:e}", r.0)),
                    "nat" => with_cache!(Natural, |r| format!("{:#x}", r)),
                    _ => return "bad-op".into(),
                };
                if vars >= n {
                    // oracle: base * 2^extra
                    let exact_small = if extra < 128 { base.checked_shl(extra).filter(|x| x >> extra == base) } else if base == 0 { Some(0) } else { None };
                    match w[3] {
                        "u64" => {
                            let e = match exact_small {
                                Some(x) if x <= u64::MAX as u128 && (vars < 64 || base == 0) => x.to_string(),
                                _ if base == 0 => "0".into(),
                                _ => u64::MAX.to_string(),
                            };
                            // ZBDDs count paths and scale afterwards: an exact count that is
                            // representable although 2^vars is not is accepted as well
                            let alt = match exact_small {
                                Some(x) if K::NAME == "zbdd" && x < u64::MAX as u128 => x.to_string(),
                                _ => e.clone(),
                            };
                            if e != out && alt != out {
                                ctx.fail("satcount", &format!("sat_count<u64>({}, {}) = {} expected {}", t.hex(), vars, out, e));
                            }
                        }
                        "u128" => {
                            let e = match exact_small {
                                Some(x) if vars < 128 || base == 0 => x.to_string(),
                                _ if base == 0 => "0".into(),
                                _ => u128::MAX.to_string(),
                            };
                            let alt = match exact_small {
                                Some(x) if K::NAME == "zbdd" && x < u128::MAX => x.to_string(),
                                _ => e.clone(),
                            };
                            if e != out && alt != out {
                                ctx.fail("satcount", &format!("sat_count<u128>({}, {}) = {} expected {}", t.hex(), vars, out, e));
                            }
                        }
                        "nat" => {
                            // base * 2^extra in hex: hex(base) followed by extra zero bits
                            let e = nat_shl_hex(base, extra);
                            if e != out {
                                ctx.fail("satcount", &format!("sat_count<Natural>({}, {}) = {} expected {}", t.hex(), vars, out, e));
                            }
                        }
                        "f64" => {
                            let got: f64 = out.parse().unwrap_or(f64::NAN);
                            let e = if base == 0 { 0.0 } else { (base as f64) * 2f64.powi(extra as i32) };
                            let ok = if e == 0.0 { got == 0.0 } else if e.is_infinite() { got.is_infinite() } else { ((got - e) / e).abs() < 1e-12 };
                            if !ok {
                                ctx.fail("satcount", &format!("sat_count<f64>({}, {}) = {} expected {}", t.hex(), vars, out, e));
                            }
                            // floats are not compared textually between implementation and model
                            return if ok { "ok".into() } else { format!("f64-mismatch {}", out) };
                        }
                        _ => {}
                    }
                }
                out
            }
            "pickuni" => {
                // pickuni f seed reps: uniform picking never returns a non-model; None iff unsat
                let (f, t) = match self.get(w[1]) {
                    Some((f, t)) => (f.clone(), t.clone()),
                    None => return "bad-op".into(),
                };
                let seed: u64 = w[2].parse().unwrap();
                let reps: usize = w[3].parse().unwrap();
                let n = self.n;
                let mut rng = oxidd_core::util::Rng::new_seed(seed);
                let mut cache: SatCountCache<oxidd_core::util::num::F64, std::hash::RandomState> = SatCountCache::default();
                let mut hist: HashMap<usize, u64> = HashMap::new();
                let mut h2 = crate::Rng::new(seed ^ 0xabcdef);
                for _ in 0..reps {
                    match f.pick_cube_uniform(&mut cache, &mut rng) {
                        None => {
                            if !t.is_false() {
                                ctx.fail("pick-none-for-sat", "pick_cube_uniform returned None for a satisfiable function");
                            }
                            break;
                        }
                        Some(cube) => {
                            if t.is_false() {
                                ctx.fail("pick-some-for-unsat", "pick_cube_uniform returned a cube for ⊥");
                                break;
                            }
                            // complete don't cares uniformly, as documented
                            let mut a = 0usize;
                            for (v, &l) in cube.iter().enumerate() {
                                let bit = match l {
                                    OptBool::True => true,
                                    OptBool::False => false,
                                    OptBool::None => h2.chance(1, 2),
                                };
                                if bit {
                                    a |= 1 << v;
                                }
                            }
                            if !t.get(a) {
                                ctx.fail("uniform-non-model", &format!("pick_cube_uniform returned a non-model {:#b} of {}", a, t.hex()));
                                break;
                            }
                            *hist.entry(a).or_insert(0) += 1;
                        }
                    }
                }
                // unbiased: every model's frequency within 6 sigma (statistical test, wide tolerance)
                let models = t.count();
                if models > 0 && reps as u64 >= 200 * models && n <= 6 {
                    let p = 1.0 / models as f64;
                    let mean = reps as f64 * p;
                    let sd = (reps as f64 * p * (1.0 - p)).sqrt();
                    for a in 0..t.len() {
                        if t.get(a) {
                            let c = *hist.get(&a).unwrap_or(&0) as f64;
                            if (c - mean).abs() > 6.0 * sd + 1.0 {
                                ctx.fail("uniform-bias", &format!("model {:#b} of {} picked {} times out of {}, expected about {:.1} (sd {:.1})", a, t.hex(), c, reps, mean, sd));
                                break;
                            }
                        }
                    }
                }
                "ok".into()
            }
            "show" => match self.get(w[1]) {
                Some((f, _)) => self.tree_of(f),
                None => "bad-op".into(),
            },
            _ => match K::ext(self, &w, ctx) {
                Some(s) => s,
                None => "bad-op".into(),
            },
        }
    }
}

fn c_get_flip(cube: &[OptBool], a: usize, flip: usize) -> bool {
    cube.iter().enumerate().all(|(v, &l)| {
        let bit = (a >> v) & 1 != 0;
        match l {
            OptBool::None => true,
            OptBool::True => bit != (v == flip),
            OptBool::False => bit == (v == flip),
        }
    })
}

pub fn crate_bool(b: bool) -> String {
    if b { "1".into() } else { "0".into() }
}

/// collect the node ids reachable from an edge
pub fn collect_nodes<'id, K: Kind>(m: &<K::F as Function>::Manager<'id>, e: &EdgeOfFunc<'id, K::F>, out: &mut std::collections::HashSet<usize>) {
    use oxidd::{Edge, InnerNode, Node};
    if let Node::Inner(n) = m.get_node(e) {
        if out.insert(e.node_id()) {
            for c in n.children() {
                collect_nodes::<K>(m, &c, out);
            }
        }
    }
}

/// hexadecimal rendering (with `0x` prefix) of `base * 2^shift`
pub fn nat_shl_hex(base: u128, shift: u32) -> String {
    if base == 0 {
        return "0x0".into();
    }
    let q = shift / 4;
    let r = shift % 4;
    // base << r fits in u128 for the bases used here (base < 2^64)
    let head = if base.leading_zeros() >= r { format!("{:x}", base << r) } else { format!("{:x}{:x}", base >> (128 - r), base << r) };
    format!("0x{}{}", head, "0".repeat(q as usize))
}

/// strip a leading complement mark
pub fn strip_neg(t: &str) -> String {
    t.trim_start_matches('~').to_string()
}

/// the printed children of a printed node `(v<k> <c0> <c1> ...)`
pub fn child_trees(t: &str) -> Vec<String> {
    let t = t.trim_start_matches('~');
    let inner = &t[1..t.len() - 1];
    let mut parts = Vec::new();
    let mut depth = 0;
    let mut cur = String::new();
    for ch in inner.chars() {
        match ch {
            '(' => {
                depth += 1;
                cur.push(ch);
            }
            ')' => {
                depth -= 1;
                cur.push(ch);
            }
            ' ' if depth == 0 => {
                if !cur.is_empty() {
                    parts.push(std::mem::take(&mut cur));
                }
            }
            _ => cur.push(ch),
        }
    }
    if !cur.is_empty() {
        parts.push(cur);
    }
    parts.into_iter().skip(1).collect()
}
