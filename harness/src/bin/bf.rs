//! Boolean-function scenario binary: `bf gen --kind bdd|bcdd|zbdd --suite <s> --tier .. --seed ..`
//! and `bf run --kind ..`. The suites generate the operation histories for C01–C06, C09, C12–C14.
use oxv::bf::BIN_OPS;
use oxv::*;
use std::collections::BTreeMap;
use std::io::Write;

fn perms(n: u32) -> Vec<Vec<u32>> {
    fn go(cur: &mut Vec<u32>, used: &mut Vec<bool>, n: u32, out: &mut Vec<Vec<u32>>) {
        if cur.len() == n as usize {
            out.push(cur.clone());
            return;
        }
        for v in 0..n {
            if !used[v as usize] {
                used[v as usize] = true;
                cur.push(v);
                go(cur, used, n, out);
                cur.pop();
                used[v as usize] = false;
            }
        }
    }
    let mut out = Vec::new();
    go(&mut Vec::new(), &mut vec![false; n as usize], n, &mut out);
    out
}

fn order_str(o: &[u32]) -> String {
    o.iter().map(|v| v.to_string()).collect::<Vec<_>>().join(" ")
}

/// `mgr` + order (on the still empty manager) + all 2^(2^n) functions as f0..
fn prelude(w: &mut dyn Write, n: u32, order: &[u32], threads: u32, cache: usize, all: bool) {
    writeln!(w, "mgr nodes=65536 cache={} threads={} vars={}", cache, threads, n).unwrap();
    writeln!(w, "order {}", order_str(order)).unwrap();
    if all {
        for t in 0..(1u64 << (1 << n)) {
            // two construction routes, alternating
            writeln!(w, "{} f{} {:x}", if t % 2 == 0 { "tt" } else { "ttb" }, t, t).unwrap();
        }
    }
}

fn zbdd(kind: &str) -> bool {
    kind == "zbdd"
}

fn gen_c02(cfg: &GenCfg, rng: &mut Rng, w: &mut dyn Write, kind: &str) {
    let n = 3u32;
    let nf = 1u64 << (1 << n);
    let orders = perms(n);
    let mut case = 0;
    for (oi, order) in orders.iter().enumerate() {
        for &threads in &[1u32, 4] {
            if !cfg.thorough && threads == 4 && oi % 3 != 0 {
                continue;
            }
            writeln!(w, "case c02-n3-o{}-t{}", oi, threads).unwrap();
            case += 1;
            prelude(w, n, order, threads, 1024, true);
            writeln!(w, "const cT T").unwrap();
            writeln!(w, "const cF F").unwrap();
            for v in 0..n {
                writeln!(w, "var x{} {}", v, v).unwrap();
                writeln!(w, "notvar nx{} {}", v, v).unwrap();
            }
            for f in 0..nf {
                writeln!(w, "op r not f{}", f).unwrap();
                writeln!(w, "cofchk f{}", f).unwrap();
                writeln!(w, "sat f{}", f).unwrap();
                writeln!(w, "valid f{}", f).unwrap();
                writeln!(w, "count f{}", f).unwrap();
                for a in 0..(1 << n) {
                    if cfg.thorough || (f + a) % 3 == 0 {
                        writeln!(w, "eval f{} {:03b}", f, a).unwrap();
                    }
                }
            }
            let exhaustive_pairs = cfg.thorough && threads == 1;
            if exhaustive_pairs {
                for f in 0..nf {
                    for g in 0..nf {
                        for op in BIN_OPS {
                            writeln!(w, "op r {} f{} f{}", op, f, g).unwrap();
                        }
                    }
                }
            } else {
                let pairs = if cfg.thorough { 20000 } else { 2500 } * cfg.scale;
                for _ in 0..pairs {
                    let (f, g) = (rng.below(nf), rng.below(nf));
                    for op in BIN_OPS {
                        writeln!(w, "op r {} f{} f{}", op, f, g).unwrap();
                    }
                }
            }
            let ites = if cfg.thorough { 150000 } else { 6000 } * cfg.scale;
            for _ in 0..ites {
                writeln!(w, "op r ite f{} f{} f{}", rng.below(nf), rng.below(nf), rng.below(nf)).unwrap();
            }
        }
    }
    // random operands over 4..8 variables
    let cases = if cfg.thorough { 60 } else { 8 } * cfg.scale;
    for c in 0..cases {
        let n = rng.range(4, if zbdd(kind) { 7 } else { 8 }) as u32;
        let mut order: Vec<u32> = (0..n).collect();
        rng.shuffle(&mut order);
        let threads = *rng.pick(&[1u32, 1, 2, 4]);
        writeln!(w, "case c02-rand-{}-n{}", c + case, n).unwrap();
        prelude(w, n, &order, threads, *rng.pick(&[16usize, 1024]), false);
        let mut pool: Vec<String> = Vec::new();
        for v in 0..n {
            writeln!(w, "var x{} {}", v, v).unwrap();
            writeln!(w, "notvar nx{} {}", v, v).unwrap();
            pool.push(format!("x{v}"));
            pool.push(format!("nx{v}"));
        }
        writeln!(w, "const cT T").unwrap();
        writeln!(w, "const cF F").unwrap();
        pool.push("cT".into());
        pool.push("cF".into());
        let steps = if cfg.thorough { 400 } else { 150 };
        for s in 0..steps {
            let name = format!("g{s}");
            let k = rng.below(10);
            if k == 0 {
                writeln!(w, "op {} not {}", name, rng.pick(&pool)).unwrap();
            } else if k <= 2 {
                writeln!(w, "op {} ite {} {} {}", name, rng.pick(&pool), rng.pick(&pool), rng.pick(&pool)).unwrap();
            } else {
                writeln!(w, "op {} {} {} {}", name, rng.pick(&BIN_OPS), rng.pick(&pool), rng.pick(&pool)).unwrap();
            }
            if rng.chance(1, 6) {
                let a = rng.below(1 << n);
                writeln!(w, "eval {} {:0width$b}", name, a, width = n as usize).unwrap();
            }
            if rng.chance(1, 10) {
                writeln!(w, "cofchk {}", name).unwrap();
                writeln!(w, "count {}", name).unwrap();
            }
            pool.push(name);
        }
    }
}


/// all literal cubes over `n` variables as `cube` lines named `q<pos>_<neg>`; returns the names
fn all_cubes(w: &mut dyn Write, n: u32) -> Vec<String> {
    let mut names = Vec::new();
    for pos in 0..(1u32 << n) {
        for neg in 0..(1u32 << n) {
            if pos & neg != 0 {
                continue;
            }
            let name = format!("q{}_{}", pos, neg);
            let mut l = format!("cube {}", name);
            for v in 0..n {
                if pos >> v & 1 != 0 {
                    l.push_str(&format!(" +{}", v));
                } else if neg >> v & 1 != 0 {
                    l.push_str(&format!(" -{}", v));
                }
            }
            writeln!(w, "{}", l).unwrap();
            names.push(name);
        }
    }
    names
}

fn gen_c04(cfg: &GenCfg, rng: &mut Rng, w: &mut dyn Write, kind: &str) {
    let n = 3u32;
    let nf = 1u64 << (1 << n);
    let orders = perms(n);
    let quants = ["forall", "exists", "unique"];
    for (oi, order) in orders.iter().enumerate() {
        if !cfg.thorough && oi % 2 == 1 {
            continue;
        }
        writeln!(w, "case c04-n3-o{}", oi).unwrap();
        prelude(w, n, order, 1, 1024, true);
        let cubes = all_cubes(w, n);
        // restrict with every literal cube
        for f in 0..nf {
            for c in &cubes {
                if cfg.thorough || rng.chance(1, 3) {
                    writeln!(w, "restrict r f{} {}", f, c).unwrap();
                }
            }
        }
        if zbdd(kind) {
            continue;
        }
        // quantification over every variable set (positive cubes q<pos>_0)
        for f in 0..nf {
            for vs in 0..(1u32 << n) {
                for q in quants {
                    writeln!(w, "quant r {} f{} q{}_0", q, f, vs).unwrap();
                }
            }
        }
        let combos = if cfg.thorough { 200000 } else { 8000 } * cfg.scale;
        for _ in 0..combos {
            writeln!(w, "applyq r {} {} f{} f{} q{}_0", rng.pick(&quants), rng.pick(&BIN_OPS), rng.below(nf), rng.below(nf), rng.below(1 << n)).unwrap();
        }
        // substitution: every domain subset, replacements from a pool of functions; the same
        // substitution object reused, two objects alternated, separated by gc
        let pool: Vec<u64> = (0..16).map(|_| rng.below(nf)).collect();
        let nsub = if cfg.thorough { 400 } else { 60 } * cfg.scale;
        for sidx in 0..nsub {
            let dom = rng.range(1, (1 << n) - 1) as u32;
            let mut l = format!("mksubst s{}", sidx);
            for v in 0..n {
                if dom >> v & 1 != 0 {
                    l.push_str(&format!(" {}=f{}", v, rng.pick(&pool)));
                }
            }
            writeln!(w, "{}", l).unwrap();
            for _rep in 0..3 {
                for _ in 0..6 {
                    writeln!(w, "subst r f{} s{}", rng.below(nf), sidx).unwrap();
                    if sidx > 0 {
                        writeln!(w, "subst r2 f{} s{}", rng.below(nf), sidx - 1).unwrap();
                    }
                }
                if rng.chance(1, 2) {
                    writeln!(w, "gc").unwrap();
                }
            }
            if sidx > 0 {
                writeln!(w, "dropsubst s{}", sidx - 1).unwrap();
            }
        }
    }
    if zbdd(kind) {
        return;
    }
    // random instances up to 8 variables
    let cases = if cfg.thorough { 40 } else { 6 } * cfg.scale;
    for c in 0..cases {
        let n = rng.range(4, 8) as u32;
        let mut order: Vec<u32> = (0..n).collect();
        rng.shuffle(&mut order);
        writeln!(w, "case c04-rand-{}-n{}", c, n).unwrap();
        prelude(w, n, &order, *rng.pick(&[1u32, 2]), 256, false);
        let mut pool = rand_pool(w, rng, n, if cfg.thorough { 60 } else { 30 });
        for s in 0..(if cfg.thorough { 150 } else { 60 }) {
            // a random literal cube / variable set
            let mut l = format!("cube k{}", s);
            let mut l2 = format!("cube vs{}", s);
            for v in 0..n {
                match rng.below(4) {
                    0 => l.push_str(&format!(" +{}", v)),
                    1 => l.push_str(&format!(" -{}", v)),
                    _ => {}
                }
                if rng.chance(1, 3) {
                    l2.push_str(&format!(" +{}", v));
                }
            }
            writeln!(w, "{}", l).unwrap();
            writeln!(w, "{}", l2).unwrap();
            let name = format!("g{}", s + 1000);
            match rng.below(4) {
                0 => writeln!(w, "restrict {} {} k{}", name, rng.pick(&pool), s).unwrap(),
                1 => writeln!(w, "quant {} {} {} vs{}", name, rng.pick(&quants), rng.pick(&pool), s).unwrap(),
                2 => writeln!(w, "applyq {} {} {} {} {} vs{}", name, rng.pick(&quants), rng.pick(&BIN_OPS), rng.pick(&pool), rng.pick(&pool), s).unwrap(),
                _ => {
                    let mut m = format!("mksubst t{}", s);
                    let mut any = false;
                    for v in 0..n {
                        if rng.chance(1, 3) {
                            m.push_str(&format!(" {}={}", v, rng.pick(&pool)));
                            any = true;
                        }
                    }
                    if !any {
                        m.push_str(&format!(" 0={}", rng.pick(&pool)));
                    }
                    writeln!(w, "{}", m).unwrap();
                    writeln!(w, "subst {} {} t{}", name, rng.pick(&pool), s).unwrap();
                    writeln!(w, "subst {}b {} t{}", name, rng.pick(&pool), s).unwrap();
                }
            }
            pool.push(name);
        }
    }
}

/// variables, constants and `steps` random operator results as a pool of handle names
fn rand_pool(w: &mut dyn Write, rng: &mut Rng, n: u32, steps: usize) -> Vec<String> {
    let mut pool: Vec<String> = Vec::new();
    for v in 0..n {
        writeln!(w, "var x{} {}", v, v).unwrap();
        writeln!(w, "notvar nx{} {}", v, v).unwrap();
        pool.push(format!("x{v}"));
        pool.push(format!("nx{v}"));
    }
    for s in 0..steps {
        let name = format!("g{s}");
        if rng.chance(1, 5) {
            writeln!(w, "op {} ite {} {} {}", name, rng.pick(&pool), rng.pick(&pool), rng.pick(&pool)).unwrap();
        } else {
            writeln!(w, "op {} {} {} {}", name, rng.pick(&BIN_OPS), rng.pick(&pool), rng.pick(&pool)).unwrap();
        }
        pool.push(name);
    }
    pool
}

fn gen_c13(cfg: &GenCfg, rng: &mut Rng, w: &mut dyn Write, kind: &str) {
    let n = 3u32;
    let nf = 1u64 << (1 << n);
    let orders = perms(n);
    for (oi, order) in orders.iter().enumerate() {
        if !cfg.thorough && oi % 2 == 1 {
            continue;
        }
        writeln!(w, "case c13-n3-o{}", oi).unwrap();
        prelude(w, n, order, 1, 1024, true);
        let cubes = all_cubes(w, n);
        for f in 0..nf {
            for ch in 0..(1u32 << n) {
                writeln!(w, "pickvec f{} {:03b}", f, ch).unwrap();
                writeln!(w, "pick r f{} {:03b}", f, ch).unwrap();
            }
            for c in &cubes {
                writeln!(w, "pickset r f{} {}", f, c).unwrap();
            }
            if f % 16 == 3 || cfg.thorough {
                writeln!(w, "pickuni f{} {} {}", f, rng.below(1 << 30), if cfg.thorough { 4000 } else { 1700 }).unwrap();
            }
        }
    }
    let cases = if cfg.thorough { 40 } else { 6 } * cfg.scale;
    for c in 0..cases {
        let n = rng.range(4, if zbdd(kind) { 7 } else { 8 }) as u32;
        let mut order: Vec<u32> = (0..n).collect();
        rng.shuffle(&mut order);
        writeln!(w, "case c13-rand-{}-n{}", c, n).unwrap();
        prelude(w, n, &order, 1, 256, false);
        let pool = rand_pool(w, rng, n, if cfg.thorough { 80 } else { 40 });
        for s in 0..(if cfg.thorough { 200 } else { 80 }) {
            let f = rng.pick(&pool).clone();
            let ch = rng.below(1 << n);
            writeln!(w, "pickvec {} {:0width$b}", f, ch, width = n as usize).unwrap();
            writeln!(w, "pick r {} {:0width$b}", f, ch, width = n as usize).unwrap();
            let mut l = format!("cube k{}", s);
            for v in 0..n {
                match rng.below(3) {
                    0 => l.push_str(&format!(" +{}", v)),
                    1 => l.push_str(&format!(" -{}", v)),
                    _ => {}
                }
            }
            writeln!(w, "{}", l).unwrap();
            writeln!(w, "pickset r {} k{}", f, s).unwrap();
            if s % 20 == 0 && n <= 6 {
                writeln!(w, "pickuni {} {} 3000", f, rng.below(1 << 30)).unwrap();
            }
        }
    }
}

fn gen_c12(cfg: &GenCfg, rng: &mut Rng, w: &mut dyn Write, kind: &str) {
    let n = 3u32;
    let nf = 1u64 << (1 << n);
    let orders = perms(n);
    let tys = ["u64", "u128", "f64", "nat"];
    for (oi, order) in orders.iter().enumerate() {
        if !cfg.thorough && oi % 3 != 0 {
            continue;
        }
        writeln!(w, "case c12-n3-o{}", oi).unwrap();
        prelude(w, n, order, 1, 1024, true);
        let varss: Vec<u32> = if zbdd(kind) { vec![n] } else { vec![n, n + 1, n + 60, n + 61, n + 70, n + 125, 1100] };
        for f in 0..nf {
            for &vars in &varss {
                for ty in tys {
                    // fresh cache, and a cache shared across handles (and across changing `vars`)
                    writeln!(w, "satcount f{} {} {}", f, vars, ty).unwrap();
                    writeln!(w, "satcount f{} {} {} cache=shared", f, vars, ty).unwrap();
                }
            }
            if f % 32 == 31 {
                // recycle node ids: drop temporaries, collect, rebuild
                writeln!(w, "op tmp{} xor f{} f{}", f, f, (f * 7 + 3) % nf).unwrap();
                writeln!(w, "satcount tmp{} {} nat cache=shared", f, n).unwrap();
                writeln!(w, "drop tmp{}", f).unwrap();
                writeln!(w, "gc").unwrap();
            }
        }
    }
    let cases = if cfg.thorough { 30 } else { 5 } * cfg.scale;
    for c in 0..cases {
        let n = rng.range(4, if zbdd(kind) { 7 } else { 10 }) as u32;
        let mut order: Vec<u32> = (0..n).collect();
        rng.shuffle(&mut order);
        writeln!(w, "case c12-rand-{}-n{}", c, n).unwrap();
        prelude(w, n, &order, 1, 256, false);
        let pool = rand_pool(w, rng, n, if cfg.thorough { 80 } else { 40 });
        for s in 0..(if cfg.thorough { 300 } else { 100 }) {
            let f = rng.pick(&pool).clone();
            let vars = if zbdd(kind) { n } else { *rng.pick(&[n, n, n + 1, n + 50, n + 70, 1100]) };
            let ty = rng.pick(&tys);
            if rng.chance(1, 2) {
                writeln!(w, "satcount {} {} {} cache=c{}", f, vars, ty, rng.below(2)).unwrap();
            } else {
                writeln!(w, "satcount {} {} {}", f, vars, ty).unwrap();
            }
            if s % 25 == 24 {
                writeln!(w, "op junk{} xor {} {}", s, rng.pick(&pool), rng.pick(&pool)).unwrap();
                writeln!(w, "satcount junk{} {} nat cache=c0", s, n).unwrap();
                writeln!(w, "drop junk{}", s).unwrap();
                writeln!(w, "gc").unwrap();
            }
        }
    }
}

fn gen_c09(cfg: &GenCfg, rng: &mut Rng, w: &mut dyn Write, _kind: &str) {
    let n = 3u32;
    let nf = 1u64 << (1 << n);
    let orders = perms(n);
    for (oi, order) in orders.iter().enumerate() {
        if !cfg.thorough && oi % 2 == 1 {
            continue;
        }
        writeln!(w, "case c09-n3-o{}", oi).unwrap();
        prelude(w, n, order, 1, 1024, true);
        writeln!(w, "zconst ze empty").unwrap();
        writeln!(w, "zconst zb base").unwrap();
        for v in 0..n {
            writeln!(w, "singleton sg{} {}", v, v).unwrap();
        }
        for f in 0..nf {
            for v in 0..n {
                writeln!(w, "subset0 r f{} {}", f, v).unwrap();
                writeln!(w, "subset1 r f{} {}", f, v).unwrap();
                writeln!(w, "change r f{} {}", f, v).unwrap();
            }
            writeln!(w, "cofchk f{}", f).unwrap();
        }
        let pairs = if cfg.thorough { nf * nf } else { 6000 * cfg.scale };
        for i in 0..pairs {
            let (f, g) = if cfg.thorough { (i / nf, i % nf) } else { (rng.below(nf), rng.below(nf)) };
            for op in ["union", "intsec", "diff"] {
                writeln!(w, "{} r f{} f{}", op, f, g).unwrap();
            }
        }
    }
    // histories that add variables between operations
    let cases = if cfg.thorough { 60 } else { 10 } * cfg.scale;
    for c in 0..cases {
        let n0 = rng.range(2, 4) as u32;
        writeln!(w, "case c09-addvars-{}", c).unwrap();
        writeln!(w, "mgr nodes=65536 cache={} threads=1 vars={}", rng.pick(&[4usize, 256]), n0).unwrap();
        let mut n = n0;
        let mut pool: Vec<String> = Vec::new();
        writeln!(w, "zconst ze empty").unwrap();
        writeln!(w, "zconst zb base").unwrap();
        pool.push("ze".into());
        pool.push("zb".into());
        let mut k = 0;
        for step in 0..(if cfg.thorough { 120 } else { 60 }) {
            let name = format!("g{}", step);
            match rng.below(12) {
                0 if n < 7 => {
                    let add = rng.range(1, 2) as u32;
                    writeln!(w, "addvars {}", add).unwrap();
                    n += add;
                    continue;
                }
                1 => writeln!(w, "singleton {} {}", name, rng.below(n as u64)).unwrap(),
                2 => writeln!(w, "var {} {}", name, rng.below(n as u64)).unwrap(),
                3 => writeln!(w, "const {} T", name).unwrap(),
                4 => writeln!(w, "{} {} {} {}", rng.pick(&["subset0", "subset1", "change"]), name, rng.pick(&pool), rng.below(n as u64)).unwrap(),
                5 => writeln!(w, "op {} not {}", name, rng.pick(&pool)).unwrap(),
                6 => writeln!(w, "op {} {} {} {}", name, rng.pick(&BIN_OPS), rng.pick(&pool), rng.pick(&pool)).unwrap(),
                7 => {
                    k += 1;
                    let mut l = format!("cube k{}", k);
                    for v in 0..n {
                        match rng.below(4) {
                            0 => l.push_str(&format!(" +{}", v)),
                            1 => l.push_str(&format!(" -{}", v)),
                            _ => {}
                        }
                    }
                    writeln!(w, "{}", l).unwrap();
                    writeln!(w, "restrict {} {} k{}", name, rng.pick(&pool), k).unwrap();
                }
                _ => writeln!(w, "{} {} {} {}", rng.pick(&["union", "intsec", "diff"]), name, rng.pick(&pool), rng.pick(&pool)).unwrap(),
            }
            pool.push(name);
        }
    }
}

fn generate(cfg: &GenCfg, rng: &mut Rng, w: &mut dyn Write) {
    let kind = cfg.extra.get("kind").map(|s| s.as_str()).unwrap_or("bdd").to_string();
    let suite = cfg.extra.get("suite").map(|s| s.as_str()).unwrap_or("c02").to_string();
    match suite.as_str() {
        "c02" => gen_c02(cfg, rng, w, &kind),
        "c04" => gen_c04(cfg, rng, w, &kind),
        "c09" => gen_c09(cfg, rng, w, &kind),
        "c12" => gen_c12(cfg, rng, w, &kind),
        "c13" => gen_c13(cfg, rng, w, &kind),
        _ => panic!("unknown suite {suite}"),
    }
}

fn make(f: &BTreeMap<String, String>) -> Box<dyn Scenario> {
    let kind = f.get("kind").map(|s| s.as_str()).unwrap_or("bdd");
    oxv::kinds::make(kind, f)
}

fn main() {
    harness_main(generate, make)
}
