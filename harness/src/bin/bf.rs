//! Boolean-function scenario binary: `bf gen --kind bdd|bcdd|zbdd --suite <s> --tier .. --seed ..`
//! and `bf run --kind ..`. The suites generate the operation histories for C01–C06, C09, C12–C14.
use oxv::bf::BIN_OPS;
use oxv::*;
use std::collections::BTreeMap;
use std::io::Write;

fn perms(n: u32) -> Vec<Vec<u32>> {
    fn go(cur: &mut Vec<u32>, used: &mut Vec<bool>, n: u32, out: &mut Vec<Vec<u32>>) {
        if cur.len() == n as usize {
            out.push(cur.clone());
            return;
        }
        for v in 0..n {
            if !used[v as usize] {
                used[v as usize] = true;
                cur.push(v);
                go(cur, used, n, out);
                cur.pop();
                used[v as usize] = false;
            }
        }
    }
    let mut out = Vec::new();
    go(&mut Vec::new(), &mut vec![false; n as usize], n, &mut out);
    out
}

fn order_str(o: &[u32]) -> String {
    o.iter().map(|v| v.to_string()).collect::<Vec<_>>().join(" ")
}

/// `mgr` + order (on the still empty manager) + all 2^(2^n) functions as f0..
fn prelude(w: &mut dyn Write, n: u32, order: &[u32], threads: u32, cache: usize, all: bool) {
    writeln!(w, "mgr nodes=65536 cache={} threads={} vars={}", cache, threads, n).unwrap();
    writeln!(w, "order {}", order_str(order)).unwrap();
    if all {
        for t in 0..(1u64 << (1 << n)) {
            // two construction routes, alternating
            writeln!(w, "{} f{} {:x}", if t % 2 == 0 { "tt" } else { "ttb" }, t, t).unwrap();
        }
    }
}

fn zbdd(kind: &str) -> bool {
    kind == "zbdd"
}

fn gen_c02(cfg: &GenCfg, rng: &mut Rng, w: &mut dyn Write, kind: &str) {
    let n = 3u32;
    let nf = 1u64 << (1 << n);
    let orders = perms(n);
    let mut case = 0;
    for (oi, order) in orders.iter().enumerate() {
        for &threads in &[1u32, 4] {
            if !cfg.thorough && threads == 4 && oi % 3 != 0 {
                continue;
            }
            writeln!(w, "case c02-n3-o{}-t{}", oi, threads).unwrap();
            case += 1;
            prelude(w, n, order, threads, 1024, true);
            writeln!(w, "const cT T").unwrap();
            writeln!(w, "const cF F").unwrap();
            for v in 0..n {
                writeln!(w, "var x{} {}", v, v).unwrap();
                writeln!(w, "notvar nx{} {}", v, v).unwrap();
            }
            for f in 0..nf {
                writeln!(w, "op r not f{}", f).unwrap();
                writeln!(w, "cofchk f{}", f).unwrap();
                writeln!(w, "sat f{}", f).unwrap();
                writeln!(w, "valid f{}", f).unwrap();
                writeln!(w, "count f{}", f).unwrap();
                for a in 0..(1 << n) {
                    if cfg.thorough || (f + a) % 3 == 0 {
                        writeln!(w, "eval f{} {:03b}", f, a).unwrap();
                    }
                }
            }
            let exhaustive_pairs = cfg.thorough && threads == 1;
            if exhaustive_pairs {
                for f in 0..nf {
                    for g in 0..nf {
                        for op in BIN_OPS {
                            writeln!(w, "op r {} f{} f{}", op, f, g).unwrap();
                        }
                    }
                }
            } else {
                let pairs = if cfg.thorough { 20000 } else { 2500 } * cfg.scale;
                for _ in 0..pairs {
                    let (f, g) = (rng.below(nf), rng.below(nf));
                    for op in BIN_OPS {
                        writeln!(w, "op r {} f{} f{}", op, f, g).unwrap();
                    }
                }
            }
            let ites = if cfg.thorough { 150000 } else { 6000 } * cfg.scale;
            for _ in 0..ites {
                writeln!(w, "op r ite f{} f{} f{}", rng.below(nf), rng.below(nf), rng.below(nf)).unwrap();
            }
        }
    }
    // random operands over 4..8 variables
    let cases = if cfg.thorough { 60 } else { 8 } * cfg.scale;
    for c in 0..cases {
        let n = rng.range(4, if zbdd(kind) { 7 } else { 8 }) as u32;
        let mut order: Vec<u32> = (0..n).collect();
        rng.shuffle(&mut order);
        let threads = *rng.pick(&[1u32, 1, 2, 4]);
        writeln!(w, "case c02-rand-{}-n{}", c + case, n).unwrap();
        prelude(w, n, &order, threads, *rng.pick(&[16usize, 1024]), false);
        let mut pool: Vec<String> = Vec::new();
        for v in 0..n {
            writeln!(w, "var x{} {}", v, v).unwrap();
            writeln!(w, "notvar nx{} {}", v, v).unwrap();
            pool.push(format!("x{v}"));
            pool.push(format!("nx{v}"));
        }
        writeln!(w, "const cT T").unwrap();
        writeln!(w, "const cF F").unwrap();
        pool.push("cT".into());
        pool.push("cF".into());
        let steps = if cfg.thorough { 400 } else { 150 };
        let mut n = n;
        for s in 0..steps {
            if (s == steps / 3 || s == 2 * steps / 3) && n < 9 {
                // the manager grows while handles and memoised results of the connectives are alive
                // (negation-based ZBDD connectives depend on the variable domain)
                writeln!(w, "addvars 1").unwrap();
                writeln!(w, "var x{} {}", n, n).unwrap();
                writeln!(w, "notvar nx{} {}", n, n).unwrap();
                pool.push(format!("x{n}"));
                pool.push(format!("nx{n}"));
                n += 1;
                for h in ["cT", "cF"] {
                    writeln!(w, "op ra_{}_{} nand {} {}", s, h, h, h).unwrap();
                    writeln!(w, "op rb_{}_{} equiv {} {}", s, h, h, rng.pick(&pool)).unwrap();
                }
            }
            let name = format!("g{s}");
            let k = rng.below(10);
            if k == 0 {
                writeln!(w, "op {} not {}", name, rng.pick(&pool)).unwrap();
            } else if k <= 2 {
                writeln!(w, "op {} ite {} {} {}", name, rng.pick(&pool), rng.pick(&pool), rng.pick(&pool)).unwrap();
            } else {
                writeln!(w, "op {} {} {} {}", name, rng.pick(&BIN_OPS), rng.pick(&pool), rng.pick(&pool)).unwrap();
            }
            if rng.chance(1, 6) {
                let a = rng.below(1 << n);
                writeln!(w, "eval {} {:0width$b}", name, a, width = n as usize).unwrap();
            }
            if rng.chance(1, 10) {
                writeln!(w, "cofchk {}", name).unwrap();
                writeln!(w, "count {}", name).unwrap();
            }
            pool.push(name);
        }
    }
    // the connectives inside histories: handles are dropped, collections free nodes (also nodes
    // whose only referrer dies in the same collection) and later operations reuse the slots, so
    // a memoised result that survives a collection is served for different operands
    let cases = if cfg.thorough { 120 } else { 16 } * cfg.scale;
    for c in 0..cases {
        let n = rng.range(3, 5) as u32;
        let cache = *rng.pick(&[16usize, 1024, 65536]);
        writeln!(w, "case c02-hist-{}-n{}-c{}", c, n, cache).unwrap();
        writeln!(w, "mgr nodes=65536 cache={} threads=1 vars={}", cache, n).unwrap();
        let hcfg = Hist { steps: if cfg.thorough { 160 } else { 100 }, dump_every: 0, audit_every: 0, count_every: 0, nodes_every: 0, reorder: false, addvars: false, gc_prob: 6, quant: false };
        history(w, rng, kind, n, &hcfg, 6);
    }
}


/// all literal cubes over `n` variables as `cube` lines named `q<pos>_<neg>`; returns the names
fn all_cubes(w: &mut dyn Write, n: u32) -> Vec<String> {
    let mut names = Vec::new();
    for pos in 0..(1u32 << n) {
        for neg in 0..(1u32 << n) {
            if pos & neg != 0 {
                continue;
            }
            let name = format!("q{}_{}", pos, neg);
            let mut l = format!("cube {}", name);
            for v in 0..n {
                if pos >> v & 1 != 0 {
                    l.push_str(&format!(" +{}", v));
                } else if neg >> v & 1 != 0 {
                    l.push_str(&format!(" -{}", v));
                }
            }
            writeln!(w, "{}", l).unwrap();
            names.push(name);
        }
    }
    names
}

fn gen_c04(cfg: &GenCfg, rng: &mut Rng, w: &mut dyn Write, kind: &str) {
    let n = 3u32;
    let nf = 1u64 << (1 << n);
    let orders = perms(n);
    let quants = ["forall", "exists", "unique"];
    for (oi, order) in orders.iter().enumerate() {
        if !cfg.thorough && oi % 3 == 2 {
            continue;
        }
        writeln!(w, "case c04-n3-o{}", oi).unwrap();
        if oi % 2 == 0 {
            prelude(w, n, order, 1, 1024, true);
        } else {
            // worker threads with a split depth of 1: the parallel recursors hand over to the
            // sequential ones one level below the root (quantification, restrict, substitution)
            writeln!(w, "mgr nodes=65536 cache=1024 threads=2 split=1 vars={}", n).unwrap();
            writeln!(w, "order {}", order_str(order)).unwrap();
            for t in 0..(1u64 << (1 << n)) {
                writeln!(w, "{} f{} {:x}", if t % 2 == 0 { "tt" } else { "ttb" }, t, t).unwrap();
            }
        }
        if !zbdd(kind) && oi == 0 {
            // substitution objects created by several threads at once: pairwise distinct identifiers
            writeln!(w, "substids 4 {} f{} {}", if cfg.thorough { 20000 } else { 6000 }, 0x96, 1).unwrap();
        }
        let cubes = all_cubes(w, n);
        // restrict with every literal cube
        for f in 0..nf {
            for c in &cubes {
                if cfg.thorough || rng.chance(1, 3) {
                    writeln!(w, "restrict r f{} {}", f, c).unwrap();
                }
            }
        }
        if zbdd(kind) {
            continue;
        }
        // quantification over every variable set (positive cubes q<pos>_0)
        for f in 0..nf {
            for vs in 0..(1u32 << n) {
                for q in quants {
                    writeln!(w, "quant r {} f{} q{}_0", q, f, vs).unwrap();
                }
            }
        }
        let combos = if cfg.thorough { 200000 } else { 8000 } * cfg.scale;
        for _ in 0..combos {
            writeln!(w, "applyq r {} {} f{} f{} q{}_0", rng.pick(&quants), rng.pick(&BIN_OPS), rng.below(nf), rng.below(nf), rng.below(1 << n)).unwrap();
        }
        // substitution: every domain subset, replacements from a pool of functions; the same
        // substitution object reused, two objects alternated, separated by gc
        let pool: Vec<u64> = (0..16).map(|_| rng.below(nf)).collect();
        let nsub = if cfg.thorough { 400 } else { 60 } * cfg.scale;
        for sidx in 0..nsub {
            let dom = rng.range(1, (1 << n) - 1) as u32;
            let mut l = format!("mksubst s{}", sidx);
            for v in 0..n {
                if dom >> v & 1 != 0 {
                    l.push_str(&format!(" {}=f{}", v, rng.pick(&pool)));
                }
            }
            writeln!(w, "{}", l).unwrap();
            for _rep in 0..3 {
                for _ in 0..6 {
                    writeln!(w, "subst r f{} s{}", rng.below(nf), sidx).unwrap();
                    if sidx > 0 {
                        writeln!(w, "subst r2 f{} s{}", rng.below(nf), sidx - 1).unwrap();
                    }
                }
                if rng.chance(1, 2) {
                    writeln!(w, "gc").unwrap();
                }
            }
            if sidx > 0 {
                writeln!(w, "dropsubst s{}", sidx - 1).unwrap();
            }
        }
    }
    if zbdd(kind) {
        return;
    }
    // random instances up to 8 variables
    let cases = if cfg.thorough { 40 } else { 6 } * cfg.scale;
    for c in 0..cases {
        let n = rng.range(4, 8) as u32;
        let mut order: Vec<u32> = (0..n).collect();
        rng.shuffle(&mut order);
        writeln!(w, "case c04-rand-{}-n{}", c, n).unwrap();
        prelude(w, n, &order, *rng.pick(&[1u32, 2]), 256, false);
        let mut pool = rand_pool(w, rng, n, if cfg.thorough { 60 } else { 30 });
        for s in 0..(if cfg.thorough { 150 } else { 60 }) {
            // a random literal cube / variable set
            let mut l = format!("cube k{}", s);
            let mut l2 = format!("cube vs{}", s);
            for v in 0..n {
                match rng.below(4) {
                    0 => l.push_str(&format!(" +{}", v)),
                    1 => l.push_str(&format!(" -{}", v)),
                    _ => {}
                }
                if rng.chance(1, 3) {
                    l2.push_str(&format!(" +{}", v));
                }
            }
            writeln!(w, "{}", l).unwrap();
            writeln!(w, "{}", l2).unwrap();
            let name = format!("g{}", s + 1000);
            match rng.below(4) {
                0 => writeln!(w, "restrict {} {} k{}", name, rng.pick(&pool), s).unwrap(),
                1 => writeln!(w, "quant {} {} {} vs{}", name, rng.pick(&quants), rng.pick(&pool), s).unwrap(),
                2 => writeln!(w, "applyq {} {} {} {} {} vs{}", name, rng.pick(&quants), rng.pick(&BIN_OPS), rng.pick(&pool), rng.pick(&pool), s).unwrap(),
                _ => {
                    let mut m = format!("mksubst t{}", s);
                    let mut any = false;
                    for v in 0..n {
                        if rng.chance(1, 3) {
                            m.push_str(&format!(" {}={}", v, rng.pick(&pool)));
                            any = true;
                        }
                    }
                    if !any {
                        m.push_str(&format!(" 0={}", rng.pick(&pool)));
                    }
                    writeln!(w, "{}", m).unwrap();
                    writeln!(w, "subst {} {} t{}", name, rng.pick(&pool), s).unwrap();
                    writeln!(w, "subst {}b {} t{}", name, rng.pick(&pool), s).unwrap();
                }
            }
            pool.push(name);
        }
    }
}

/// variables, constants and `steps` random operator results as a pool of handle names
fn rand_pool(w: &mut dyn Write, rng: &mut Rng, n: u32, steps: usize) -> Vec<String> {
    let mut pool: Vec<String> = Vec::new();
    for v in 0..n {
        writeln!(w, "var x{} {}", v, v).unwrap();
        writeln!(w, "notvar nx{} {}", v, v).unwrap();
        pool.push(format!("x{v}"));
        pool.push(format!("nx{v}"));
    }
    for s in 0..steps {
        let name = format!("g{s}");
        if rng.chance(1, 5) {
            writeln!(w, "op {} ite {} {} {}", name, rng.pick(&pool), rng.pick(&pool), rng.pick(&pool)).unwrap();
        } else {
            writeln!(w, "op {} {} {} {}", name, rng.pick(&BIN_OPS), rng.pick(&pool), rng.pick(&pool)).unwrap();
        }
        pool.push(name);
    }
    pool
}

fn gen_c13(cfg: &GenCfg, rng: &mut Rng, w: &mut dyn Write, kind: &str) {
    let n = 3u32;
    let nf = 1u64 << (1 << n);
    let orders = perms(n);
    for (oi, order) in orders.iter().enumerate() {
        if !cfg.thorough && oi % 2 == 1 {
            continue;
        }
        writeln!(w, "case c13-n3-o{}", oi).unwrap();
        prelude(w, n, order, 1, 1024, true);
        let cubes = all_cubes(w, n);
        for f in 0..nf {
            for ch in 0..(1u32 << n) {
                writeln!(w, "pickvec f{} {:03b}", f, ch).unwrap();
                writeln!(w, "pick r f{} {:03b}", f, ch).unwrap();
            }
            for c in &cubes {
                writeln!(w, "pickset r f{} {}", f, c).unwrap();
            }
            if f % 16 == 3 || cfg.thorough {
                writeln!(w, "pickuni f{} {} {}", f, rng.below(1 << 30), if cfg.thorough { 4000 } else { 1700 }).unwrap();
            }
        }
    }
    let cases = if cfg.thorough { 40 } else { 6 } * cfg.scale;
    for c in 0..cases {
        let n = rng.range(4, if zbdd(kind) { 7 } else { 8 }) as u32;
        let mut order: Vec<u32> = (0..n).collect();
        rng.shuffle(&mut order);
        writeln!(w, "case c13-rand-{}-n{}", c, n).unwrap();
        prelude(w, n, &order, 1, 256, false);
        let pool = rand_pool(w, rng, n, if cfg.thorough { 80 } else { 40 });
        for s in 0..(if cfg.thorough { 200 } else { 80 }) {
            let f = rng.pick(&pool).clone();
            let ch = rng.below(1 << n);
            writeln!(w, "pickvec {} {:0width$b}", f, ch, width = n as usize).unwrap();
            writeln!(w, "pick r {} {:0width$b}", f, ch, width = n as usize).unwrap();
            let mut l = format!("cube k{}", s);
            for v in 0..n {
                match rng.below(3) {
                    0 => l.push_str(&format!(" +{}", v)),
                    1 => l.push_str(&format!(" -{}", v)),
                    _ => {}
                }
            }
            writeln!(w, "{}", l).unwrap();
            writeln!(w, "pickset r {} k{}", f, s).unwrap();
            if s % 20 == 0 && n <= 6 {
                writeln!(w, "pickuni {} {} 3000", f, rng.below(1 << 30)).unwrap();
            }
        }
    }
}

fn gen_c12(cfg: &GenCfg, rng: &mut Rng, w: &mut dyn Write, kind: &str) {
    if !zbdd(kind) {
        // the count cache's epoch protocol while a large collection runs on another thread
        writeln!(w, "case c12-satrace-{}", kind).unwrap();
        writeln!(w, "mgr nodes=4194304 cache=4096 threads=1 vars=32").unwrap();
        writeln!(w, "satrace 16 {}", if cfg.thorough { 12 } else { 4 }).unwrap();
    }
    let n = 3u32;
    let nf = 1u64 << (1 << n);
    let orders = perms(n);
    let tys = ["u64", "u128", "f64", "nat"];
    for (oi, order) in orders.iter().enumerate() {
        if !cfg.thorough && oi % 3 != 0 {
            continue;
        }
        writeln!(w, "case c12-n3-o{}", oi).unwrap();
        prelude(w, n, order, 1, 1024, true);
        let varss: Vec<u32> = vec![n, n + 1, n + 60, n + 61, n + 70, n + 125, 1100];
        for f in 0..nf {
            for &vars in &varss {
                for ty in tys {
                    // fresh cache, and a cache shared across handles (and across changing `vars`)
                    writeln!(w, "satcount f{} {} {}", f, vars, ty).unwrap();
                    writeln!(w, "satcount f{} {} {} cache=shared", f, vars, ty).unwrap();
                }
            }
            if f % 8 == 5 {
                // the floating-point type scales its intermediate values around vars = -MIN_EXP = 1021
                for vars in [1019u32, 1020, 1021, 1022, 1023, 1024, 1025] {
                    writeln!(w, "satcount f{} {} f64", f, vars).unwrap();
                    writeln!(w, "satcount f{} {} f64 cache=shared", f, vars).unwrap();
                }
            }
            if f % 64 == 40 && !zbdd(kind) {
                // reorder between uses of the shared cache: reordering frees and recycles node ids
                // without an explicit gc, so a cache that survives it would serve counts of other
                // functions
                let mut o2: Vec<u32> = (0..n).collect();
                rng.shuffle(&mut o2);
                writeln!(w, "order {}", order_str(&o2)).unwrap();
                for j in 0..6 {
                    writeln!(w, "op tr{}_{} {} f{} f{}", f, j, rng.pick(&BIN_OPS), rng.below(nf), rng.below(nf)).unwrap();
                    writeln!(w, "satcount tr{}_{} {} nat cache=sharedall", f, j, n).unwrap();
                    writeln!(w, "satcount tr{}_{} {} u64 cache=shared", f, j, n).unwrap();
                }
            }
            if f % 32 == 31 {
                // recycle node ids: drop temporaries, collect, rebuild
                writeln!(w, "op tmp{} xor f{} f{}", f, f, (f * 7 + 3) % nf).unwrap();
                writeln!(w, "satcount tmp{} {} nat cache=sharedall", f, n).unwrap();
                writeln!(w, "drop tmp{}", f).unwrap();
                writeln!(w, "gc").unwrap();
            }
        }
    }
    let cases = if cfg.thorough { 30 } else { 5 } * cfg.scale;
    for c in 0..cases {
        let n = rng.range(4, if zbdd(kind) { 7 } else { 10 }) as u32;
        let mut order: Vec<u32> = (0..n).collect();
        rng.shuffle(&mut order);
        writeln!(w, "case c12-rand-{}-n{}", c, n).unwrap();
        prelude(w, n, &order, 1, 256, false);
        let pool = rand_pool(w, rng, n, if cfg.thorough { 80 } else { 40 });
        for s in 0..(if cfg.thorough { 300 } else { 100 }) {
            let f = rng.pick(&pool).clone();
            let vars = *rng.pick(&[n, n, n + 1, n + 50, n + 70, 1100]);
            let ty = rng.pick(&tys);
            if rng.chance(1, 2) {
                writeln!(w, "satcount {} {} {} cache=c{}", f, vars, ty, rng.below(2)).unwrap();
            } else {
                writeln!(w, "satcount {} {} {}", f, vars, ty).unwrap();
            }
            if s % 25 == 12 && !zbdd(kind) {
                // a reordering between uses of one cache (ids are recycled without an explicit gc)
                for j in 0..4 {
                    writeln!(w, "op pre{}_{} xor {} {}", s, j, rng.pick(&pool), rng.pick(&pool)).unwrap();
                    writeln!(w, "satcount pre{}_{} {} nat cache=c0", s, j, n).unwrap();
                    writeln!(w, "satcount pre{}_{} {} nat cache=c1", s, j, n).unwrap();
                }
                for j in 0..4 {
                    writeln!(w, "drop pre{}_{}", s, j).unwrap();
                }
                rng.shuffle(&mut order);
                writeln!(w, "order {}", order_str(&order)).unwrap();
                for j in 0..4 {
                    writeln!(w, "op post{}_{} {} {} {}", s, j, rng.pick(&BIN_OPS), rng.pick(&pool), rng.pick(&pool)).unwrap();
                    writeln!(w, "satcount post{}_{} {} nat cache=c0", s, j, n).unwrap();
                    writeln!(w, "satcount post{}_{} {} nat cache=c1", s, j, n).unwrap();
                    writeln!(w, "drop post{}_{}", s, j).unwrap();
                }
            }
            if s % 25 == 24 {
                writeln!(w, "op junk{} xor {} {}", s, rng.pick(&pool), rng.pick(&pool)).unwrap();
                writeln!(w, "satcount junk{} {} nat cache=c0", s, n).unwrap();
                writeln!(w, "drop junk{}", s).unwrap();
                writeln!(w, "gc").unwrap();
            }
        }
    }
}

fn gen_c09(cfg: &GenCfg, rng: &mut Rng, w: &mut dyn Write, _kind: &str) {
    let n = 3u32;
    let nf = 1u64 << (1 << n);
    let orders = perms(n);
    for (oi, order) in orders.iter().enumerate() {
        if !cfg.thorough && oi % 2 == 1 {
            continue;
        }
        writeln!(w, "case c09-n3-o{}", oi).unwrap();
        prelude(w, n, order, 1, 1024, true);
        writeln!(w, "zconst ze empty").unwrap();
        writeln!(w, "zconst zb base").unwrap();
        for v in 0..n {
            writeln!(w, "singleton sg{} {}", v, v).unwrap();
        }
        for f in 0..nf {
            for v in 0..n {
                writeln!(w, "subset0 r f{} {}", f, v).unwrap();
                writeln!(w, "subset1 r f{} {}", f, v).unwrap();
                writeln!(w, "change r f{} {}", f, v).unwrap();
            }
            writeln!(w, "cofchk f{}", f).unwrap();
        }
        let pairs = if cfg.thorough { nf * nf } else { 6000 * cfg.scale };
        for i in 0..pairs {
            let (f, g) = if cfg.thorough { (i / nf, i % nf) } else { (rng.below(nf), rng.below(nf)) };
            for op in ["union", "intsec", "diff"] {
                writeln!(w, "{} r f{} f{}", op, f, g).unwrap();
            }
        }
    }
    // histories that add variables between operations
    let cases = if cfg.thorough { 60 } else { 10 } * cfg.scale;
    for c in 0..cases {
        let n0 = rng.range(2, 4) as u32;
        writeln!(w, "case c09-addvars-{}", c).unwrap();
        writeln!(w, "mgr nodes=65536 cache={} threads=1 vars={}", rng.pick(&[4usize, 256]), n0).unwrap();
        let mut n = n0;
        let mut pool: Vec<String> = Vec::new();
        writeln!(w, "zconst ze empty").unwrap();
        writeln!(w, "zconst zb base").unwrap();
        pool.push("ze".into());
        pool.push("zb".into());
        let mut k = 0;
        let mut past: Vec<String> = Vec::new();
        for step in 0..(if cfg.thorough { 120 } else { 60 }) {
            let name = format!("g{}", step);
            match rng.below(12) {
                0 if n < 7 => {
                    let add = rng.range(1, 2) as u32;
                    writeln!(w, "addvars {}", add).unwrap();
                    n += add;
                    // repeat earlier operations on the same (still live) operands: a memoised
                    // result from before the addition must not be served if it is no longer valid
                    for (i, l) in past.iter().rev().take(6).enumerate() {
                        writeln!(w, "{}", l.replace("@", &format!("rep{}_{}", step, i))).unwrap();
                    }
                    continue;
                }
                1 => writeln!(w, "singleton {} {}", name, rng.below(n as u64)).unwrap(),
                2 => writeln!(w, "var {} {}", name, rng.below(n as u64)).unwrap(),
                3 => writeln!(w, "const {} T", name).unwrap(),
                4 => writeln!(w, "{} {} {} {}", rng.pick(&["subset0", "subset1", "change"]), name, rng.pick(&pool), rng.below(n as u64)).unwrap(),
                5 => {
                    let l = format!("op @ not {}", rng.pick(&pool));
                    writeln!(w, "{}", l.replace("@", &name)).unwrap();
                    past.push(l);
                }
                6 => {
                    let l = format!("op @ {} {} {}", rng.pick(&BIN_OPS), rng.pick(&pool), rng.pick(&pool));
                    writeln!(w, "{}", l.replace("@", &name)).unwrap();
                    past.push(l);
                }
                7 => {
                    k += 1;
                    let mut l = format!("cube k{}", k);
                    for v in 0..n {
                        match rng.below(4) {
                            0 => l.push_str(&format!(" +{}", v)),
                            1 => l.push_str(&format!(" -{}", v)),
                            _ => {}
                        }
                    }
                    writeln!(w, "{}", l).unwrap();
                    let f = rng.pick(&pool).clone();
                    writeln!(w, "restrict {} {} k{}", name, f, k).unwrap();
                    past.push(format!("restrict @ {} k{}", f, k));
                }
                _ => {
                    let l = format!("{} @ {} {}", rng.pick(&["union", "intsec", "diff"]), rng.pick(&pool), rng.pick(&pool));
                    writeln!(w, "{}", l.replace("@", &name)).unwrap();
                    past.push(l);
                }
            }
            pool.push(name);
        }
    }
}

/// knobs of the random history generator
struct Hist {
    steps: usize,
    /// emit `dump` (reference counts of all stored nodes) every k steps (0 = never)
    dump_every: usize,
    audit_every: usize,
    count_every: usize,
    nodes_every: usize,
    reorder: bool,
    addvars: bool,
    gc_prob: u64,
    quant: bool,
}

/// one random history: a pool of live handles, operations, clone/drop, gc, add_vars, set_var_order
fn history(w: &mut dyn Write, rng: &mut Rng, kind: &str, mut n: u32, hcfg: &Hist, max_n: u32) {
    let z = zbdd(kind);
    let mut pool: Vec<String> = Vec::new();
    let mut next = 0usize;
    let mut fresh = |pool: &mut Vec<String>| {
        next += 1;
        let name = format!("h{}", next);
        pool.push(name.clone());
        name
    };
    for v in 0..n {
        let name = fresh(&mut pool);
        writeln!(w, "var {} {}", name, v).unwrap();
    }
    let quants = ["forall", "exists", "unique"];
    let mut nsub = 0;
    for step in 0..hcfg.steps {
        if pool.len() < 2 {
            let name = fresh(&mut pool);
            writeln!(w, "{} {} {}", if rng.chance(1, 2) { "var" } else { "notvar" }, name, rng.below(n as u64)).unwrap();
            let name = fresh(&mut pool);
            writeln!(w, "const {} {}", name, if rng.chance(1, 2) { "T" } else { "F" }).unwrap();
        }
        let k = rng.below(100);
        if k < 38 {
            let name = fresh(&mut pool);
            let (a, b) = (rng.pick(&pool[..pool.len() - 1]).clone(), rng.pick(&pool[..pool.len() - 1]).clone());
            writeln!(w, "op {} {} {} {}", name, rng.pick(&BIN_OPS), a, b).unwrap();
        } else if k < 43 {
            let name = fresh(&mut pool);
            let a = rng.pick(&pool[..pool.len() - 1]).clone();
            writeln!(w, "op {} not {}", name, a).unwrap();
        } else if k < 50 {
            let name = fresh(&mut pool);
            let m = pool.len() - 1;
            let (a, b, c) = (rng.pick(&pool[..m]).clone(), rng.pick(&pool[..m]).clone(), rng.pick(&pool[..m]).clone());
            writeln!(w, "op {} ite {} {} {}", name, a, b, c).unwrap();
        } else if k < 56 && n <= 5 {
            // rebuild a live function from its truth table by another route is done by the
            // scenario's canonicity oracle; here: a fresh random function by route A or B
            let name = fresh(&mut pool);
            let bits = 1u32 << n;
            let val: u128 = if bits >= 128 { (rng.next() as u128) << 64 | rng.next() as u128 } else { ((rng.next() as u128) << 64 | rng.next() as u128) & ((1u128 << bits) - 1) };
            writeln!(w, "{} {} {:x}", if rng.chance(1, 2) { "tt" } else { "ttb" }, name, val).unwrap();
        } else if k < 62 && hcfg.quant && !z {
            let cube = fresh(&mut pool);
            let mut l = format!("cube {}", cube);
            for v in 0..n {
                if rng.chance(1, 3) {
                    l.push_str(&format!(" +{}", v));
                }
            }
            writeln!(w, "{}", l).unwrap();
            let name = fresh(&mut pool);
            let m = pool.len() - 2;
            if rng.chance(1, 2) {
                writeln!(w, "quant {} {} {} {}", name, rng.pick(&quants), rng.pick(&pool[..m]), cube).unwrap();
            } else {
                writeln!(w, "applyq {} {} {} {} {} {}", name, rng.pick(&quants), rng.pick(&BIN_OPS), rng.pick(&pool[..m]), rng.pick(&pool[..m]), cube).unwrap();
            }
        } else if k < 66 && hcfg.quant {
            let cube = fresh(&mut pool);
            let mut l = format!("cube {}", cube);
            for v in 0..n {
                match rng.below(4) {
                    0 => l.push_str(&format!(" +{}", v)),
                    1 => l.push_str(&format!(" -{}", v)),
                    _ => {}
                }
            }
            writeln!(w, "{}", l).unwrap();
            let name = fresh(&mut pool);
            let m = pool.len() - 2;
            if rng.chance(1, 2) {
                writeln!(w, "restrict {} {} {}", name, rng.pick(&pool[..m]), cube).unwrap();
            } else {
                writeln!(w, "pickset {} {} {}", name, rng.pick(&pool[..m]), cube).unwrap();
            }
        } else if k < 69 && hcfg.quant && !z {
            nsub += 1;
            let mut m = format!("mksubst s{}", nsub);
            let mut any = false;
            for v in 0..n {
                if rng.chance(1, 3) {
                    m.push_str(&format!(" {}={}", v, rng.pick(&pool)));
                    any = true;
                }
            }
            if !any {
                m.push_str(&format!(" 0={}", rng.pick(&pool)));
            }
            writeln!(w, "{}", m).unwrap();
            let a = rng.pick(&pool).clone();
            let name = fresh(&mut pool);
            writeln!(w, "subst {} {} s{}", name, a, nsub).unwrap();
            writeln!(w, "dropsubst s{}", nsub).unwrap();
        } else if k < 72 {
            let a = rng.pick(&pool).clone();
            let name = fresh(&mut pool);
            writeln!(w, "pick {} {} {:0width$b}", name, a, rng.below(1 << n), width = n as usize).unwrap();
        } else if k < 77 {
            let a = rng.pick(&pool).clone();
            let name = fresh(&mut pool);
            writeln!(w, "clone {} {}", name, a).unwrap();
        } else if k < 90 {
            let i = rng.below(pool.len() as u64) as usize;
            let name = pool.swap_remove(i);
            writeln!(w, "drop {}", name).unwrap();
        } else if k < 90 + hcfg.gc_prob {
            writeln!(w, "gc").unwrap();
        } else if k < 96 && hcfg.addvars && n < max_n {
            let add = rng.range(1, 2) as u32;
            writeln!(w, "addvars {}", add).unwrap();
            n += add;
        } else if k < 99 && hcfg.reorder && !z {
            let mut order: Vec<u32> = (0..n).collect();
            rng.shuffle(&mut order);
            writeln!(w, "order {}", order_str(&order)).unwrap();
        } else {
            let (a, b) = (rng.pick(&pool).clone(), rng.pick(&pool).clone());
            writeln!(w, "eq {} {}", a, b).unwrap();
        }
        if hcfg.nodes_every != 0 && step % hcfg.nodes_every == 0 {
            writeln!(w, "rcchk").unwrap();
        }
        if hcfg.dump_every != 0 && step % hcfg.dump_every == 0 {
            // reference counts of every stored node: with garbage present (oracle only) and,
            // after a collection, compared with the model's store
            writeln!(w, "rcchk").unwrap();
            if step % (3 * hcfg.dump_every) == 0 {
                writeln!(w, "gc").unwrap();
                writeln!(w, "dump").unwrap();
            }
        }
        if hcfg.audit_every != 0 && step % hcfg.audit_every == 0 {
            writeln!(w, "audit").unwrap();
        }
        if hcfg.count_every != 0 && step % hcfg.count_every == 0 {
            writeln!(w, "count {}", rng.pick(&pool)).unwrap();
        }
    }
    // drop everything: the manager must return to its initial node count (C05)
    writeln!(w, "dropall").unwrap();
    writeln!(w, "gc").unwrap();
    writeln!(w, "dump").unwrap();
}

/// a collection that frees more than one allocation chunk (65536 nodes) at once, followed by
/// re-allocation of at least as many nodes: recycled slots must not be handed out twice
fn big_gc_case(rng: &mut Rng, w: &mut dyn Write, kind: &str) {
    let n = 12u32;
    writeln!(w, "case c05-biggc-{}", kind).unwrap();
    writeln!(w, "mgr nodes=1048576 cache=4096 threads=1 vars={}", n).unwrap();
    for round in 0..2 {
        let mut pool: Vec<String> = Vec::new();
        for v in (if zbdd(kind) { 7 } else { 6 })..n {
            writeln!(w, "var x{}_{} {}", round, v, v).unwrap();
            writeln!(w, "notvar nx{}_{} {}", round, v, v).unwrap();
            pool.push(format!("x{}_{}", round, v));
            pool.push(format!("nx{}_{}", round, v));
        }
        // the second round allocates more nodes than the collection freed
        let steps = if zbdd(kind) { 22000 } else { 30000 } * (if round == 0 { 2 } else { 3 }) / 2;
        for s in 0..steps {
            let name = format!("g{}_{}", round, s);
            let lo = pool.len().saturating_sub(3000);
            writeln!(w, "op {} {} {} {}", name, rng.pick(&BIN_OPS), rng.pick(&pool[lo..]), rng.pick(&pool)).unwrap();
            pool.push(name);
        }
        writeln!(w, "nodes").unwrap();
        for _ in 0..40 {
            writeln!(w, "show {}", rng.pick(&pool)).unwrap();
        }
        writeln!(w, "dropall").unwrap();
        writeln!(w, "gc").unwrap();
    }
    writeln!(w, "dump").unwrap();
}

fn gen_hist(cfg: &GenCfg, rng: &mut Rng, w: &mut dyn Write, kind: &str, suite: &str) {
    if suite == "c05" && (cfg.thorough || kind == "bdd") {
        big_gc_case(rng, w, kind);
    }
    let cases = match (suite, cfg.thorough) {
        (_, false) => 40,
        (_, true) => 600,
    } * cfg.scale;
    for c in 0..cases {
        let n = if c % 3 == 0 { 3 } else { rng.range(2, 5) as u32 };
        let threads = *rng.pick(&[1u32, 1, 1, 4]);
        let cache = *rng.pick(&[1usize, 2, 16, 65536]);
        let hcfg = match suite {
            "c01" => Hist { steps: if cfg.thorough { 300 } else { 200 }, dump_every: 0, audit_every: 0, count_every: 10, nodes_every: 0, reorder: true, addvars: true, gc_prob: 3, quant: true },
            "c03" => Hist { steps: if cfg.thorough { 250 } else { 150 }, dump_every: 0, audit_every: 1, count_every: 2, nodes_every: 0, reorder: true, addvars: true, gc_prob: 3, quant: true },
            "c05" => Hist { steps: if cfg.thorough { 250 } else { 150 }, dump_every: 2, audit_every: 0, count_every: 0, nodes_every: 1, reorder: true, addvars: true, gc_prob: 5, quant: true },
            _ => panic!("suite"),
        };
        writeln!(w, "case {}-{}-n{}-t{}-c{}", suite, c, n, threads, cache).unwrap();
        writeln!(w, "mgr nodes=65536 cache={} threads={} vars={}", cache, threads, n).unwrap();
        if rng.chance(1, 2) {
            let mut order: Vec<u32> = (0..n).collect();
            rng.shuffle(&mut order);
            writeln!(w, "order {}", order_str(&order)).unwrap();
        }
        history(w, rng, kind, n, &hcfg, 6);
    }
}

/// C06: the same history under cache capacities {1, 2, 16, large}; different operators on the
/// same operands in sequence; gc / reorder / add_vars between repetitions
fn gen_c06(cfg: &GenCfg, rng: &mut Rng, w: &mut dyn Write, kind: &str) {
    let cases = if cfg.thorough { 150 } else { 14 } * cfg.scale;
    for c in 0..cases {
        let n = rng.range(3, 5) as u32;
        let seed = rng.next();
        for cache in [1usize, 2, 16, 65536] {
            let mut r2 = Rng(seed);
            writeln!(w, "case c06-{}-n{}-c{}", c, n, cache).unwrap();
            writeln!(w, "mgr nodes=65536 cache={} threads=1 vars={}", cache, n).unwrap();
            // warm-up or not: the first repetition runs on a fresh cache, later ones on a warm one
            let hcfg = Hist { steps: if cfg.thorough { 120 } else { 80 }, dump_every: 0, audit_every: 0, count_every: 0, nodes_every: 5, reorder: true, addvars: true, gc_prob: 4, quant: true };
            history(w, &mut r2, kind, n, &hcfg, 6);
            // a different operator on the same operands, all ordered pairs of operators
            for v in 0..n {
                writeln!(w, "var y{} {}", v, v).unwrap();
            }
            let mut pool: Vec<String> = (0..n).map(|v| format!("y{v}")).collect();
            for s in 0..12 {
                let name = format!("z{s}");
                writeln!(w, "op {} {} {} {}", name, r2.pick(&BIN_OPS), r2.pick(&pool), r2.pick(&pool)).unwrap();
                pool.push(name);
            }
            for _ in 0..30 {
                let (a, b) = (r2.pick(&pool).clone(), r2.pick(&pool).clone());
                let (o1, o2) = (r2.pick(&BIN_OPS), r2.pick(&BIN_OPS));
                writeln!(w, "op r1 {} {} {}", o1, a, b).unwrap();
                writeln!(w, "op r2 {} {} {}", o2, a, b).unwrap();
                writeln!(w, "op r3 {} {} {}", o1, a, b).unwrap();
                match r2.below(6) {
                    0 => writeln!(w, "gc").unwrap(),
                    1 if !zbdd(kind) => {
                        let mut order: Vec<u32> = (0..n).collect();
                        r2.shuffle(&mut order);
                        writeln!(w, "order {}", order_str(&order)).unwrap();
                    }
                    _ => {}
                }
                writeln!(w, "op r4 {} {} {}", o2, a, b).unwrap();
            }
            // the same operation with a larger and then a smaller variable set / cube (and vice
            // versa): an entry memoised for one operand tuple must not be served for another
            let n_now = n; // (the history above may have added variables; sets use the first n)
            for i in 0..10 {
                let f = r2.pick(&pool).clone();
                let g = r2.pick(&pool).clone();
                let big: Vec<u32> = (0..n_now).filter(|_| r2.chance(2, 3)).collect();
                let small: Vec<u32> = big.iter().copied().filter(|_| r2.chance(1, 2)).collect();
                let set = |vs: &Vec<u32>| vs.iter().map(|v| format!(" +{}", v)).collect::<String>();
                writeln!(w, "cube vb{}{}", i, set(&big)).unwrap();
                writeln!(w, "cube vs{}{}", i, set(&small)).unwrap();
                let lits = |vs: &Vec<u32>, r: &mut Rng| vs.iter().map(|v| format!(" {}{}", if r.chance(1, 2) { "+" } else { "-" }, v)).collect::<String>();
                let lb = lits(&big, &mut r2);
                // the sub-cube keeps the polarity of the literals it shares
                let ls: String = lb.split_whitespace().filter(|l| small.contains(&l[1..].parse::<u32>().unwrap())).map(|l| format!(" {}", l)).collect();
                writeln!(w, "cube cb{}{}", i, lb).unwrap();
                writeln!(w, "cube cs{}{}", i, ls).unwrap();
                let (first, second) = if r2.chance(1, 2) { ("b", "s") } else { ("s", "b") };
                if !zbdd(kind) && i == 0 && cache == 16 {
                    // the numeric key component of `substitute`: identifiers handed out concurrently
                    writeln!(w, "substids 2 {} {} {}", if cfg.thorough { 20000 } else { 4000 }, f, r2.below(n_now as u64)).unwrap();
                }
                if !zbdd(kind) {
                    for q in ["exists", "forall", "unique"] {
                        writeln!(w, "quant r1 {} {} v{}{}", q, f, first, i).unwrap();
                        writeln!(w, "quant r2 {} {} v{}{}", q, f, second, i).unwrap();
                        let op = r2.pick(&BIN_OPS);
                        writeln!(w, "applyq r3 {} {} {} {} v{}{}", q, op, f, g, first, i).unwrap();
                        writeln!(w, "applyq r4 {} {} {} {} v{}{}", q, op, f, g, second, i).unwrap();
                    }
                }
                writeln!(w, "restrict r5 {} c{}{}", f, first, i).unwrap();
                writeln!(w, "restrict r6 {} c{}{}", f, second, i).unwrap();
                if i % 3 == 2 {
                    // variable addition between repetitions (the operands stay alive)
                    writeln!(w, "addvars 1").unwrap();
                    writeln!(w, "restrict r7 {} c{}{}", f, first, i).unwrap();
                    writeln!(w, "restrict r8 {} c{}{}", f, second, i).unwrap();
                    writeln!(w, "op r9 not {}", f).unwrap();
                }
            }
        }
    }
}

/// all ordered subsets (partial orders) of `0..n`
fn partial_orders(n: u32) -> Vec<Vec<u32>> {
    let mut out = vec![vec![]];
    fn go(cur: &mut Vec<u32>, n: u32, out: &mut Vec<Vec<u32>>) {
        for v in 0..n {
            if !cur.contains(&v) {
                cur.push(v);
                out.push(cur.clone());
                go(cur, n, out);
                cur.pop();
            }
        }
    }
    go(&mut Vec::new(), n, &mut out);
    out
}

/// ZBDD reordering with live nodes (repaired by /repo 5b59c5c; before, known finding
/// KF-zbdd-reorder): every source order over 3 variables with all 256 families alive and a chain
/// through all total and partial target orders; sampled families over 4 and 5 variables
fn gen_c08z(cfg: &GenCfg, rng: &mut Rng, w: &mut dyn Write, kind: &str) {
    let n = 3u32;
    let mut targets = partial_orders(n);
    for (oi, src) in perms(n).iter().enumerate() {
        if !cfg.thorough && oi % 2 == 1 {
            continue;
        }
        writeln!(w, "case c08z-n3-src{}", oi).unwrap();
        prelude(w, n, src, 1, 256, true);
        rng.shuffle(&mut targets);
        for (ti, t) in targets.iter().enumerate() {
            writeln!(w, "order {} seq=1", order_str(t)).unwrap();
            for _ in 0..12 {
                writeln!(w, "show f{}", rng.below(256)).unwrap();
            }
            for _ in 0..6 {
                writeln!(w, "op r {} f{} f{}", rng.pick(&BIN_OPS), rng.below(256), rng.below(256)).unwrap();
            }
            writeln!(w, "count f{}", rng.below(256)).unwrap();
            if ti % 4 == 3 {
                writeln!(w, "gc").unwrap();
                writeln!(w, "dump").unwrap();
            }
        }
    }
    for n in [4u32, 5] {
        let srcs = perms(n);
        let ncases = if cfg.thorough { 24 } else { 4 };
        for ci in 0..ncases {
            let src = &srcs[rng.below(srcs.len() as u64) as usize];
            writeln!(w, "case c08z-n{}-{}", n, ci).unwrap();
            prelude(w, n, src, 1, 1024, false);
            let nfun = if cfg.thorough { 200 } else { 60 };
            for f in 0..nfun {
                writeln!(w, "tt f{} {:x}", f, rng.below(1u64 << (1 << n))).unwrap();
            }
            for _ in 0..(if cfg.thorough { 12 } else { 5 }) {
                let mut t: Vec<u32> = (0..n).collect();
                rng.shuffle(&mut t);
                writeln!(w, "order {} seq=1", order_str(&t)).unwrap();
                for _ in 0..10 {
                    writeln!(w, "show f{}", rng.below(nfun)).unwrap();
                }
                for _ in 0..4 {
                    writeln!(w, "op r {} f{} f{}", rng.pick(&BIN_OPS), rng.below(nfun), rng.below(nfun)).unwrap();
                }
                if rng.chance(1, 3) {
                    writeln!(w, "gc").unwrap();
                    writeln!(w, "dump").unwrap();
                }
            }
        }
    }
    let _ = kind;
}

fn gen_c08(cfg: &GenCfg, rng: &mut Rng, w: &mut dyn Write, kind: &str) {
    if zbdd(kind) {
        // ZBDD reordering of live nodes is a known finding (own stream `kf-zbdd-reorder`);
        // reordering an empty ZBDD manager and building afterwards is covered by the preludes
        for (oi, order) in perms(3).iter().enumerate() {
            writeln!(w, "case c08-zbdd-empty-o{}", oi).unwrap();
            prelude(w, 3, order, 1, 256, true);
            for f in (0..256).step_by(5) {
                writeln!(w, "show f{}", f).unwrap();
            }
        }
        return;
    }
    // n = 3: every source order, all 256 functions alive, a chain through all partial and total targets
    let n = 3u32;
    let mut targets = partial_orders(n);
    for (oi, src) in perms(n).iter().enumerate() {
        if !cfg.thorough && oi % 2 == 1 {
            continue;
        }
        for seq in [0, 1] {
            if seq == 1 && !cfg.thorough && oi != 0 {
                continue;
            }
            writeln!(w, "case c08-n3-src{}-seq{}", oi, seq).unwrap();
            prelude(w, n, src, if seq == 1 { 1 } else { 2 }, 256, true);
            rng.shuffle(&mut targets);
            for (ti, t) in targets.iter().enumerate() {
                writeln!(w, "order {} seq={}", order_str(t), seq).unwrap();
                for _ in 0..12 {
                    writeln!(w, "show f{}", rng.below(256)).unwrap();
                }
                // subsequent operations, collections and further reorderings behave as on a
                // freshly built diagram
                for _ in 0..6 {
                    writeln!(w, "op r {} f{} f{}", rng.pick(&BIN_OPS), rng.below(256), rng.below(256)).unwrap();
                }
                writeln!(w, "count f{}", rng.below(256)).unwrap();
                if ti % 4 == 3 {
                    writeln!(w, "gc").unwrap();
                    writeln!(w, "dump").unwrap();
                }
            }
        }
    }
    // n = 4: sampled functions, all source x sampled targets
    let n = 4u32;
    let targets = partial_orders(n);
    let srcs = perms(n);
    let ncases = if cfg.thorough { srcs.len() } else { 4 };
    for ci in 0..ncases {
        let src = &srcs[if cfg.thorough { ci } else { rng.below(srcs.len() as u64) as usize }];
        writeln!(w, "case c08-n4-{}", ci).unwrap();
        prelude(w, n, src, 1, 256, false);
        let nfun = if cfg.thorough { 400 } else { 120 };
        for f in 0..nfun {
            writeln!(w, "{} f{} {:x}", if f % 2 == 0 { "tt" } else { "ttb" }, f, rng.below(1 << 16)).unwrap();
        }
        for _ in 0..(if cfg.thorough { 30 } else { 10 }) {
            writeln!(w, "order {}", order_str(&targets[rng.below(targets.len() as u64) as usize])).unwrap();
            for _ in 0..8 {
                writeln!(w, "show f{}", rng.below(nfun)).unwrap();
            }
            writeln!(w, "op r {} f{} f{}", rng.pick(&BIN_OPS), rng.below(nfun), rng.below(nfun)).unwrap();
            if rng.chance(1, 3) {
                writeln!(w, "gc").unwrap();
                writeln!(w, "dump").unwrap();
            }
        }
    }
    // random orders on 5..10 variables with random live functions, chains mixed with operations and gc
    let cases = if cfg.thorough { 40 } else { 6 } * cfg.scale;
    for c in 0..cases {
        let n = rng.range(5, 10) as u32;
        let mut order: Vec<u32> = (0..n).collect();
        rng.shuffle(&mut order);
        writeln!(w, "case c08-rand-{}-n{}", c, n).unwrap();
        prelude(w, n, &order, *rng.pick(&[1u32, 4]), 1024, false);
        let mut pool = rand_pool(w, rng, n, if cfg.thorough { 120 } else { 60 });
        for s in 0..(if cfg.thorough { 40 } else { 15 }) {
            let k = rng.range(0, n as u64) as usize;
            rng.shuffle(&mut order);
            writeln!(w, "order {}{}", order_str(&order[..k]), if rng.chance(1, 4) { " seq=1" } else { "" }).unwrap();
            for _ in 0..5 {
                writeln!(w, "show {}", rng.pick(&pool)).unwrap();
            }
            // a model-count cache kept across the reorderings (they recycle node ids, so the
            // manager must invalidate it: `Manager::reorder` bumps the collection counter)
            for _ in 0..3 {
                writeln!(w, "satcount {} {} nat cache={}", rng.pick(&pool), n, if rng.chance(1, 2) { "shared" } else { "sharedall" }).unwrap();
            }
            for j in 0..4 {
                let name = format!("p{}_{}", s, j);
                writeln!(w, "op {} {} {} {}", name, rng.pick(&BIN_OPS), rng.pick(&pool), rng.pick(&pool)).unwrap();
                pool.push(name);
            }
            if rng.chance(1, 3) {
                let i = rng.below(pool.len() as u64) as usize;
                writeln!(w, "drop {}", pool.swap_remove(i)).unwrap();
                writeln!(w, "gc").unwrap();
            }
        }
    }
    // sparse diagrams: most levels are empty, partial orders whose number of named variables
    // coincides (or not) with the number of non-empty levels, empty levels that have to move
    let cases = if cfg.thorough { 400 } else { 60 } * cfg.scale;
    for c in 0..cases {
        let n = rng.range(3, 7) as u32;
        writeln!(w, "case c08-sparse-{}-n{}", c, n).unwrap();
        writeln!(w, "mgr nodes=65536 cache=64 threads={} vars={}", rng.pick(&[1u32, 2]), n).unwrap();
        // nodes on k levels only
        let k = rng.range(1, 3.min(n as u64)) as usize;
        let mut vs: Vec<u32> = (0..n).collect();
        rng.shuffle(&mut vs);
        let used = &vs[..k];
        let mut pool = Vec::new();
        for &v in used {
            writeln!(w, "var x{} {}", v, v).unwrap();
            pool.push(format!("x{v}"));
        }
        for j in 0..rng.range(0, 3) {
            let name = format!("g{j}");
            writeln!(w, "op {} {} {} {}", name, rng.pick(&BIN_OPS), rng.pick(&pool), rng.pick(&pool)).unwrap();
            pool.push(name);
        }
        for _ in 0..rng.range(1, 4) {
            // a partial order: often exactly as many named variables as non-empty levels
            let len = if rng.chance(1, 2) { k } else { rng.range(0, n as u64) as usize };
            let mut o: Vec<u32> = (0..n).collect();
            rng.shuffle(&mut o);
            writeln!(w, "order {}{}", order_str(&o[..len]), if rng.chance(1, 5) { " seq=1" } else { "" }).unwrap();
            for h in &pool {
                writeln!(w, "show {}", h).unwrap();
            }
        }
    }
    // a big store (>= 2^19 nodes, so that also the manager's lagging approximate count is over the
    // 65536 threshold) on a manager with worker threads: `set_var_order` takes its concurrent path
    // (parallel swaps, parallel write-back of the level numbers). Variable 0 is declared but unused,
    // so the first reordering moves a non-empty level into the position of an empty one. Only
    // adjacent pairs are exchanged (no size explosion).
    if kind == "bdd" || cfg.thorough {
        let n = 18u32;
        writeln!(w, "case c08-big-concurrent").unwrap();
        writeln!(w, "mgr nodes=8388608 cache=65536 threads=4 vars={}", n).unwrap();
        writeln!(w, "ballast {} {} 1 {}", if cfg.thorough { 900000 } else { 560000 }, rng.below(1 << 30), n).unwrap();
        let mut pool: Vec<String> = Vec::new();
        for v in 1..n {
            writeln!(w, "var x{} {}", v, v).unwrap();
            pool.push(format!("x{v}"));
        }
        // (truth tables over 18 variables are big: only a few tracked handles)
        for v in 1..n {
            if v % 3 != 1 {
                writeln!(w, "drop x{}", v).unwrap();
            }
        }
        pool.retain(|h| h[1..].parse::<u32>().unwrap() % 3 == 1);
        for s in 0..6 {
            let name = format!("g{s}");
            writeln!(w, "op {} {} {} {}", name, rng.pick(&BIN_OPS), rng.pick(&pool), rng.pick(&pool)).unwrap();
            pool.push(name);
        }
        writeln!(w, "nodes").unwrap();
        let pairs: &[(u32, u32)] = if cfg.thorough { &[(1, 0), (6, 5), (17, 16), (3, 2), (0, 1)] } else { &[(1, 0), (17, 16)] };
        for (a, b) in pairs {
            writeln!(w, "order {} {}", a, b).unwrap();
            for h in &pool {
                writeln!(w, "show {}", h).unwrap();
            }
        }
        writeln!(w, "audit").unwrap();
        writeln!(w, "bigcount 3").unwrap();
        writeln!(w, "op q0 {} {} {}", rng.pick(&BIN_OPS), rng.pick(&pool), rng.pick(&pool)).unwrap();
        writeln!(w, "dropballast").unwrap();
    }
    // many threads with >= 65536 nodes: this is what switches on the concurrent bubble sort
    if cfg.thorough {
        let n = 12u32;
        writeln!(w, "case c08-concurrent").unwrap();
        writeln!(w, "mgr nodes=1048576 cache=65536 threads=8 vars={}", n).unwrap();
        let mut pool: Vec<String> = Vec::new();
        for v in 6..n {
            writeln!(w, "var x{} {}", v, v).unwrap();
            writeln!(w, "notvar nx{} {}", v, v).unwrap();
            pool.push(format!("x{v}"));
            pool.push(format!("nx{v}"));
        }
        for s in 0..45000 {
            let name = format!("g{s}");
            let lo = pool.len().saturating_sub(4000);
            writeln!(w, "op {} {} {} {}", name, rng.pick(&BIN_OPS), rng.pick(&pool[lo..]), rng.pick(&pool)).unwrap();
            pool.push(name);
        }
        writeln!(w, "nodes").unwrap();
        for _ in 0..3 {
            let mut order: Vec<u32> = (0..n).collect();
            rng.shuffle(&mut order);
            writeln!(w, "order {}", order_str(&order)).unwrap();
            for _ in 0..30 {
                writeln!(w, "show {}", rng.pick(&pool)).unwrap();
            }
        }
    }
}

/// C14: scripted operations under every capacity 0..C_max (capped + reference manager)
fn gen_c14(cfg: &GenCfg, rng: &mut Rng, w: &mut dyn Write, kind: &str) {
    let scripts = if cfg.thorough { 24 } else { 6 } * cfg.scale;
    for sc in 0..scripts {
        let n = rng.range(3, 4) as u32;
        let seed = rng.next();
        let cmax = if cfg.thorough { 60 } else { 40 };
        let step = if cfg.thorough { 1 } else { 3 };
        let threads = if sc % 5 == 4 { 4 } else { 1 };
        // ZBDD managers keep a tautology chain of one node per variable; variable creation itself
        // aborts when it does not fit (known finding, stream `kf-zbdd-addvars-oom`)
        let mut cap = if zbdd(kind) { n as usize } else { 0 };
        while cap <= cmax {
            let mut r2 = Rng(seed);
            writeln!(w, "case c14-s{}-cap{}-t{}", sc, cap, threads).unwrap();
            writeln!(w, "mgr nodes={} cache=16 threads={} vars={}", cap, threads, n).unwrap();
            let hcfg = Hist { steps: 45, dump_every: 0, audit_every: 0, count_every: 0, nodes_every: 9, reorder: false, addvars: false, gc_prob: 2, quant: true };
            history(w, &mut r2, kind, n, &hcfg, 4);
            // once space has been freed the same kind of operations succeed again
            writeln!(w, "var y0 0").unwrap();
            writeln!(w, "var y1 1").unwrap();
            writeln!(w, "op y2 and y0 y1").unwrap();
            cap += step;
        }
    }
}

/// known finding: ZBDD reordering with live nodes (own process: it may abort)
fn gen_kf_zbdd_reorder(w: &mut dyn Write) {
    writeln!(w, "case kf-zbdd-reorder-1").unwrap();
    writeln!(w, "mgr nodes=4096 cache=64 threads=1 vars=3").unwrap();
    writeln!(w, "tt f1 14").unwrap();
    writeln!(w, "order 0 2 1").unwrap();
    writeln!(w, "show f1").unwrap();
}

/// known finding: ZBDD add_vars aborts the process when the tautology chain does not fit
fn gen_kf_zbdd_addvars_oom(w: &mut dyn Write) {
    writeln!(w, "case kf-zbdd-addvars-oom-1").unwrap();
    writeln!(w, "mgr nodes=2 cache=64 threads=1 vars=3").unwrap();
    writeln!(w, "const t T").unwrap();
}

/// known finding: set_var_order aborts the process when the store is full
fn gen_kf_reorder_oom(w: &mut dyn Write) {
    writeln!(w, "case kf-reorder-oom-1").unwrap();
    writeln!(w, "mgr nodes=7 cache=64 threads=1 vars=3").unwrap();
    writeln!(w, "tt f1 e8").unwrap();
    writeln!(w, "gc").unwrap();
    writeln!(w, "tt f2 96").unwrap();
    writeln!(w, "nodes").unwrap();
    writeln!(w, "order 2 1 0").unwrap();
    writeln!(w, "show f1").unwrap();
}

/// collections racing with operations whose results die immediately and whose keys repeat: a
/// memoised result must never survive the collection that frees it
fn gc_race_case(cfg: &GenCfg, rng: &mut Rng, w: &mut dyn Write, kind: &str, idx: usize) {
    let n = 14u32;
    let low = 9u32; // operands live on the bottom variables low..n; the ballast spreads over all levels
    writeln!(w, "case c07-gcrace-{}-{}", kind, idx).unwrap();
    writeln!(w, "mgr nodes=4194304 cache=4096 threads=4 split=auto vars={}", n).unwrap();
    writeln!(w, "ballast {} {} 0 {}", if cfg.thorough { 1200000 } else { 350000 }, rng.below(1 << 30), n - 2).unwrap();
    let mut pool: Vec<String> = Vec::new();
    for v in low..n {
        writeln!(w, "var x{} {}", v, v).unwrap();
        pool.push(format!("x{v}"));
    }
    for s in 0..24 {
        let name = format!("p{s}");
        writeln!(w, "op {} {} {} {}", name, rng.pick(&BIN_OPS), rng.pick(&pool), rng.pick(&pool)).unwrap();
        pool.push(name);
    }
    // a small set of keys that every thread keeps recomputing
    let keys: Vec<String> = (0..12).map(|_| format!("{} {} {}", rng.pick(&BIN_OPS), rng.pick(&pool), rng.pick(&pool))).collect();
    for round in 0..(if cfg.thorough { 6 } else { 2 }) {
        let mut seqs: Vec<Vec<String>> = vec![Vec::new(); 4];
        for _ in 0..(if cfg.thorough { 60 } else { 40 }) {
            seqs[0].push("t0:pargc".into());
        }
        for t in 1..4 {
            for i in 0..(if cfg.thorough { 150 } else { 90 }) {
                let k = rng.pick(&keys);
                seqs[t].push(format!("t{}:op t{}_tmp{} {}", t, t, i % 3, k));
                if i % 3 == 2 {
                    // results die: the next collection frees them while their keys stay hot
                    seqs[t].push(format!("t{}:drop t{}_tmp0", t, t));
                    seqs[t].push(format!("t{}:drop t{}_tmp1", t, t));
                    seqs[t].push(format!("t{}:drop t{}_tmp2", t, t));
                }
            }
        }
        let mut idxs = vec![0usize; 4];
        let mut items: Vec<String> = Vec::new();
        loop {
            let live: Vec<usize> = (0..4).filter(|&t| idxs[t] < seqs[t].len()).collect();
            if live.is_empty() {
                break;
            }
            let t = *rng.pick(&live);
            items.push(seqs[t][idxs[t]].clone());
            idxs[t] += 1;
        }
        writeln!(w, "par {}", items.join(" ; ")).unwrap();
        writeln!(w, "audit").unwrap();
        for k in &keys {
            writeln!(w, "op chk{} {}", round, k).unwrap();
        }
    }
    writeln!(w, "dropballast").unwrap();
    writeln!(w, "dropall").unwrap();
    writeln!(w, "gc").unwrap();
    writeln!(w, "dump").unwrap();
}

/// C07: several application threads run operation scripts concurrently on one manager
fn gen_c07(cfg: &GenCfg, rng: &mut Rng, w: &mut dyn Write, kind: &str) {
    if kind == "bdd" || (cfg.thorough && !zbdd(kind)) {
        for i in 0..(if cfg.thorough { 3 } else { 1 }) {
            gc_race_case(cfg, rng, w, kind, i);
        }
    }
    if !zbdd(kind) {
        // a model-count cache kept across a large collection running on another thread
        writeln!(w, "case c07-satrace-{}", kind).unwrap();
        writeln!(w, "mgr nodes=4194304 cache=4096 threads=1 vars=32").unwrap();
        writeln!(w, "satrace 16 {}", if cfg.thorough { 12 } else { 4 }).unwrap();
    }
    let z = zbdd(kind);
    let quants = ["forall", "exists", "unique"];
    let cases = if cfg.thorough { 300 } else { 40 } * cfg.scale;
    for c in 0..cases {
        let stress = c % 8 == 7;
        let n = if stress { if z { 9 } else { rng.range(12, 14) as u32 } } else { rng.range(4, if z { 7 } else { 8 }) as u32 };
        let workers = *rng.pick(&[2u32, 4, 8, 16]);
        let split = *rng.pick(&["0", "1", "auto", "64"]);
        writeln!(w, "case c07-{}-n{}-w{}-s{}", c, n, workers, split).unwrap();
        writeln!(w, "mgr nodes=1048576 cache={} threads={} split={} vars={}", rng.pick(&[16usize, 4096]), workers, split, n).unwrap();
        let pool = rand_pool(w, rng, n, if stress { 150 } else { 40 });
        // variable sets / cubes shared by all threads
        let mut sets = Vec::new();
        for s in 0..6 {
            let mut l = format!("cube vs{}", s);
            let mut l2 = format!("cube cb{}", s);
            for v in 0..n {
                if rng.chance(1, 3) {
                    l.push_str(&format!(" +{}", v));
                }
                match rng.below(4) {
                    0 => l2.push_str(&format!(" +{}", v)),
                    1 => l2.push_str(&format!(" -{}", v)),
                    _ => {}
                }
            }
            writeln!(w, "{}", l).unwrap();
            writeln!(w, "{}", l2).unwrap();
            sets.push(s);
        }
        if !z && c % 4 == 1 {
            // substitution objects created by several threads at once get distinct identifiers
            writeln!(w, "substids {} {} {} {}", rng.pick(&[2u32, 4]), if cfg.thorough { 20000 } else { 8000 }, rng.pick(&pool), rng.below(n as u64)).unwrap();
        }
        let rounds = if stress { 6 } else { 4 };
        for round in 0..rounds {
            let nt = rng.range(2, 4) as usize;
            let per = if stress { 25 } else { rng.range(4, 10) as usize };
            let mut own: Vec<Vec<String>> = vec![Vec::new(); nt];
            let mut items: Vec<String> = Vec::new();
            let mut seqs: Vec<Vec<String>> = vec![Vec::new(); nt];
            for t in 0..nt {
                for i in 0..per {
                    let name = format!("t{}_r{}_{}", t, round, i);
                    let pickh = |rng: &mut Rng, own: &Vec<String>| -> String {
                        if !own.is_empty() && rng.chance(1, 2) { rng.pick(own).clone() } else { rng.pick(&pool).clone() }
                    };
                    let k = rng.below(20);
                    let l = if k < 9 {
                        format!("op {} {} {} {}", name, rng.pick(&BIN_OPS), pickh(rng, &own[t]), pickh(rng, &own[t]))
                    } else if k < 11 {
                        format!("op {} ite {} {} {}", name, pickh(rng, &own[t]), pickh(rng, &own[t]), pickh(rng, &own[t]))
                    } else if k < 12 {
                        format!("op {} not {}", name, pickh(rng, &own[t]))
                    } else if k < 14 && !z {
                        format!("quant {} {} {} vs{}", name, rng.pick(&quants), pickh(rng, &own[t]), rng.pick(&sets))
                    } else if k < 15 && !z {
                        format!("applyq {} {} {} {} {} vs{}", name, rng.pick(&quants), rng.pick(&BIN_OPS), pickh(rng, &own[t]), pickh(rng, &own[t]), rng.pick(&sets))
                    } else if k < 16 {
                        format!("restrict {} {} cb{}", name, pickh(rng, &own[t]), rng.pick(&sets))
                    } else if k < 17 {
                        format!("clone {} {}", name, pickh(rng, &own[t]))
                    } else if k < 18 && !own[t].is_empty() {
                        let i = rng.below(own[t].len() as u64) as usize;
                        let d = own[t].swap_remove(i);
                        seqs[t].push(format!("t{}:drop {}", t, d));
                        continue;
                    } else if k < 19 {
                        seqs[t].push(format!("t{}:pargc", t));
                        continue;
                    } else {
                        format!("op {} {} {} {}", name, rng.pick(&BIN_OPS), pickh(rng, &own[t]), pickh(rng, &own[t]))
                    };
                    own[t].push(name);
                    seqs[t].push(format!("t{}:{}", t, l));
                }
            }
            // interleave the per-thread sequences in the line (their relative order is kept)
            let mut idx = vec![0usize; nt];
            loop {
                let live: Vec<usize> = (0..nt).filter(|&t| idx[t] < seqs[t].len()).collect();
                if live.is_empty() {
                    break;
                }
                let t = *rng.pick(&live);
                items.push(seqs[t][idx[t]].clone());
                idx[t] += 1;
            }
            writeln!(w, "par {}", items.join(" ; ")).unwrap();
            // afterwards the diagram is well-formed with exact reference counts
            writeln!(w, "rcchk").unwrap();
            writeln!(w, "audit").unwrap();
            if rng.chance(1, 2) {
                writeln!(w, "gc").unwrap();
                if !stress {
                    writeln!(w, "dump").unwrap();
                }
            }
        }
        writeln!(w, "dropall").unwrap();
        writeln!(w, "gc").unwrap();
        writeln!(w, "dump").unwrap();
    }
}

/// C05, mechanism "pre_gc/post_gc bracket every removal so weak (borrowed) cache entries are
/// cleared": results are dropped at once, so the only thing left pointing at them is the apply
/// cache; then anything that may remove nodes (gc, add_vars, reordering) runs, the same operations
/// are repeated (their memoised results must not be served if the node is gone) and the store is
/// dumped with its reference counts.
fn gen_c05_weak(cfg: &GenCfg, rng: &mut Rng, w: &mut dyn Write, kind: &str) {
    let cases = if cfg.thorough { 60 } else { 8 } * cfg.scale;
    for c in 0..cases {
        let n = rng.range(2, 4) as u32;
        let cache = *rng.pick(&[16usize, 65536]);
        writeln!(w, "case c05-weak-{}-n{}-c{}", c, n, cache).unwrap();
        writeln!(w, "mgr nodes=65536 cache={} threads=1 vars={}", cache, n).unwrap();
        let mut pool: Vec<String> = Vec::new();
        for v in 0..n {
            writeln!(w, "var x{} {}", v, v).unwrap();
            writeln!(w, "notvar nx{} {}", v, v).unwrap();
            pool.push(format!("x{v}"));
            pool.push(format!("nx{v}"));
        }
        writeln!(w, "const t 1").unwrap();
        writeln!(w, "const f 0").unwrap();
        pool.push("t".into());
        pool.push("f".into());
        for s in 0..6 {
            writeln!(w, "op z{} {} {} {}", s, rng.pick(&BIN_OPS), rng.pick(&pool), rng.pick(&pool)).unwrap();
            pool.push(format!("z{s}"));
        }
        let mut nvars = n;
        for round in 0..(if cfg.thorough { 8 } else { 5 }) {
            // operations whose results die immediately (tautologies and contradictions included:
            // x or not x, x and not x, x equiv x, ...)
            let mut ops: Vec<String> = Vec::new();
            for _ in 0..8 {
                let a = rng.pick(&pool).clone();
                let b = if rng.chance(1, 3) {
                    // the complement / the same operand: results that are constants or single nodes
                    if let Some(r) = a.strip_prefix("nx") { format!("x{r}") } else if let Some(r) = a.strip_prefix('x') { format!("nx{r}") } else { a.clone() }
                } else {
                    rng.pick(&pool).clone()
                };
                ops.push(format!("{} {} {}", rng.pick(&BIN_OPS), a, b));
            }
            for (i, o) in ops.iter().enumerate() {
                writeln!(w, "op tmp{} {}", i, o).unwrap();
                writeln!(w, "drop tmp{}", i).unwrap();
            }
            match (round + c) % 4 {
                0 => writeln!(w, "gc").unwrap(),
                1 if nvars < 6 => {
                    writeln!(w, "addvars 1").unwrap();
                    nvars += 1;
                }
                2 if !zbdd(kind) => {
                    let mut order: Vec<u32> = (0..nvars).collect();
                    rng.shuffle(&mut order);
                    writeln!(w, "order {}", order_str(&order)).unwrap();
                }
                _ => {}
            }
            for (i, o) in ops.iter().enumerate() {
                writeln!(w, "op again{} {}", i, o).unwrap();
            }
            // garbage is present here, so the model does not predict the store: oracle only
            writeln!(w, "rcchk").unwrap();
            for i in 0..ops.len() {
                writeln!(w, "drop again{}", i).unwrap();
            }
        }
        writeln!(w, "dropall").unwrap();
        writeln!(w, "gc").unwrap();
        writeln!(w, "dump").unwrap();
    }
}

/// C14, allocation points *before* the recursion: operations that first build auxiliary nodes
/// (substitution: one variable node per level without replacement; cubes and variable sets) in a
/// manager where those variable nodes do not exist yet, so that for some capacity the failing
/// allocation is one of the preparation phase
fn gen_c14_sparse(cfg: &GenCfg, rng: &mut Rng, w: &mut dyn Write, kind: &str) {
    if zbdd(kind) {
        return; // ZBDDs have no substitution/quantification; their variable nodes are the tautology chain
    }
    let scripts = if cfg.thorough { 16 } else { 4 } * cfg.scale;
    for sc in 0..scripts {
        let n = rng.range(4, 5) as u32;
        let seed = rng.next();
        let cmax = if cfg.thorough { 40 } else { 30 };
        let step = if cfg.thorough { 1 } else { 2 };
        let mut cap = 0usize;
        while cap <= cmax {
            let mut r2 = Rng(seed);
            writeln!(w, "case c14-sparse-s{}-cap{}", sc, cap).unwrap();
            writeln!(w, "mgr nodes={} cache=16 threads=1 vars={}", cap, n).unwrap();
            // functions over the lower variables only, built from truth tables; the collection
            // removes the construction's temporaries, in particular the plain variable nodes
            let low = r2.range(1, 2) as u32;
            for i in 0..3 {
                let mut t = r2.next() & ((1u64 << (1u64 << n)) - 1);
                // make it independent of the variables above `low` (copy the cofactor)
                for v in 0..low {
                    let mut t2 = 0u64;
                    for a in 0..(1u64 << n) {
                        let a0 = a & !(1 << v);
                        if (t >> a0) & 1 == 1 {
                            t2 |= 1 << a;
                        }
                    }
                    t = t2;
                }
                writeln!(w, "tt g{} {:x}", i, t).unwrap();
            }
            writeln!(w, "gc").unwrap();
            for round in 0..4 {
                let f = format!("g{}", r2.below(3));
                let g = format!("g{}", r2.below(3));
                // replace one or two of the lower variables; the levels above have no replacement
                let v1 = r2.range(low as u64, (n - 1) as u64) as u32;
                let v2 = r2.range(low as u64, (n - 1) as u64) as u32;
                if v1 == v2 || r2.chance(1, 2) {
                    writeln!(w, "mksubst s{} {}={}", round, v1, g).unwrap();
                } else {
                    writeln!(w, "mksubst s{} {}={} {}={}", round, v1, g, v2, f).unwrap();
                }
                writeln!(w, "subst r{} {} s{}", round, f, round).unwrap();
                writeln!(w, "dropsubst s{}", round).unwrap();
                writeln!(w, "cube vs{} +{} +{}", round, v1, r2.below(n as u64)).unwrap();
                writeln!(w, "quant q{} {} {} vs{}", round, r2.pick(&["exists", "forall", "unique"]), f, round).unwrap();
                writeln!(w, "cube cs{} {}{} {}{}", round, if r2.chance(1, 2) { "+" } else { "-" }, v1, if r2.chance(1, 2) { "+" } else { "-" }, (v1 + 1) % n).unwrap();
                writeln!(w, "restrict k{} {} cs{}", round, g, round).unwrap();
                if round % 2 == 1 {
                    for x in ["r", "q", "k"] {
                        writeln!(w, "drop {}{}", x, round).unwrap();
                        writeln!(w, "drop {}{}", x, round - 1).unwrap();
                    }
                    writeln!(w, "drop vs{}", round).unwrap();
                    writeln!(w, "drop cs{}", round).unwrap();
                    writeln!(w, "gc").unwrap();
                }
            }
            cap += step;
        }
    }
}

/// C14, every allocation point of one operation: the store is filled with ballast until exactly
/// j slots are free (j = 0, 1, 2, ...), the operation runs (its (j+1)-th allocation fails), the
/// manager is audited, the ballast is dropped and collected, and the same operation is retried
/// (it must now succeed with the reference result). The operands live on the variables
/// `top..top+n`; `top` variables above them have no nodes at all (operations that build auxiliary
/// variable nodes allocate them first); the ballast lives on four variables at the bottom.
fn gen_c14_fill(cfg: &GenCfg, rng: &mut Rng, w: &mut dyn Write, kind: &str) {
    let scripts = if cfg.thorough { 12 } else { 4 } * cfg.scale;
    for sc in 0..scripts {
        let mt = sc % 2 == 1;
        let top = rng.range(1, 2) as u32;
        let n = if mt { 4u32 } else { 3u32 };
        let nv = top + n + 4;
        let (blo, bhi) = (top + n, nv);
        let cap = 64usize;
        // every other script on a manager with worker threads and a deep split: the parallel
        // recursors (join of two branches, one of which may fail) run the same fault points
        writeln!(w, "case c14-fill-s{}{}", sc, if mt { "-mt" } else { "" }).unwrap();
        if mt {
            writeln!(w, "mgr nodes={} cache=16 threads=4 split=64 vars={}", cap, nv).unwrap();
        } else {
            writeln!(w, "mgr nodes={} cache=16 threads=1 vars={}", cap, nv).unwrap();
        }
        let mut pool: Vec<String> = Vec::new();
        for v in top..top + n {
            if rng.chance(2, 3) {
                writeln!(w, "var x{} {}", v, v).unwrap();
                pool.push(format!("x{v}"));
            }
        }
        if pool.len() < 2 {
            writeln!(w, "var y{} {}", top + n - 1, top + n - 1).unwrap();
            writeln!(w, "notvar ny{} {}", top + 1, top + 1).unwrap();
            pool.push(format!("y{}", top + n - 1));
            pool.push(format!("ny{}", top + 1));
        }
        for s in 0..(if mt { 9 } else { 5 }) {
            writeln!(w, "op g{} {} {} {}", s, rng.pick(&BIN_OPS), rng.pick(&pool), rng.pick(&pool)).unwrap();
            pool.push(format!("g{s}"));
        }
        writeln!(w, "gc").unwrap();
        let nops = if cfg.thorough { 14 } else { 8 };
        for _ in 0..nops {
            let f = rng.pick(&pool).clone();
            let g = rng.pick(&pool).clone();
            let h = rng.pick(&pool).clone();
            let v1 = rng.range(top as u64, (top + n - 1) as u64) as u32;
            let v2 = rng.range(0, (top + n - 1) as u64) as u32;
            let v3 = (v1 + 1 - top) % n + top;
            let q = *rng.pick(&["exists", "forall", "unique"]);
            let sg = |r: &mut Rng| if r.chance(1, 2) { "+" } else { "-" };
            // preparation lines (handles the operation needs), the operation itself, clean-up
            // with worker threads mostly the ternary operations (their two branches are joined)
            let which = if zbdd(kind) { rng.below(3) } else if mt && rng.chance(2, 3) { *rng.pick(&[1u64, 6, 6, 1, 5]) } else { rng.below(8) };
            let (prep, op, cleanup): (Vec<String>, String, Vec<String>) = match which {
                0 => (vec![], format!("op r {} {} {}", rng.pick(&BIN_OPS), f, g), vec![]),
                1 => (vec![], format!("op r ite {} {} {}", f, g, h), vec![]),
                2 => (vec![], format!("op r not {}", f), vec![]),
                3 => (vec![format!("mksubst s {}={}", v1, g)], format!("subst r {} s", f), vec!["dropsubst s".into()]),
                4 => (vec![format!("mksubst s {}={} {}={}", v1, g, v3, h)], format!("subst r {} s", f), vec!["dropsubst s".into()]),
                5 => (vec![format!("cube vs +{} +{}", v1, v2)], format!("quant r {} {} vs", q, f), vec!["drop vs".into()]),
                6 => (vec![format!("cube vs +{}", v1)], format!("applyq r {} {} {} {} vs", q, rng.pick(&BIN_OPS), f, g), vec!["drop vs".into()]),
                _ => (vec![format!("cube cs {}{} {}{}", sg(rng), v1, sg(rng), v3)], format!("restrict r {} cs", f), vec!["drop cs".into()]),
            };
            for j in 0..(if cfg.thorough { 10 } else { 7 }) {
                for p in &prep {
                    writeln!(w, "{}", p).unwrap();
                }
                writeln!(w, "ballast {} {} {} {}", j, rng.below(1 << 30), blo, bhi).unwrap();
                writeln!(w, "{}", op).unwrap();
                writeln!(w, "dropballast").unwrap();
                writeln!(w, "gc").unwrap();
                // retry after space has been freed
                writeln!(w, "{}", op).unwrap();
                writeln!(w, "drop r").unwrap();
                for c in &cleanup {
                    writeln!(w, "{}", c).unwrap();
                }
                writeln!(w, "gc").unwrap();
            }
        }
        writeln!(w, "dropall").unwrap();
        writeln!(w, "gc").unwrap();
    }
}

/// C05/C07: the background collector. A small store (run with `--capped 1`: every line also runs on
/// a large reference manager whose output is the compared stream) in which a bounded set of live
/// handles is kept while garbage accumulates, so that the high water mark is crossed, the gc thread
/// collects, the count drops below the low water mark and the cycle repeats many times. Every
/// result is compared with the reference manager and with the truth-table oracle.
fn gen_bggc(cfg: &GenCfg, rng: &mut Rng, w: &mut dyn Write, kind: &str) {
    let cases = if cfg.thorough { 12 } else { 2 } * cfg.scale;
    for c in 0..cases {
        let n = if zbdd(kind) { 6 } else { 7 } as u32;
        let cap = *rng.pick(&[1000usize, 1500, 2500]);
        let threads = if c % 2 == 0 { 1 } else { 2 };
        writeln!(w, "case bggc-{}-cap{}-t{}", c, cap, threads).unwrap();
        writeln!(w, "mgr nodes={} cache=256 threads={} vars={}", cap, threads, n).unwrap();
        let mut live: Vec<String> = Vec::new();
        for v in 0..n {
            writeln!(w, "var x{} {}", v, v).unwrap();
            live.push(format!("x{v}"));
        }
        let steps = if cfg.thorough { 6000 } else { 2500 };
        let mut next = 0usize;
        for s in 0..steps {
            let name = format!("h{}", next);
            next += 1;
            let (a, b) = (rng.pick(&live).clone(), rng.pick(&live).clone());
            if rng.chance(1, 8) {
                writeln!(w, "op {} ite {} {} {}", name, a, b, rng.pick(&live)).unwrap();
            } else {
                writeln!(w, "op {} {} {} {}", name, rng.pick(&BIN_OPS), a, b).unwrap();
            }
            live.push(name);
            // keep the set of live handles bounded: the rest becomes garbage
            while live.len() > n as usize + 14 {
                let i = rng.range(n as u64, live.len() as u64 - 1) as usize;
                let d = live.swap_remove(i);
                writeln!(w, "drop {}", d).unwrap();
            }
            if s % 500 == 499 {
                writeln!(w, "rcchk").unwrap();
                writeln!(w, "audit").unwrap();
            }
        }
        writeln!(w, "dropall").unwrap();
        writeln!(w, "gc").unwrap();
        writeln!(w, "dump").unwrap();
    }
}

/// C16 (and C20 on the other backends): variables created with names on every diagram kind, in
/// several batches, with rejected calls (duplicate first / duplicate after fresh names / empty
/// list), through `add_named_vars` and through `add_named_vars_from_map` (also on an empty
/// manager: the specialised fast path), each followed by operations that depend on the kind's own
/// per-level bookkeeping (constants, `var`, negation-based connectives, cube picking).
/// Oracle-only stream: the tree-level models do not know names.
fn gen_names(cfg: &GenCfg, rng: &mut Rng, w: &mut dyn Write, kind: &str) {
    let cases = if cfg.thorough { 400 } else { 60 } * cfg.scale;
    for c in 0..cases {
        writeln!(w, "case names-{}-{}", kind, c).unwrap();
        writeln!(w, "mgr nodes=65536 cache=64 threads={} vars=0", rng.pick(&[1u32, 2])).unwrap();
        let mut n = 0u32;
        let mut used: Vec<String> = Vec::new();
        let mut fresh = 0u32;
        let mut pool: Vec<String> = Vec::new();
        let steps = rng.range(3, 7);
        for s in 0..steps {
            // a batch of names: fresh ones, unnamed ones, sometimes a duplicate (first, middle or last)
            let len = if rng.chance(1, 8) { 0 } else { rng.range(1, 3) as usize };
            let mut batch: Vec<String> = Vec::new();
            for _ in 0..len {
                if rng.chance(1, 4) {
                    batch.push("-".into());
                } else {
                    fresh += 1;
                    batch.push(format!("n{}", fresh));
                }
            }
            if !used.is_empty() && rng.chance(1, 3) {
                let d = rng.pick(&used).clone();
                let pos = rng.below(batch.len() as u64 + 1) as usize;
                batch.insert(pos, d);
            }
            let op = if rng.chance(1, 2) || (s == 0 && rng.chance(1, 2)) { "frommap" } else { "addnamed" };
            writeln!(w, "{} {}", op, batch.join(" ")).unwrap();
            // bookkeeping of the generator: names before the first duplicate are added
            let mut seen_in_batch: Vec<String> = Vec::new();
            let mut added = 0u32;
            let mut rejected_by_map = false;
            for nm in &batch {
                if nm != "-" && seen_in_batch.contains(nm) && op == "frommap" {
                    rejected_by_map = true;
                    break;
                }
                if nm != "-" && (used.contains(nm) || seen_in_batch.contains(nm)) {
                    break;
                }
                if nm != "-" {
                    seen_in_batch.push(nm.clone());
                }
                added += 1;
            }
            if rejected_by_map {
                added = 0;
                seen_in_batch.clear();
            }
            used.extend(seen_in_batch);
            n += added;
            if n > 7 {
                break;
            }
            // the kind's own bookkeeping after the (possibly rejected, possibly empty) call
            writeln!(w, "const t{} T", s).unwrap();
            writeln!(w, "const f{} F", s).unwrap();
            writeln!(w, "op nt{} not t{}", s, s).unwrap();
            if n > 0 {
                let v = rng.below(n as u64);
                writeln!(w, "var v{}_{} {}", s, v, v).unwrap();
                writeln!(w, "notvar nv{}_{} {}", s, v, v).unwrap();
                pool.push(format!("v{}_{}", s, v));
                pool.push(format!("nv{}_{}", s, v));
                for j in 0..3 {
                    let name = format!("g{}_{}", s, j);
                    writeln!(w, "op {} {} {} {}", name, rng.pick(&BIN_OPS), rng.pick(&pool), rng.pick(&pool)).unwrap();
                    writeln!(w, "pickvec {} {:b}", name, rng.below(1 << n)).unwrap();
                    pool.push(name);
                }
                writeln!(w, "audit").unwrap();
            }
        }
        writeln!(w, "dropall").unwrap();
        writeln!(w, "gc").unwrap();
    }
}

fn generate(cfg: &GenCfg, rng: &mut Rng, w: &mut dyn Write) {
    if cfg.extra.contains_key("dump-after-order") {
        // for the store-level reordering model, which predicts the store (ids aside) right after a
        // reordering, garbage included
        let mut buf: Vec<u8> = Vec::new();
        generate_inner(cfg, rng, &mut buf);
        let mut skip = false;
        for line in String::from_utf8(buf).unwrap().lines() {
            if line.starts_with("case ") {
                // the ballast of the big concurrent case is not part of the store-level model
                skip = line.contains("big-concurrent");
            }
            if skip {
                continue;
            }
            if line.starts_with("satcount ") {
                continue; // not part of the store-level reordering protocol
            }
            if line.starts_with("order ") {
                // the model tracks no garbage left behind by earlier operations
                writeln!(w, "gc").unwrap();
            }
            writeln!(w, "{}", line).unwrap();
            if line.starts_with("order ") {
                writeln!(w, "dump").unwrap();
            }
        }
    } else {
        generate_inner(cfg, rng, w);
    }
}

fn generate_inner(cfg: &GenCfg, rng: &mut Rng, w: &mut dyn Write) {
    let kind = cfg.extra.get("kind").map(|s| s.as_str()).unwrap_or("bdd").to_string();
    let suite = cfg.extra.get("suite").map(|s| s.as_str()).unwrap_or("c02").to_string();
    match suite.as_str() {
        "c02" => gen_c02(cfg, rng, w, &kind),
        "c01" | "c03" => gen_hist(cfg, rng, w, &kind, &suite),
        "c05" => {
            gen_hist(cfg, rng, w, &kind, &suite);
            gen_c05_weak(cfg, rng, w, &kind);
        }
        "c06" => gen_c06(cfg, rng, w, &kind),
        "c07" => gen_c07(cfg, rng, w, &kind),
        "c08" => gen_c08(cfg, rng, w, &kind),
        "bggc" => gen_bggc(cfg, rng, w, &kind),
        "names" => gen_names(cfg, rng, w, &kind),
        "c14" => {
            gen_c14(cfg, rng, w, &kind);
            gen_c14_sparse(cfg, rng, w, &kind);
            gen_c14_fill(cfg, rng, w, &kind);
        }
        "kf-zbdd-reorder" => gen_kf_zbdd_reorder(w),
        "c08z" => gen_c08z(cfg, rng, w, &kind),
        "kf-reorder-oom" => gen_kf_reorder_oom(w),
        "kf-zbdd-addvars-oom" => gen_kf_zbdd_addvars_oom(w),
        "c04" => gen_c04(cfg, rng, w, &kind),
        "c09" => gen_c09(cfg, rng, w, &kind),
        "c12" => gen_c12(cfg, rng, w, &kind),
        "c13" => gen_c13(cfg, rng, w, &kind),
        _ => panic!("unknown suite {suite}"),
    }
}

fn make(f: &BTreeMap<String, String>) -> Box<dyn Scenario> {
    let kind = f.get("kind").map(|s| s.as_str()).unwrap_or("bdd");
    oxv::kinds::make(kind, f)
}

fn main() {
    harness_main(generate, make)
}
