//! Boolean-function scenario binary: `bf gen --kind bdd|bcdd|zbdd --suite <s> --tier .. --seed ..`
//! and `bf run --kind ..`. The suites generate the operation histories for C01–C06, C09, C12–C14.
use oxv::bf::BIN_OPS;
use oxv::*;
use std::collections::BTreeMap;
use std::io::Write;

fn perms(n: u32) -> Vec<Vec<u32>> {
    fn go(cur: &mut Vec<u32>, used: &mut Vec<bool>, n: u32, out: &mut Vec<Vec<u32>>) {
        if cur.len() == n as usize {
            out.push(cur.clone());
            return;
        }
        for v in 0..n {
            if !used[v as usize] {
                used[v as usize] = true;
                cur.push(v);
                go(cur, used, n, out);
                cur.pop();
                used[v as usize] = false;
            }
        }
    }
    let mut out = Vec::new();
    go(&mut Vec::new(), &mut vec![false; n as usize], n, &mut out);
    out
}

fn order_str(o: &[u32]) -> String {
    o.iter().map(|v| v.to_string()).collect::<Vec<_>>().join(" ")
}

/// `mgr` + order (on the still empty manager) + all 2^(2^n) functions as f0..
fn prelude(w: &mut dyn Write, n: u32, order: &[u32], threads: u32, cache: usize, all: bool) {
    writeln!(w, "mgr nodes=65536 cache={} threads={} vars={}", cache, threads, n).unwrap();
    writeln!(w, "order {}", order_str(order)).unwrap();
    if all {
        for t in 0..(1u64 << (1 << n)) {
            // two construction routes, alternating
            writeln!(w, "{} f{} {:x}", if t % 2 == 0 { "tt" } else { "ttb" }, t, t).unwrap();
        }
    }
}

fn zbdd(kind: &str) -> bool {
    kind == "zbdd"
}

fn gen_c02(cfg: &GenCfg, rng: &mut Rng, w: &mut dyn Write, kind: &str) {
    let n = 3u32;
    let nf = 1u64 << (1 << n);
    let orders = perms(n);
    let mut case = 0;
    for (oi, order) in orders.iter().enumerate() {
        for &threads in &[1u32, 4] {
            if !cfg.thorough && threads == 4 && oi % 3 != 0 {
                continue;
            }
            writeln!(w, "case c02-n3-o{}-t{}", oi, threads).unwrap();
            case += 1;
            prelude(w, n, order, threads, 1024, true);
            writeln!(w, "const cT T").unwrap();
            writeln!(w, "const cF F").unwrap();
            for v in 0..n {
                writeln!(w, "var x{} {}", v, v).unwrap();
                writeln!(w, "notvar nx{} {}", v, v).unwrap();
            }
            for f in 0..nf {
                writeln!(w, "op r not f{}", f).unwrap();
                writeln!(w, "cofchk f{}", f).unwrap();
                writeln!(w, "sat f{}", f).unwrap();
                writeln!(w, "valid f{}", f).unwrap();
                writeln!(w, "count f{}", f).unwrap();
                for a in 0..(1 << n) {
                    if cfg.thorough || (f + a) % 3 == 0 {
                        writeln!(w, "eval f{} {:03b}", f, a).unwrap();
                    }
                }
            }
            let exhaustive_pairs = cfg.thorough && threads == 1;
            if exhaustive_pairs {
                for f in 0..nf {
                    for g in 0..nf {
                        for op in BIN_OPS {
                            writeln!(w, "op r {} f{} f{}", op, f, g).unwrap();
                        }
                    }
                }
            } else {
                let pairs = if cfg.thorough { 20000 } else { 2500 } * cfg.scale;
                for _ in 0..pairs {
                    let (f, g) = (rng.below(nf), rng.below(nf));
                    for op in BIN_OPS {
                        writeln!(w, "op r {} f{} f{}", op, f, g).unwrap();
                    }
                }
            }
            let ites = if cfg.thorough { 150000 } else { 6000 } * cfg.scale;
            for _ in 0..ites {
                writeln!(w, "op r ite f{} f{} f{}", rng.below(nf), rng.below(nf), rng.below(nf)).unwrap();
            }
        }
    }
    // random operands over 4..8 variables
    let cases = if cfg.thorough { 60 } else { 8 } * cfg.scale;
    for c in 0..cases {
        let n = rng.range(4, if zbdd(kind) { 7 } else { 8 }) as u32;
        let mut order: Vec<u32> = (0..n).collect();
        rng.shuffle(&mut order);
        let threads = *rng.pick(&[1u32, 1, 2, 4]);
        writeln!(w, "case c02-rand-{}-n{}", c + case, n).unwrap();
        prelude(w, n, &order, threads, *rng.pick(&[16usize, 1024]), false);
        let mut pool: Vec<String> = Vec::new();
        for v in 0..n {
            writeln!(w, "var x{} {}", v, v).unwrap();
            writeln!(w, "notvar nx{} {}", v, v).unwrap();
            pool.push(format!("x{v}"));
            pool.push(format!("nx{v}"));
        }
        writeln!(w, "const cT T").unwrap();
        writeln!(w, "const cF F").unwrap();
        pool.push("cT".into());
        pool.push("cF".into());
        let steps = if cfg.thorough { 400 } else { 150 };
        for s in 0..steps {
            let name = format!("g{s}");
            let k = rng.below(10);
            if k == 0 {
                writeln!(w, "op {} not {}", name, rng.pick(&pool)).unwrap();
            } else if k <= 2 {
                writeln!(w, "op {} ite {} {} {}", name, rng.pick(&pool), rng.pick(&pool), rng.pick(&pool)).unwrap();
            } else {
                writeln!(w, "op {} {} {} {}", name, rng.pick(&BIN_OPS), rng.pick(&pool), rng.pick(&pool)).unwrap();
            }
            if rng.chance(1, 6) {
                let a = rng.below(1 << n);
                writeln!(w, "eval {} {:0width$b}", name, a, width = n as usize).unwrap();
            }
            if rng.chance(1, 10) {
                writeln!(w, "cofchk {}", name).unwrap();
                writeln!(w, "count {}", name).unwrap();
            }
            pool.push(name);
        }
    }
}

fn generate(cfg: &GenCfg, rng: &mut Rng, w: &mut dyn Write) {
    let kind = cfg.extra.get("kind").map(|s| s.as_str()).unwrap_or("bdd").to_string();
    let suite = cfg.extra.get("suite").map(|s| s.as_str()).unwrap_or("c02").to_string();
    match suite.as_str() {
        "c02" => gen_c02(cfg, rng, w, &kind),
        _ => panic!("unknown suite {suite}"),
    }
}

fn make(f: &BTreeMap<String, String>) -> Box<dyn Scenario> {
    let kind = f.get("kind").map(|s| s.as_str()).unwrap_or("bdd");
    oxv::kinds::make(kind, f)
}

fn main() {
    harness_main(generate, make)
}
