//! Smoke-test scenario: echoes its input (used to test the pipeline itself).
use oxv::*;
use std::collections::BTreeMap;
use std::io::Write;

struct Echo;
impl Scenario for Echo {
    fn reset(&mut self) {}
    fn step(&mut self, line: &str, _ctx: &mut Ctx) -> String {
        if line == "spin" {
            // never returns: exercises the hang watchdog
            loop {
                std::hint::spin_loop();
            }
        }
        line.to_string()
    }
}
fn generate(_cfg: &GenCfg, rng: &mut Rng, w: &mut dyn Write) {
    for i in 0..3 {
        writeln!(w, "case {}", i).unwrap();
        writeln!(w, "x {}", rng.below(10)).unwrap();
    }
}
fn make(_f: &BTreeMap<String, String>) -> Box<dyn Scenario> {
    Box::new(Echo)
}
fn main() {
    harness_main(generate, make)
}
