//! C01 (mechanism) — the per-level unique tables of a real `oxidd::bdd` manager, driven node by
//! node through `LevelView::get_or_insert` / `LevelView::get` / `Manager::gc`, against the Lean
//! model `OxiddModel.Bdd.LevelTable` (protocol `leveltbl`): slot array + one `HashTbl.Tbl` per
//! level with the real capacity rules, for three different hash functions of the model (the
//! outputs must not depend on the hash function).
//!
//! Lines (handles are numbered in creation order; an operand is `T`, `F` or a handle number):
//!   init <levels> <hm>       fresh manager with <levels> variables           -> ok
//!   mk <level> <t> <e>       reduce(level, t, e); result = next handle        -> e <rel> <len>
//!                            rel: T | F | smallest live handle with the same edge; len: level.len()
//!   find <level> <t> <e>     level.get(node)                                   -> none | e <rel> | e -
//!   drop <k>                                                                   -> ok
//!   gc                       Manager::gc()                                     -> gc <collected> <len0> ...
//!   lens                                                                       -> lens <len0> ...
//!
//! Oracles on the real code (no model involved):
//!   * `dup`: after every `mk` the new handle is `==` to another live handle iff both point to
//!     terminals that are equal or to nodes with the same level and pairwise equal children
//!     (hash consing, read back through `get_node`);
//!   * `shape`: a non-reduced `mk` returns a node of the requested level with the requested children;
//!   * `len-sum`: the level lengths add up to `num_inner_nodes()`; `gc` reports the difference.
use oxidd::bdd::{BDDFunction, BDDManagerRef};
use oxidd::{BooleanFunction, Function, ManagerRef};
use oxidd_core::function::EdgeOfFunc;
use oxidd_core::util::DropWith;
use oxidd_core::{HasLevel, InnerNode, LevelView, Manager, Node};
use oxv::*;
use std::collections::{BTreeMap, HashMap};
use std::io::Write;

struct Sc {
    mref: Option<BDDManagerRef>,
    hs: Vec<Option<BDDFunction>>,
    levels: u32,
}

fn operand(hs: &[Option<BDDFunction>], w: &str, tt: &BDDFunction, ff: &BDDFunction) -> Option<BDDFunction> {
    match w {
        "T" => Some(tt.clone()),
        "F" => Some(ff.clone()),
        _ => w.parse::<usize>().ok().and_then(|k| hs.get(k).cloned().flatten()),
    }
}

fn new_node<M: Manager>(_m: &M, l: u32, t: M::Edge, e: M::Edge) -> M::InnerNode {
    M::InnerNode::new(l, [t, e])
}

/// shape of a handle as seen through `get_node`: None = terminal
fn shape<'id>(m: &<BDDFunction as Function>::Manager<'id>, f: &BDDFunction) -> Option<(u32, Vec<EdgeOfFunc<'id, BDDFunction>>)> {
    match m.get_node(f.as_edge(m)) {
        Node::Inner(n) => Some((n.level(), n.children().map(|c| m.clone_edge(&c)).collect())),
        Node::Terminal(_) => None,
    }
}

fn rel(hs: &[Option<BDDFunction>], f: &BDDFunction, tt: &BDDFunction, ff: &BDDFunction) -> String {
    if f == tt {
        return "T".into();
    }
    if f == ff {
        return "F".into();
    }
    for (k, g) in hs.iter().enumerate() {
        if let Some(g) = g {
            if g == f {
                return k.to_string();
            }
        }
    }
    "-".into()
}

impl Sc {
    fn lens(&self) -> Vec<usize> {
        let n = self.levels;
        self.mref.as_ref().unwrap().with_manager_shared(|m| (0..n).map(|l| m.level(l).len()).collect())
    }
}

impl Scenario for Sc {
    fn reset(&mut self) {
        self.hs.clear();
        self.mref = None;
        self.levels = 0;
    }
    fn step(&mut self, line: &str, ctx: &mut Ctx) -> String {
        let w = words(line);
        match w.as_slice() {
            ["init", n, _hm] => {
                let Ok(n) = n.parse::<u32>() else { return "bad-op".into() };
                if n == 0 || n > 64 {
                    return "bad-op".into();
                }
                self.hs.clear();
                let mref = oxidd::bdd::new_manager(1 << 17, 1 << 8, 1);
                mref.with_manager_exclusive(|m| {
                    m.add_vars(n);
                });
                self.mref = Some(mref);
                self.levels = n;
                "ok".into()
            }
            ["mk", l, t, e] => {
                let Some(mref) = self.mref.as_ref() else { return "bad-op".into() };
                let Ok(l) = l.parse::<u32>() else { return "bad-op".into() };
                if l >= self.levels {
                    return "bad-op".into();
                }
                let hs = &mut self.hs;
                mref.with_manager_shared(|m| {
                    let tt = BDDFunction::t(m);
                    let ff = BDDFunction::f(m);
                    let (Some(ft), Some(fe)) = (operand(hs, t, &tt, &ff), operand(hs, e, &tt, &ff)) else {
                        return "bad-op".to_string();
                    };
                    // `reduce` of oxidd-rules-bdd/src/simple/mod.rs
                    let te = m.clone_edge(ft.as_edge(m));
                    let ee = m.clone_edge(fe.as_edge(m));
                    let reduced = te == ee;
                    let res = if reduced {
                        m.drop_edge(ee);
                        Ok(te)
                    } else {
                        ctx.count("get_or_insert");
                        let node = new_node(m, l, te, ee);
                        let mut lv = m.level(l);
                        lv.get_or_insert(node)
                    };
                    let edge = match res {
                        Ok(edge) => edge,
                        Err(_) => return "oom".to_string(),
                    };
                    let f = BDDFunction::from_edge(m, edge);
                    // oracle `shape`
                    let sh = shape(m, &f);
                    if !reduced {
                        let ok = match &sh {
                            Some((lv, ch)) => *lv == l && ch.len() == 2 && ch[0] == *ft.as_edge(m) && ch[1] == *fe.as_edge(m),
                            None => false,
                        };
                        if !ok {
                            ctx.fail("shape", &format!("`{line}`: get_or_insert returned a node with other level/children"));
                        }
                    } else if f != ft {
                        ctx.fail("shape", &format!("`{line}`: reduction did not return the child"));
                    }
                    // oracle `dup`: equality of handles <=> equal shape
                    let mut hit = false;
                    for (k, g) in hs.iter().enumerate() {
                        let Some(g) = g else { continue };
                        let same_handle = *g == f;
                        let gs = shape(m, g);
                        let same_shape = match (&sh, &gs) {
                            (None, None) => same_handle, // terminals: nothing to read back
                            (Some((l1, c1)), Some((l2, c2))) => l1 == l2 && c1 == c2,
                            _ => false,
                        };
                        if let Some((_, c)) = gs {
                            for e in c {
                                m.drop_edge(e);
                            }
                        }
                        if same_handle != same_shape {
                            ctx.fail("dup", &format!("`{line}`: new handle vs handle {k}: == is {same_handle}, same level and children is {same_shape}"));
                        }
                        hit |= same_handle;
                    }
                    if let Some((_, c)) = sh {
                        for e in c {
                            m.drop_edge(e);
                        }
                    }
                    ctx.count(if reduced { "mk-reduced" } else if hit { "mk-hit" } else { "mk-new" });
                    hs.push(Some(f.clone()));
                    let len = m.level(l).len();
                    let cur = ctx.stats.get("max-level-len").copied().unwrap_or(0);
                    if len as u64 > cur {
                        ctx.stats.insert("max-level-len".into(), len as u64);
                    }
                    format!("e {} {}", rel(hs, &f, &tt, &ff), len)
                })
            }
            ["find", l, t, e] => {
                let Some(mref) = self.mref.as_ref() else { return "bad-op".into() };
                let Ok(l) = l.parse::<u32>() else { return "bad-op".into() };
                if l >= self.levels {
                    return "bad-op".into();
                }
                let hs = &self.hs;
                mref.with_manager_shared(|m| {
                    let tt = BDDFunction::t(m);
                    let ff = BDDFunction::f(m);
                    let (Some(ft), Some(fe)) = (operand(hs, t, &tt, &ff), operand(hs, e, &tt, &ff)) else {
                        return "bad-op".to_string();
                    };
                    let node = new_node(m, l, m.clone_edge(ft.as_edge(m)), m.clone_edge(fe.as_edge(m)));
                    let found = {
                        let lv = m.level(l);
                        lv.get(&node).map(|e| m.clone_edge(e))
                    };
                    node.drop_with(|e| m.drop_edge(e));
                    match found {
                        None => {
                            ctx.count("find-miss");
                            "none".to_string()
                        }
                        Some(edge) => {
                            ctx.count("find-hit");
                            let f = BDDFunction::from_edge(m, edge);
                            format!("e {}", rel(hs, &f, &tt, &ff))
                        }
                    }
                })
            }
            ["drop", k] => {
                let Ok(k) = k.parse::<usize>() else { return "bad-op".into() };
                match self.hs.get_mut(k) {
                    Some(slot @ Some(_)) => {
                        *slot = None;
                        "ok".into()
                    }
                    _ => "bad-op".into(),
                }
            }
            ["gc"] => {
                let Some(mref) = self.mref.as_ref() else { return "bad-op".into() };
                let before: usize = self.lens().iter().sum();
                let collected = mref.with_manager_shared(|m| m.gc());
                let lens = self.lens();
                let after: usize = lens.iter().sum();
                let total = mref.with_manager_shared(|m| m.num_inner_nodes());
                if after != total {
                    ctx.fail("len-sum", &format!("after gc the level lengths add up to {after}, num_inner_nodes() = {total}"));
                }
                if before - after != collected {
                    ctx.fail("len-sum", &format!("gc() reports {collected} collected nodes, the level lengths dropped by {}", before - after));
                }
                ctx.count("gc");
                ctx.add("gc-collected", collected as u64);
                let mut o = format!("gc {}", collected);
                for x in lens {
                    o.push_str(&format!(" {}", x));
                }
                o
            }
            ["lens"] => {
                if self.mref.is_none() {
                    return "bad-op".into();
                }
                let lens = self.lens();
                let total = self.mref.as_ref().unwrap().with_manager_shared(|m| m.num_inner_nodes());
                let sum: usize = lens.iter().sum();
                if sum != total {
                    ctx.fail("len-sum", &format!("the level lengths add up to {sum}, num_inner_nodes() = {total}"));
                }
                let mx = lens.iter().copied().max().unwrap_or(0) as u64;
                let cur = ctx.stats.get("max-level-len").copied().unwrap_or(0);
                if mx > cur {
                    ctx.stats.insert("max-level-len".into(), mx);
                }
                let mut o = String::from("lens");
                for x in lens {
                    o.push_str(&format!(" {}", x));
                }
                o
            }
            _ => "bad-op".into(),
        }
    }
}

// ---------------------------------------------------------------------------------------------
// generator: its own hash consing (canonical node per (level, t, e)) to know the level of every
// handle, so that children are always strictly below their parent
// ---------------------------------------------------------------------------------------------

const TERM_LEVEL: u32 = u32::MAX;

struct Gen {
    /// canonical id of every handle (0 = F, 1 = T, else index into `nodes` + 2)
    handle_canon: Vec<usize>,
    live: Vec<bool>,
    /// level of each canonical node
    nodes: Vec<(u32, usize, usize)>,
    table: HashMap<(u32, usize, usize), usize>,
}

impl Gen {
    fn new() -> Self {
        Gen { handle_canon: vec![], live: vec![], nodes: vec![], table: HashMap::new() }
    }
    fn level_of(&self, c: usize) -> u32 {
        if c < 2 { TERM_LEVEL } else { self.nodes[c - 2].0 }
    }
    fn opnd(&self, o: Opnd) -> usize {
        match o {
            Opnd::F => 0,
            Opnd::T => 1,
            Opnd::H(k) => self.handle_canon[k],
        }
    }
    /// record `mk l t e`, return the new handle number
    fn mk(&mut self, l: u32, t: Opnd, e: Opnd) -> usize {
        let (ct, ce) = (self.opnd(t), self.opnd(e));
        let c = if ct == ce {
            ct
        } else {
            let n = self.nodes.len();
            let nodes = &mut self.nodes;
            *self.table.entry((l, ct, ce)).or_insert_with(|| {
                nodes.push((l, ct, ce));
                n + 2
            })
        };
        self.handle_canon.push(c);
        self.live.push(true);
        self.handle_canon.len() - 1
    }
    /// a random live operand strictly below level `l`
    fn pick_below(&self, rng: &mut Rng, l: u32, pool: &[usize]) -> Opnd {
        for _ in 0..8 {
            if pool.is_empty() || rng.chance(1, 12) {
                break;
            }
            let k = *rng.pick(pool);
            if self.live[k] && self.level_of(self.handle_canon[k]) > l {
                return Opnd::H(k);
            }
        }
        if rng.chance(1, 2) { Opnd::T } else { Opnd::F }
    }
}

#[derive(Clone, Copy)]
enum Opnd {
    T,
    F,
    H(usize),
}
impl std::fmt::Display for Opnd {
    fn fmt(&self, f: &mut std::fmt::Formatter<'_>) -> std::fmt::Result {
        match self {
            Opnd::T => write!(f, "T"),
            Opnd::F => write!(f, "F"),
            Opnd::H(k) => write!(f, "{}", k),
        }
    }
}

fn generate(cfg: &GenCfg, rng: &mut Rng, w: &mut dyn Write) {
    let ncases = if cfg.thorough { 36 } else { 9 } * cfg.scale.max(1);
    for case in 0..ncases {
        let levels = 4 + rng.below(3) as u32; // 4..6
        let hm = case % 3;
        // size of the fat level: small cases stay below the first growth (12 of 16 slots),
        // large ones grow several times (16 -> 32 -> ... ) and shrink again in gc
        let fat_target = match case % 9 {
            0 | 1 | 2 => 10 + rng.below(8),
            3 | 4 | 5 => 40 + rng.below(200),
            _ => if cfg.thorough { 600 + rng.below(2400) } else { 300 + rng.below(500) },
        } as usize;
        writeln!(w, "case {} levels {} hm {} fat {}", case, levels, hm, fat_target).unwrap();
        writeln!(w, "init {} {}", levels, hm).unwrap();
        let mut g = Gen::new();
        let fat = 1u32;
        // handles by level of their node
        let mut by_level: Vec<Vec<usize>> = vec![vec![]; levels as usize];
        let emit_mk = |g: &mut Gen, by_level: &mut Vec<Vec<usize>>, w: &mut dyn Write, l: u32, t: Opnd, e: Opnd| {
            writeln!(w, "mk {} {} {}", l, t, e).unwrap();
            let k = g.mk(l, t, e);
            let lv = g.level_of(g.handle_canon[k]);
            if lv != TERM_LEVEL {
                by_level[lv as usize].push(k);
            }
            k
        };
        // lower levels, bottom up: a pool of children
        for l in (fat + 1..levels).rev() {
            let want = match levels - 1 - l {
                0 => 2,
                1 => 8 + rng.below(5),
                _ => 30 + rng.below(40),
            };
            let pool: Vec<usize> = by_level[(l as usize + 1)..].iter().flatten().copied().collect();
            if pool.is_empty() {
                emit_mk(&mut g, &mut by_level, w, l, Opnd::T, Opnd::F);
                emit_mk(&mut g, &mut by_level, w, l, Opnd::F, Opnd::T);
                continue;
            }
            for _ in 0..want {
                let t = g.pick_below(rng, l, &pool);
                let e = g.pick_below(rng, l, &pool);
                emit_mk(&mut g, &mut by_level, w, l, t, e);
            }
        }
        let below_fat: Vec<usize> = by_level[(fat as usize + 1)..].iter().flatten().copied().collect();
        // the fat level, interleaved with hits, lookups, drops and collections
        let mut created = 0usize;
        let mut rounds = 0;
        while created < fat_target && rounds < 20 * fat_target + 200 {
            rounds += 1;
            let r = rng.below(100);
            if r < 70 {
                let t = g.pick_below(rng, fat, &below_fat);
                let e = g.pick_below(rng, fat, &below_fat);
                emit_mk(&mut g, &mut by_level, w, fat, t, e);
                created += 1;
            } else if r < 78 {
                // request an existing node again (a hit unless it was collected meanwhile)
                let nn = g.nodes.len();
                if nn > 0 {
                    let (l, ct, ce) = g.nodes[rng.below(nn as u64) as usize];
                    // operands must be live handles: look for handles of these canonical nodes
                    let find_h = |g: &Gen, c: usize| -> Option<Opnd> {
                        match c {
                            0 => Some(Opnd::F),
                            1 => Some(Opnd::T),
                            _ => (0..g.handle_canon.len()).find(|&k| g.live[k] && g.handle_canon[k] == c).map(Opnd::H),
                        }
                    };
                    if let (Some(t), Some(e)) = (find_h(&g, ct), find_h(&g, ce)) {
                        if rng.chance(1, 2) {
                            emit_mk(&mut g, &mut by_level, w, l, t, e);
                        } else {
                            writeln!(w, "find {} {} {}", l, t, e).unwrap();
                        }
                    }
                }
            } else if r < 85 {
                // lookup of random children (mostly misses)
                let t = g.pick_below(rng, fat, &below_fat);
                let e = g.pick_below(rng, fat, &below_fat);
                writeln!(w, "find {} {} {}", fat, t, e).unwrap();
            } else if r < 92 {
                // a parent on level 0 over fat-level nodes (collections cascade through it)
                let pool = &by_level[fat as usize];
                if !pool.is_empty() {
                    let t = g.pick_below(rng, 0, pool);
                    let e = g.pick_below(rng, 0, pool);
                    emit_mk(&mut g, &mut by_level, w, 0, t, e);
                }
            } else if r < 99 {
                // drop a burst of fat-level / top-level handles
                let burst = if rng.chance(1, 8) { 30 } else { 5 };
                let n = 1 + rng.below(burst);
                for _ in 0..n {
                    let lv = if rng.chance(1, 4) { 0 } else { fat as usize };
                    if by_level[lv].is_empty() {
                        continue;
                    }
                    let i = rng.below(by_level[lv].len() as u64) as usize;
                    let k = by_level[lv].swap_remove(i);
                    if g.live[k] {
                        g.live[k] = false;
                        writeln!(w, "drop {}", k).unwrap();
                    }
                }
            } else {
                writeln!(w, "gc").unwrap();
            }
        }
        writeln!(w, "lens").unwrap();
        // shrink: drop most handles of the fat level and of level 0, collect, look around, refill
        for lv in [0usize, fat as usize] {
            let mut keep = vec![];
            for &k in &by_level[lv] {
                if g.live[k] && rng.chance(9, 10) {
                    g.live[k] = false;
                    writeln!(w, "drop {}", k).unwrap();
                } else {
                    keep.push(k);
                }
            }
            by_level[lv] = keep;
        }
        writeln!(w, "gc").unwrap();
        for _ in 0..(10 + fat_target / 20) {
            let t = g.pick_below(rng, fat, &below_fat);
            let e = g.pick_below(rng, fat, &below_fat);
            if rng.chance(1, 2) {
                writeln!(w, "find {} {} {}", fat, t, e).unwrap();
            } else {
                emit_mk(&mut g, &mut by_level, w, fat, t, e);
            }
        }
        writeln!(w, "gc").unwrap();
        writeln!(w, "lens").unwrap();
        // everything goes
        for k in 0..g.live.len() {
            if g.live[k] {
                g.live[k] = false;
                writeln!(w, "drop {}", k).unwrap();
            }
        }
        writeln!(w, "gc").unwrap();
    }
    // ill-formed lines
    writeln!(w, "case malformed").unwrap();
    for l in ["mk 0 T F", "init 0 0", "init 3 0", "mk 3 T F", "mk 1 7 T", "find 9 T F", "drop 0", "frob", "mk 1 T F", "drop 0", "drop 0", "gc"] {
        writeln!(w, "{}", l).unwrap();
    }
}

fn make(_f: &BTreeMap<String, String>) -> Box<dyn Scenario> {
    Box::new(Sc { mref: None, hs: vec![], levels: 0 })
}
fn main() {
    harness_main(generate, make)
}
