//! Oracle-only scenario (no model stream): the concrete cases that the `example`s of
//! `OxiddModel/{Bdd,Bcdd,Zbdd,Tdd,Mtbdd}/PropertiesQueriesS.lean` decide on the store-level model
//! are run on the real code — `eval` with repeated and with unnamed variables, `var`/`not_var`/
//! `singleton`, `cofactors`, `node_count`, `satisfiable`/`valid` — under the 3-cycle order
//! (level_to_var = [2, 0, 1], var_to_level = [1, 2, 0]: not its own inverse) and, for TDD, under a
//! rotation of 40 variables (three `u32` words of packed choices).
//!
//! lines: `probe bdd|bcdd|zbdd|tdd|mtbdd` -> `ok <number of checks>`; a failed check is an oracle
//! failure `qs-<kind>` naming the check.
use oxidd::{BooleanFunction, BooleanVecSet, Function, Manager, ManagerRef, NumberBase, PseudoBooleanFunction, TVLFunction};
use oxidd_core::VarNo;
use oxv::*;
use std::collections::BTreeMap;
use std::io::Write;

type Res = Vec<(&'static str, bool)>;
fn probe_bdd(c: &mut Res) {

        use oxidd::bdd::BDDFunction as F;
        let mref = oxidd::bdd::new_manager(1 << 10, 1 << 8, 1);
        mref.with_manager_exclusive(|m| {
            m.add_vars(3);
            oxidd_reorder::set_var_order(m, &[2, 0, 1]);
            c.push(("bdd order", (0..3).map(|v| m.var_to_level(v)).collect::<Vec<_>>() == vec![1, 2, 0]
                && (0..3).map(|l| m.level_to_var(l)).collect::<Vec<_>>() == vec![2, 0, 1]));
        });
        let x: Vec<F> = (0..3).map(|v| mref.with_manager_shared(|m| F::var(m, v).unwrap())).collect();
        let nx0 = mref.with_manager_shared(|m| F::not_var(m, 0).unwrap());
        // exG = x2 ? x1 : (!x0 & x1)
        let f = x[2].ite(&x[1], &nx0.and(&x[1]).unwrap()).unwrap();
        c.push(("bdd eval last wins", !f.eval([(2, true), (0, true), (1, true), (2, false)])));
        c.push(("bdd eval", f.eval([(2, true), (0, true), (1, true)])));
        c.push(("bdd node_count 5 (3 inner + 2 terminals)", f.node_count() == 5));
        c.push(("bdd unnamed variable is TRUE (doc says false)", x[0].eval([]) && !nx0.eval([])));
        c.push(("bdd var/not_var eval", !x[0].eval([(0, false), (1, true), (2, true)]) && nx0.eval([(0, false), (1, true), (2, true)])));
        let (t, e) = f.cofactors().unwrap();
        c.push(("bdd cofactors", t == x[1] && e == nx0.and(&x[1]).unwrap()));
        c.push(("bdd sat/valid", f.satisfiable() && !f.valid()));
    }

fn probe_bcdd(c: &mut Res) {

        use oxidd::bcdd::BCDDFunction as F;
        let mref = oxidd::bcdd::new_manager(1 << 10, 1 << 8, 1);
        mref.with_manager_exclusive(|m| {
            m.add_vars(3);
            oxidd_reorder::set_var_order(m, &[2, 0, 1]);
        });
        let x: Vec<F> = (0..3).map(|v| mref.with_manager_shared(|m| F::var(m, v).unwrap())).collect();
        let nx0 = mref.with_manager_shared(|m| F::not_var(m, 0).unwrap());
        // exEdge = x2 ? !x1 : (x0 | x1)
        let f = x[2].ite(&x[1].not().unwrap(), &x[0].or(&x[1]).unwrap()).unwrap();
        c.push(("bcdd eval last wins", !f.eval([(2, false), (0, false), (1, true), (2, true)])));
        c.push(("bcdd eval", f.eval([(2, false), (0, false), (1, true)])));
        c.push(("bcdd node_count 4 (3 inner + 1 terminal)", f.node_count() == 4));
        c.push(("bcdd node_count of complement equal", f.not().unwrap().node_count() == 4));
        let g = x[2].xor(&x[1]).unwrap();
        c.push(("bcdd xor node_count 3 (node entered with both tags counted once)", g.node_count() == 3));
        c.push(("bcdd unnamed variable is TRUE", x[0].eval([]) && !nx0.eval([])));
        let (t, e) = f.cofactors().unwrap();
        c.push(("bcdd cofactors", t == x[1].not().unwrap() && e == x[0].or(&x[1]).unwrap()));
        c.push(("bcdd sat/valid", f.satisfiable() && !f.valid()));
    }

fn probe_zbdd(c: &mut Res) {

        use oxidd::zbdd::ZBDDFunction as F;
        let mref = oxidd::zbdd::new_manager(1 << 10, 1 << 8, 1);
        mref.with_manager_exclusive(|m| {
            m.add_vars(3);
            oxidd_reorder::set_var_order(m, &[2, 0, 1]);
            c.push(("zbdd order", (0..3).map(|v| m.var_to_level(v)).collect::<Vec<_>>() == vec![1, 2, 0]));
        });
        let x0 = mref.with_manager_shared(|m| F::var(m, 0).unwrap());
        c.push(("zbdd eval last wins", x0.eval([(0, false), (1, true), (0, true)])));
        c.push(("zbdd eval", !x0.eval([(0, true), (2, true), (0, false)])));
        c.push(("zbdd unnamed variable is FALSE", !x0.eval([])));
        c.push(("zbdd var node_count 5 (3 inner + 2 terminals)", x0.node_count() == 5));
        let s2 = mref.with_manager_shared(|m| F::singleton(m, 2).unwrap());
        c.push(("zbdd singleton needs the others false", !s2.eval([(2, true), (0, true)]) && s2.eval([(2, true), (0, false)]) && s2.eval([(2, true)])));
        let (hi, lo) = x0.cofactors().unwrap();
        c.push(("zbdd cofactors of var: equal children (don't-care node)", hi == lo));
        let t = mref.with_manager_shared(|m| F::t(m));
        c.push(("zbdd sat/valid", x0.satisfiable() && !x0.valid() && t.valid()));
    }

fn probe_tdd(c: &mut Res) {

        use oxidd::tdd::TDDFunction as F;
        let mref = oxidd::tdd::new_manager(1 << 10, 1 << 8, 1);
        mref.with_manager_exclusive(|m| {
            m.add_vars(40);
            let order: Vec<VarNo> = (0..40).map(|l| (l + 39) % 40).collect();
            oxidd_reorder::set_var_order(m, &order);
            c.push(("tdd order", (0..40).all(|v| m.var_to_level(v) == (v + 1) % 40)));
        });
        let var = |v: VarNo| mref.with_manager_shared(|m| F::var(m, v).unwrap());
        let (x1, x16, x32) = (var(1), var(16), var(32));
        c.push(("tdd eval last wins (levels 17, 33, 2 in three words)",
            x16.eval([(16, None), (32, Some(false)), (16, Some(true)), (1, None)]) == Some(true)
                && x32.eval([(16, None), (32, Some(false)), (16, Some(true)), (1, None)]) == Some(false)
                && x1.eval([(16, None), (32, Some(false)), (16, Some(true)), (1, None)]) == None));
        c.push(("tdd unnamed variable is TRUE (doc says unknown)", x16.eval([]) == Some(true)));
        c.push(("tdd var node_count 4 (1 inner + 3 terminals)", x16.node_count() == 4));
        let f = x1.and(&x16).unwrap();
        let (t, u, e) = f.cofactors().unwrap();
        c.push(("tdd cofactors (top variable 1 on level 2)", t == x16 && e == mref.with_manager_shared(|m| F::f(m))
            && u.eval([(16, Some(true))]) == None));
    }

fn probe_mtbdd(c: &mut Res) {

        use oxidd::mtbdd::MTBDDFunction;
        use oxidd::mtbdd::terminal::I64;
        type F = MTBDDFunction<I64>;
        let mref = oxidd::mtbdd::new_manager::<I64>(1 << 10, 1 << 8, 1 << 8, 1);
        mref.with_manager_exclusive(|m| {
            m.add_vars(3);
            oxidd_reorder::set_var_order(m, &[2, 0, 1]);
        });
        let x0 = mref.with_manager_shared(|m| F::var(m, 0).unwrap());
        c.push(("mtbdd var eval", x0.eval([(0, false), (1, true), (2, true)]) == I64::zero() && x0.eval([(0, true)]) == I64::one()));
        c.push(("mtbdd unnamed variable is TRUE", x0.eval([]) == I64::one()));
        c.push(("mtbdd var node_count 3", x0.node_count() == 3));
    }

struct Probe;
impl Scenario for Probe {
    fn reset(&mut self) {}
    fn step(&mut self, line: &str, ctx: &mut Ctx) -> String {
        let w: Vec<&str> = line.split_whitespace().collect();
        if w.len() != 2 || w[0] != "probe" {
            return "bad-op".into();
        }
        let mut c: Res = Vec::new();
        match w[1] {
            "bdd" => probe_bdd(&mut c),
            "bcdd" => probe_bcdd(&mut c),
            "zbdd" => probe_zbdd(&mut c),
            "tdd" => probe_tdd(&mut c),
            "mtbdd" => probe_mtbdd(&mut c),
            _ => return "bad-op".into(),
        }
        for (name, ok) in &c {
            ctx.count(&format!("{}.checks", w[1]));
            if !ok {
                ctx.fail(&format!("qs-{}", w[1]), name);
            }
        }
        format!("ok {}", c.len())
    }
}
fn generate(_cfg: &GenCfg, _rng: &mut Rng, w: &mut dyn Write) {
    writeln!(w, "case probe").unwrap();
    for k in ["bdd", "bcdd", "zbdd", "tdd", "mtbdd"] {
        writeln!(w, "probe {}", k).unwrap();
    }
}
fn make(_f: &BTreeMap<String, String>) -> Box<dyn Scenario> {
    Box::new(Probe)
}
fn main() {
    harness_main(generate, make)
}
