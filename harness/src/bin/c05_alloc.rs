//! C05 / C14 (node-slot allocator of the index manager): runtime allocator-trace correspondence.
//!
//! The library is compiled with `--cfg oxidd_verif`, which enables the hooks of
//! `oxidd_core::util::verif_alloc`: every operation of the node-slot allocator of the index manager
//! (`prepare_local_state`, `add_node`/`get_slot_from_shared`, `free_slot`/`return_slot`, the drop of
//! `LocalStoreStateGuard` with `return_preallocated`, the hand-over of the gc thread) logs one event.
//!
//! Two modes (two streams in `checks/C05.json`):
//!
//! * **run mode** (default; stream `alloc-run`, oracle only): `gen` writes *scripts* (one `case` per
//!   manager), `run` executes them on real BDD / BCDD / ZBDD managers, takes the logged events of the
//!   traced store and judges them **natively**:
//!   1. `alloc-live` / `double-free`: a plain bitmap of live slots replayed in log order;
//!   2. `conservation` (`recover` lines): after dropping everything exactly
//!      `cap − live − (slots held by threads attached for good)` node creations succeed, and after
//!      another drop + gc `num_inner_nodes()` is back to the value right after the creation;
//!   3. `hang`: the watchdog of `harness_main`;
//!   4. `node-count-drift` (`countcheck` lines, quiescent points only):
//!      `approx_num_inner_nodes() == num_inner_nodes()`;
//!   5. `allocator-discipline`: the complete replay (`Model`/`judge`, a mirror of the Lean checker
//!      `Alloc/Trace.lean: judgeStep` over `Alloc/Model.lean: step`) accepts every event, and the
//!      `nodes` / `audit` lines emitted at quiescent points are `ok`;
//!   6. (without the hooks; `probe` lines) `capacity`: with no dead node in the store, exactly
//!      `capacity − num_inner_nodes()` distinct nodes can be created before `add_node` fails
//!      (minus the slots held by threads attached for good), after partial use and after
//!      dropping everything;
//!   7. (without the hooks; after `session`, `sless`, `probe`, `verify` lines) `node-aliasing` /
//!      `duplicate-node`: every tree handle was created for a known cube (generation, depth, path):
//!      equal handles ⇔ equal cubes (compared without touching the manager); then under the
//!      exclusive lock `structure` / `ref-count` / `dangling-handle`: every stored node is listed
//!      once, at its level, above its children, no two nodes of a level have the same children,
//!      `ref_count` = handles + stored parent edges + references kept by the manager (ZBDD chain),
//!      every handle points to a stored node; `semantics`: `eval_edge` of every tree handle is true
//!      on its cube and false when a forced variable is flipped (all of them up to 20 000 handles,
//!      3 per handle above);
//!   and appends the events in the line format of the Lean driver `alloc` to a side file
//!   (`--trace-out F`, default `<oracle-out>.trace`).
//! * **trace mode** (`--mode trace`; stream `alloc-trace`, protocol `alloc`): `gen --trace-from F`
//!   copies the side file (plus synthetic negative cases `case neg-…`), `run` replays the lines with
//!   the Rust `Replay` and prints its verdicts; the Lean driver prints its own: the two columns must
//!   agree line by line, and outside the `neg-` cases every verdict must be `ok`.
//!
//! Script vocabulary (run mode), one `case` per traced manager:
//! ```text
//! outer <kind> <cap>                      an untraced manager A (for `nested`); before `mgr`
//! mgr <kind> <cap> <cache> <workers> <nvars> <gbits> <sd> <tcap>
//!                                         the traced manager (kind bdd|bcdd|zbdd; sd = split depth or `auto`;
//!                                         tcap = side-file line cap of the case, 0 = the run default)
//! fill <n> <k>                            a new tree of n nodes, created in sessions of k nodes (0: one session)
//! oomfill                                 new trees in one session until out of memory
//! drop <all|last|half> <permille>         drop the newest permille of the handles of the selected trees
//! fdrop <all|last|half> <permille>        the same, but another OS thread drops the handles
//! gc                                      explicit `gc()` on the main thread
//! waitgc                                  wait until the gc thread has finished a pending background collection
//! sessions <n> <pattern>                  n short sessions, each runs the pattern (a: create one node,
//!                                         d: drop the newest node of the session tree, g: gc, n: num_inner_nodes)
//! big <pairs> <sd>                        `(x0∧x_p) ∨ (x1∧x_{p+1}) ∨ …` with split depth sd (parallel recursion)
//! dropbig                                 drop the results of `big`
//! par <threads> <nops> <seed> <unit>      2–4 application threads fill/drop/gc/… concurrently
//! nested <fill|gc|sessions|drop …>        the line runs inside `with_manager_shared` of manager A:
//!                                         no local state for the traced store (the *foreign* paths)
//! session <tok>…                         ONE session of the main thread: a<N> N new nodes (a new tree), d<permille> drop
//!                                         the newest handles of that tree, g gc, n num_inner_nodes; then oracle (7)
//! sless <threads> <tok>…                  ONE session of the main thread in which <threads> scoped threads WITHOUT an
//!                                         allocation session use the edge-level API on the borrowed manager: a<N> together
//!                                         N new nodes (aL+<k>: k more than there are slots on the shared free lists),
//!                                         d<permille> every thread drops the newest handles of its tree, g thread 0
//!                                         collects; then oracle (7)
//! probe                                   the capacity oracle (6), then oracle (7)
//! verify                                  oracle (7)
//! recover                                 the conservation oracle (2)
//! countcheck                              the node-count oracle (4)
//! fin                                     drop everything, final `nodes`/`audit`, drop the manager
//! ```
//! A store that handed out a live slot (oracle 1) or fails oracle (7) with two nodes in one slot is
//! leaked and the rest of its case skipped (`skipped` lines): dropping handles or collecting would
//! touch freed memory.
//!
//! Generator flag: `--only p1,p2` writes only the cases whose names start with one of the prefixes
//! (cases `chunkgc-*`: a fresh chunk and a collection in one session; `sessionless-*`: threads
//! without an allocation session exhaust the shared free lists).
//! Run flags: `--trace-out F`, `--trace-cap N` (side-file lines per case, default 1 200 000; a
//! truncated case is a replayable prefix), `--fix-count 1` (the `store` header declares the patched
//! `node_count` bookkeeping, `Cfg.fixCount` of the model; default 0 = the code as it is).
//!
//! Known finding kept visible: `SharedStoreState::node_count` drifts by +1 per failed allocation and
//! per hand-over inside `free_slot`; the replay reproduces it (ghost `drift`), the oracle
//! `node-count-drift` reports it in the cases named `…-drift-…` (the only ones that put a
//! `countcheck` after such events).
#![allow(unexpected_cfgs)]
use std::collections::BTreeMap;
use std::io::Write;

use oxv::*;

const CHUNK: u64 = 65536;

// ------------------------------------------------------------------------------------------------
// the model (mirror of `Alloc/Model.lean`)

/// cell encoding: `UNINIT`, `LIVE`, anything else: `free next`
const UNINIT: u32 = u32::MAX;
const LIVE: u32 = u32::MAX - 1;

#[derive(Clone, Copy, PartialEq, Eq, Debug, Default)]
struct Loc {
    next: u64,
    init: u64,
    delta: i64,
    cur: bool,
}

#[derive(Clone, Copy, PartialEq, Eq, Debug)]
enum Variant {
    Faithful,
    /// (a) `free_slot` publishes the local list but keeps its head
    DoublePublish,
    /// (b) the gc thread keeps the head it handed over
    GcKeepsHead,
    /// (c) the guard's drop ignores a non-empty local list
    GuardIgnoresList,
    /// (d) `return_preallocated` ends the list of the chunk remainder with 0 instead of linking it in
    /// front of the thread-local list (the slots freed in the session are lost)
    RemainderDropsList,
    /// (e) `get_slot_from_shared` without local state advances the head of the top list in place and
    /// keeps the exhausted head on the stack
    ForeignKeepsHead,
}

#[derive(Clone, Copy, PartialEq, Eq, Debug)]
enum Src {
    LocalList,
    LocalChunk,
    SharedList,
    Chunk,
    Single,
    ForeignList,
    ForeignSingle,
}

const SRCS: [Src; 7] = [Src::LocalList, Src::LocalChunk, Src::SharedList, Src::Chunk, Src::Single, Src::ForeignList, Src::ForeignSingle];

fn src_name(s: Src) -> &'static str {
    match s {
        Src::LocalList => "local-list",
        Src::LocalChunk => "local-chunk",
        Src::SharedList => "shared-list",
        Src::Chunk => "chunk",
        Src::Single => "single",
        Src::ForeignList => "foreign-list",
        Src::ForeignSingle => "foreign-single",
    }
}

fn parse_src(s: &str) -> Option<Src> {
    SRCS.iter().copied().find(|x| src_name(*x) == s)
}

#[derive(Clone, Copy, PartialEq, Eq, Debug)]
enum Op {
    Attach(u64),
    Begin(u64),
    Alloc(u64),
    Free(u64, u64),
    GcHand(u64),
    End(u64),
}

impl Op {
    fn thread(self) -> u64 {
        match self {
            Op::Attach(t) | Op::Begin(t) | Op::Alloc(t) | Op::Free(t, _) | Op::GcHand(t) | Op::End(t) => t,
        }
    }
}

#[derive(Clone, Copy, PartialEq, Eq, Debug)]
enum Obs {
    None,
    Alloc { id: u64, src: Src, next: u64 },
    Oom { delta: i64 },
    Freed { prev: u64, ho: Option<(u64, i64)> },
    ForeignFreed { prev: u64 },
    GcHand { head: u64, delta: i64 },
    End { ret: bool, head: u64, start: u64, stop: u64, delta: i64 },
}

#[derive(Clone, Copy, PartialEq, Eq, Debug)]
struct Snap {
    count: i64,
    allocated: u64,
    lists: u64,
    gc: u64,
}

#[derive(Clone, Copy, PartialEq, Eq, Debug)]
struct Ev {
    op: Op,
    obs: Obs,
    snap: Option<Snap>,
    local_after: Option<u64>,
}

/// `Trace.lean: Viol`
#[derive(Clone, Copy, PartialEq, Eq, Debug)]
enum Viol {
    BadThread,
    AttachUsed,
    BeginNested,
    DoubleFree,
    FreeUninit,
    NoSession,
    AllocLive,
    Source(Src),
    Slot(u64),
    Link(u64),
    ModelOom,
    OomWithFreeSlots,
    Delta(i64),
    FreeMode,
    PublishedTwice,
    UnexpectedHandover,
    MissingHandover,
    Head(u64),
    SlotsLost,
    SpuriousReturn,
    Range,
    Shared,
    KeepsHead,
    Malformed,
}

impl Viol {
    /// `Driver.lean: violName`
    fn name(self) -> String {
        match self {
            Viol::BadThread => "bad-thread".into(),
            Viol::AttachUsed => "attach-used".into(),
            Viol::BeginNested => "begin-nested".into(),
            Viol::DoubleFree => "double-free".into(),
            Viol::FreeUninit => "free-uninit".into(),
            Viol::NoSession => "no-session".into(),
            Viol::AllocLive => "alloc-live".into(),
            Viol::Source(m) => format!("source model={}", src_name(m)),
            Viol::Slot(m) => format!("slot model={m}"),
            Viol::Link(m) => format!("link model={m}"),
            Viol::ModelOom => "model-oom".into(),
            Viol::OomWithFreeSlots => "oom-with-free-slots".into(),
            Viol::Delta(m) => format!("delta model={m}"),
            Viol::FreeMode => "free-mode".into(),
            Viol::PublishedTwice => "published-twice".into(),
            Viol::UnexpectedHandover => "unexpected-handover".into(),
            Viol::MissingHandover => "missing-handover".into(),
            Viol::Head(m) => format!("head model={m}"),
            Viol::SlotsLost => "slots-lost".into(),
            Viol::SpuriousReturn => "spurious-return".into(),
            Viol::Range => "range".into(),
            Viol::Shared => "shared".into(),
            Viol::KeepsHead => "keeps-head".into(),
            Viol::Malformed => "malformed".into(),
        }
    }
    /// the clause without the model's value (for statistics)
    fn clause(self) -> String {
        let n = self.name();
        n.split(' ').next().unwrap_or("").to_string()
    }
}

/// `Model.lean: State` + `Cfg`
struct Model {
    cap: u64,
    chunk: u64,
    terms: u64,
    fix: bool,
    mem: Vec<u32>,
    /// number of `LIVE` cells (maintained by `set_cell`)
    live: u64,
    /// `SharedStoreState::next_free`, the top of the stack is the LAST element
    stack: Vec<u64>,
    allocated: u64,
    count: i64,
    /// 0 disabled, 1 init, 2 triggered
    gc: u8,
    locals: Vec<Loc>,
    drift: u64,
    variant: Variant,
}

impl Model {
    fn new(cap: u64, chunk: u64, terms: u64, n: u64, fix: bool) -> Self {
        let mut m = Model { cap, chunk, terms, fix, mem: vec![UNINIT; (terms + cap) as usize], live: 0, stack: Vec::new(), allocated: 0, count: 0, gc: 0, locals: vec![Loc::default(); n as usize], drift: 0, variant: Variant::Faithful };
        m.gc = if m.lwm() < m.hwm() { 1 } else { 0 };
        m
    }
    fn lwm(&self) -> i64 {
        (self.cap / 100 * 90) as i64
    }
    fn hwm(&self) -> i64 {
        (self.cap / 100 * 95) as i64
    }
    fn cell(&self, id: u64) -> u32 {
        if id < self.mem.len() as u64 { self.mem[id as usize] } else { UNINIT }
    }
    fn set_cell(&mut self, id: u64, c: u32) {
        if id < self.mem.len() as u64 {
            let old = self.mem[id as usize];
            if old == LIVE {
                self.live -= 1;
            }
            if c == LIVE {
                self.live += 1;
            }
            self.mem[id as usize] = c;
        }
    }
    fn free_cell(next: u64) -> u32 {
        // links are model values (at most terms + cap), far below the two reserved codes
        next as u32
    }
    fn loc(&self, t: u64) -> Loc {
        if t < self.locals.len() as u64 { self.locals[t as usize] } else { Loc::default() }
    }
    fn set_loc(&mut self, t: u64, l: Loc) {
        if t < self.locals.len() as u64 {
            self.locals[t as usize] = l;
        }
    }
    fn valid(&self, t: u64) -> bool {
        t < self.locals.len() as u64
    }
    /// `use_free_slot`
    fn use_free_slot(&self, id: u64) -> u64 {
        let c = self.cell(id);
        if c < LIVE { c as u64 } else { 0 }
    }
    fn oom(&mut self, delta: i64) -> Obs {
        if self.fix {
            self.count -= 1;
        } else {
            self.drift += 1;
        }
        Obs::Oom { delta }
    }
    /// `get_slot_from_shared(local, delta)`
    fn get_slot_from_shared(&mut self, t: u64, delta: i64) -> Obs {
        self.count += delta;
        if self.gc == 1 && self.count >= self.hwm() {
            self.gc = 2;
        }
        let mut l = self.loc(t);
        if l.cur {
            if let Some(id) = self.stack.pop() {
                let nx = self.use_free_slot(id);
                self.set_cell(id, LIVE);
                l.next = nx;
                self.set_loc(t, l);
                Obs::Alloc { id, src: Src::SharedList, next: nx }
            } else {
                let index = self.allocated;
                if index + self.chunk < self.cap {
                    self.allocated = (index / self.chunk + 1) * self.chunk;
                    self.set_cell(index + self.terms, LIVE);
                    l.init = index + 1;
                    self.set_loc(t, l);
                    Obs::Alloc { id: index + self.terms, src: Src::Chunk, next: index + 1 }
                } else if index < self.cap {
                    self.allocated = index + 1;
                    self.set_cell(index + self.terms, LIVE);
                    Obs::Alloc { id: index + self.terms, src: Src::Single, next: 0 }
                } else {
                    self.oom(delta)
                }
            }
        } else if let Some(id) = self.stack.pop() {
            let nx = self.use_free_slot(id);
            if nx != 0 {
                self.stack.push(nx);
            } else if self.variant == Variant::ForeignKeepsHead {
                self.stack.push(id);
            }
            self.set_cell(id, LIVE);
            Obs::Alloc { id, src: Src::ForeignList, next: nx }
        } else {
            let index = self.allocated;
            if index >= self.cap {
                self.oom(delta)
            } else {
                self.allocated = index + 1;
                self.set_cell(index + self.terms, LIVE);
                Obs::Alloc { id: index + self.terms, src: Src::ForeignSingle, next: 0 }
            }
        }
    }
    /// `add_node`
    fn add_node(&mut self, t: u64) -> Obs {
        let mut l = self.loc(t);
        if l.cur {
            let delta = l.delta + 1;
            let id = l.next;
            if id != 0 {
                let nx = self.use_free_slot(id);
                self.set_cell(id, LIVE);
                l.next = nx;
                l.delta = delta;
                self.set_loc(t, l);
                Obs::Alloc { id, src: Src::LocalList, next: nx }
            } else {
                let index = l.init;
                if index % self.chunk != 0 {
                    self.set_cell(index + self.terms, LIVE);
                    l.init = index + 1;
                    l.delta = delta;
                    self.set_loc(t, l);
                    Obs::Alloc { id: index + self.terms, src: Src::LocalChunk, next: index + 1 }
                } else {
                    l.delta = 0;
                    self.set_loc(t, l);
                    self.get_slot_from_shared(t, delta)
                }
            }
        } else {
            self.get_slot_from_shared(t, 1)
        }
    }
    /// `free_slot(slot, id)`
    fn free_slot(&mut self, t: u64, id: u64) -> Obs {
        let mut l = self.loc(t);
        if l.cur {
            let prev = l.next;
            self.set_cell(id, Self::free_cell(prev));
            let delta = l.delta - 1;
            if delta > -(self.chunk as i64) {
                l.next = id;
                l.delta = delta;
                self.set_loc(t, l);
                Obs::Freed { prev, ho: None }
            } else {
                let added = if self.fix { delta } else { l.delta };
                self.stack.push(id);
                self.count += added;
                if !self.fix {
                    self.drift += 1;
                }
                l.next = if self.variant == Variant::DoublePublish { id } else { 0 };
                l.delta = 0;
                self.set_loc(t, l);
                Obs::Freed { prev, ho: Some((id, added)) }
            }
        } else {
            // `return_slot`
            let prev = self.stack.pop().unwrap_or(0);
            self.set_cell(id, Self::free_cell(prev));
            self.stack.push(id);
            self.count -= 1;
            Obs::ForeignFreed { prev }
        }
    }
    /// `return_preallocated`
    fn return_preallocated(&mut self, t: u64) -> Obs {
        let mut l = self.loc(t);
        let start = l.init;
        let d = l.delta;
        if start % self.chunk != 0 {
            let stop = (start / self.chunk + 1) * self.chunk;
            self.set_cell(stop - 1 + self.terms, Self::free_cell(if self.variant == Variant::RemainderDropsList { 0 } else { l.next }));
            let a = start + self.terms;
            for i in 0..(stop - 1 - start) {
                self.set_cell(a + i, Self::free_cell(a + i + 1));
            }
            let head = start + self.terms;
            self.stack.push(head);
            self.count += d;
            l.delta = 0;
            self.set_loc(t, l);
            Obs::End { ret: true, head, start, stop, delta: d }
        } else {
            let head = l.next;
            if head != 0 {
                self.stack.push(head);
            }
            self.count += d;
            l.delta = 0;
            self.set_loc(t, l);
            Obs::End { ret: true, head, start, stop: start, delta: d }
        }
    }
    /// `impl Drop for LocalStoreStateGuard`
    fn guard_drop(&mut self, t: u64) -> Obs {
        let mut l = self.loc(t);
        l.cur = false;
        self.set_loc(t, l);
        let list = if self.variant == Variant::GuardIgnoresList { false } else { l.next != 0 };
        if list || l.init % self.chunk != 0 || l.delta != 0 {
            self.return_preallocated(t)
        } else {
            Obs::End { ret: false, head: 0, start: l.init, stop: l.init, delta: 0 }
        }
    }
    /// the gc thread after `Manager::gc`
    fn gc_after(&mut self, t: u64) -> Obs {
        let mut l = self.loc(t);
        let (h, d) = if l.next != 0 {
            let r = (l.next, l.delta);
            self.count += l.delta;
            self.stack.push(l.next);
            if self.variant != Variant::GcKeepsHead {
                l.next = 0;
            }
            l.delta = 0;
            self.set_loc(t, l);
            r
        } else {
            (0, 0)
        };
        if self.count < self.lwm() && self.gc != 0 {
            self.gc = 1;
        }
        Obs::GcHand { head: h, delta: d }
    }
    /// `stepT`: `None` = the operation is impossible (state unchanged)
    fn step(&mut self, op: Op) -> Option<Obs> {
        match op {
            Op::Attach(t) => {
                if self.valid(t) && self.loc(t) == Loc::default() {
                    let mut l = self.loc(t);
                    l.cur = true;
                    self.set_loc(t, l);
                    Some(Obs::None)
                } else {
                    None
                }
            }
            Op::Begin(t) => {
                if self.valid(t) && !self.loc(t).cur {
                    let mut l = self.loc(t);
                    l.next = 0;
                    l.init = 0;
                    l.cur = true;
                    self.set_loc(t, l);
                    Some(Obs::None)
                } else {
                    None
                }
            }
            Op::Alloc(t) => self.valid(t).then(|| self.add_node(t)),
            Op::Free(t, id) => (self.valid(t) && self.cell(id) == LIVE).then(|| self.free_slot(t, id)),
            Op::GcHand(t) => (self.valid(t) && self.loc(t).cur).then(|| self.gc_after(t)),
            Op::End(t) => (self.valid(t) && self.loc(t).cur).then(|| self.guard_drop(t)),
        }
    }
    fn snap(&self) -> Snap {
        Snap { count: self.count, allocated: self.allocated, lists: self.stack.len() as u64, gc: self.gc as u64 }
    }
    /// `Trace.lean: whyDisabled`
    fn why_disabled(&self, op: Op) -> Viol {
        match op {
            Op::Attach(t) => if self.valid(t) { Viol::AttachUsed } else { Viol::BadThread },
            Op::Begin(t) => if self.valid(t) { Viol::BeginNested } else { Viol::BadThread },
            Op::Alloc(_) => Viol::BadThread,
            Op::Free(t, id) => {
                if self.valid(t) {
                    if self.cell(id) < LIVE { Viol::DoubleFree } else { Viol::FreeUninit }
                } else {
                    Viol::BadThread
                }
            }
            Op::GcHand(t) | Op::End(t) => if self.valid(t) { Viol::NoSession } else { Viol::BadThread },
        }
    }
    /// `Trace.lean: judgeStep`: do the model's step, `None` = ok
    fn judge(&mut self, e: &Ev) -> Option<Viol> {
        let live = match e.obs {
            Obs::Alloc { id, .. } => self.cell(id) == LIVE,
            _ => false,
        };
        let publ = match e.obs {
            Obs::Freed { prev, .. } => self.stack.contains(&prev),
            _ => false,
        };
        match self.step(e.op) {
            None => Some(self.why_disabled(e.op)),
            Some(o) => {
                if o != e.obs {
                    Some(why_obs(live, publ, o, e.obs))
                } else if e.local_after.is_some_and(|la| la != self.loc(e.op.thread()).next) {
                    Some(Viol::KeepsHead)
                } else if e.snap.is_some_and(|s| s != self.snap()) {
                    Some(Viol::Shared)
                } else {
                    None
                }
            }
        }
    }
    /// length of the list starting at `h` (bounded), for the conservation oracle
    fn list_len(&self, h: u64) -> u64 {
        let mut n = 0;
        let mut cur = h;
        while cur != 0 && n <= self.mem.len() as u64 {
            let c = self.cell(cur);
            if c >= LIVE {
                break;
            }
            n += 1;
            cur = c as u64;
        }
        n
    }
    fn chunk_end(&self, i: u64) -> u64 {
        if i % self.chunk == 0 { i } else { (i / self.chunk + 1) * self.chunk }
    }
    fn delta_sum(&self) -> i64 {
        self.locals.iter().map(|l| l.delta).sum()
    }
    /// `Driver.lean: markList`
    fn mark_list(&self, seen: &mut Vec<bool>, h: u64) -> Result<u64, &'static str> {
        // (the Lean version returns the marks only on success: undo on error)
        let mut marked: Vec<u64> = Vec::new();
        let mut cur = h;
        let mut n = 0u64;
        let mut err = None;
        for _ in 0..self.mem.len() + 1 {
            if cur == 0 {
                break;
            }
            let c = self.cell(cur);
            if c < LIVE {
                if seen.get(cur as usize).copied().unwrap_or(true) {
                    err = Some("lists-overlap");
                    break;
                }
                seen[cur as usize] = true;
                marked.push(cur);
                n += 1;
                cur = c as u64;
            } else {
                err = Some("list-broken");
                break;
            }
        }
        if err.is_none() && cur != 0 {
            err = Some("list-broken");
        }
        match err {
            Some(e) => {
                for m in marked {
                    seen[m as usize] = false;
                }
                Err(e)
            }
            None => Ok(n),
        }
    }
    /// `Driver.lean: auditLine`
    fn audit_line(&self) -> String {
        let live = self.mem.iter().filter(|c| **c == LIVE).count() as u64;
        let fresh = self.cap.saturating_sub(self.allocated);
        let mut seen = vec![false; self.mem.len()];
        let (mut shared, mut loc, mut reserved) = (0u64, 0u64, 0u64);
        let mut verdict: &str = "";
        for &h in self.stack.iter().rev() {
            if h == 0 && verdict.is_empty() {
                verdict = "zero-head";
            }
            match self.mark_list(&mut seen, h) {
                Ok(n) => shared += n,
                Err(e) => {
                    if verdict.is_empty() {
                        verdict = e
                    }
                }
            }
        }
        for l in &self.locals {
            if l.cur {
                match self.mark_list(&mut seen, l.next) {
                    Ok(n) => loc += n,
                    Err(e) => {
                        if verdict.is_empty() {
                            verdict = e
                        }
                    }
                }
            }
        }
        let mut free_cells = 0u64;
        for i in 0..self.cap {
            let id = i + self.terms;
            let c = self.cell(id);
            if c < LIVE {
                free_cells += 1;
            }
            if id >= self.allocated + self.terms && c != UNINIT && verdict.is_empty() {
                verdict = "fresh-not-uninit";
            }
        }
        for l in &self.locals {
            if l.cur {
                for i in l.init..self.chunk_end(l.init) {
                    let id = i + self.terms;
                    reserved += 1;
                    if verdict.is_empty() {
                        if seen.get(id as usize).copied().unwrap_or(true) {
                            verdict = "reserved-overlap";
                        } else if self.cell(id) != UNINIT || i >= self.allocated {
                            verdict = "reserved-not-uninit";
                        }
                    }
                    if (id as usize) < seen.len() {
                        seen[id as usize] = true;
                    }
                }
            }
        }
        if verdict.is_empty() {
            verdict = if self.mem.len() as u64 != self.terms + self.cap {
                "size"
            } else if self.allocated > self.cap {
                "allocated"
            } else if free_cells != shared + loc {
                "free-slot-in-no-list"
            } else if live + shared + loc + reserved + fresh != self.cap {
                "slots-lost"
            } else if !self.locals.iter().all(|l| l.cur || l.delta == 0) {
                "stale-delta"
            } else if self.count + self.delta_sum() != live as i64 + self.drift as i64 {
                "count-mismatch"
            } else if live != self.live {
                "internal-live-counter" // (never: the incremental counter of this mirror)
            } else {
                "ok"
            };
        }
        format!("audit live={live} shared={shared} local={loc} reserved={reserved} fresh={fresh} count={} deltas={} drift={} {verdict}", self.count, self.delta_sum(), self.drift)
    }
}

/// `Trace.lean: whyObs`
fn why_obs(live: bool, publ: bool, m: Obs, r: Obs) -> Viol {
    match (m, r) {
        (Obs::Alloc { id, src, next }, Obs::Alloc { id: id2, src: src2, next: next2 }) => {
            if live {
                Viol::AllocLive
            } else if src != src2 {
                Viol::Source(src)
            } else if id != id2 {
                Viol::Slot(id)
            } else if next != next2 {
                Viol::Link(next)
            } else {
                Viol::Malformed
            }
        }
        (Obs::Oom { .. }, Obs::Alloc { .. }) => if live { Viol::AllocLive } else { Viol::ModelOom },
        (Obs::Alloc { .. }, Obs::Oom { .. }) => Viol::OomWithFreeSlots,
        (Obs::Oom { delta }, Obs::Oom { .. }) => Viol::Delta(delta),
        (Obs::Freed { prev, ho }, Obs::Freed { prev: prev2, ho: ho2 }) => {
            if prev != prev2 {
                if publ { Viol::PublishedTwice } else { Viol::Link(prev) }
            } else {
                match (ho, ho2) {
                    (None, Some(_)) => Viol::UnexpectedHandover,
                    (Some(_), None) => Viol::MissingHandover,
                    (Some((h, d)), Some((h2, _))) => if h != h2 { Viol::Head(h) } else { Viol::Delta(d) },
                    (None, None) => Viol::Malformed,
                }
            }
        }
        (Obs::ForeignFreed { prev }, Obs::ForeignFreed { .. }) => Viol::Link(prev),
        (Obs::Freed { .. }, Obs::ForeignFreed { .. }) | (Obs::ForeignFreed { .. }, Obs::Freed { .. }) => Viol::FreeMode,
        (Obs::GcHand { head, delta }, Obs::GcHand { head: h2, .. }) => if head != h2 { Viol::Head(head) } else { Viol::Delta(delta) },
        (Obs::End { ret, head, start, stop, delta }, Obs::End { ret: r2, head: h2, start: a2, stop: b2, .. }) => {
            if ret && !r2 {
                Viol::SlotsLost
            } else if !ret && r2 {
                Viol::SpuriousReturn
            } else if start != a2 || stop != b2 {
                Viol::Range
            } else if head != h2 {
                Viol::Head(head)
            } else {
                Viol::Delta(delta)
            }
        }
        _ => Viol::Malformed,
    }
}

// ------------------------------------------------------------------------------------------------
// the line protocol `alloc` (mirror of `Alloc/Driver.lean: stepWords`)

fn snap_suffix(s: &Option<Snap>) -> String {
    match s {
        Some(s) => format!(" | {} {} {} {}", s.count, s.allocated, s.lists, s.gc),
        None => String::new(),
    }
}

/// the protocol line of an event
fn ev_line(e: &Ev) -> String {
    let sn = snap_suffix(&e.snap);
    match (e.op, e.obs) {
        (Op::Attach(t), _) => format!("attach {t}"),
        (Op::Begin(t), _) => format!("begin {t}"),
        (Op::Alloc(t), Obs::Alloc { id, src, next }) => format!("alloc {t} {id} {} {next}{sn}", src_name(src)),
        (Op::Alloc(t), Obs::Oom { delta }) => format!("oom {t} {delta}{sn}"),
        (Op::Free(t, id), Obs::Freed { prev, ho: None }) => format!("free {t} {id} {prev}"),
        (Op::Free(t, id), Obs::Freed { prev, ho: Some((h, d)) }) => format!("freeho {t} {id} {prev} {h} {d} {}{sn}", e.local_after.unwrap_or(0)),
        (Op::Free(t, id), Obs::ForeignFreed { prev }) => format!("ffree {t} {id} {prev}{sn}"),
        (Op::GcHand(t), Obs::GcHand { head, delta }) => format!("gchand {t} {head} {delta} {}{sn}", e.local_after.unwrap_or(0)),
        (Op::End(t), Obs::End { ret, head, start, stop, delta }) => format!("end {t} {} {head} {start} {stop} {delta}{sn}", ret as u8),
        _ => "malformed-event".into(),
    }
}

/// Lean's `String.toNat?` (digits, `_` as separator between digits); values beyond 2^62 are not
/// representable here and never generated
fn nat(s: &str) -> Option<u64> {
    let mut last_digit = false;
    let mut v: u64 = 0;
    for b in s.bytes() {
        if b == b'_' {
            if !last_digit {
                return None;
            }
            last_digit = false;
        } else if b.is_ascii_digit() {
            last_digit = true;
            v = v.checked_mul(10)?.checked_add((b - b'0') as u64)?;
            if v > (1 << 62) {
                return None;
            }
        } else {
            return None;
        }
    }
    last_digit.then_some(v)
}

/// Lean's `String.toInt?`
fn int(s: &str) -> Option<i64> {
    match s.strip_prefix('-') {
        Some(r) => nat(r).map(|v| -(v as i64)),
        None => nat(s).map(|v| v as i64),
    }
}

fn parse_snap(ws: &[&str]) -> Option<Option<Snap>> {
    match ws {
        [] => Some(None),
        ["|", a, b, l, g] => Some(Some(Snap { count: int(a)?, allocated: nat(b)?, lists: nat(l)?, gc: nat(g)? })),
        _ => None,
    }
}

/// `Proto.lean: words`: split at blanks only
fn words_sp(line: &str) -> Vec<&str> {
    line.trim_matches(|c: char| c.is_ascii_whitespace()).split(' ').filter(|w| !w.is_empty()).collect()
}

enum Parsed {
    Store { cap: u64, chunk: u64, terms: u64, n: u64, fix: bool },
    Ev(Ev),
    Nodes(u64),
    Audit,
    Bad,
}

fn parse_line(line: &str) -> Parsed {
    let w = words_sp(line);
    let ev = |op, obs, snap, local_after| Parsed::Ev(Ev { op, obs, snap, local_after });
    let r: Option<Parsed> = (|| match w.as_slice() {
        ["store", cap, chunk, terms, n, fix] => {
            let (cap, chunk, terms, n) = (nat(cap)?, nat(chunk)?, nat(terms)?, nat(n)?);
            if chunk == 0 || terms == 0 || !(*fix == "0" || *fix == "1") {
                return None;
            }
            Some(Parsed::Store { cap, chunk, terms, n, fix: *fix == "1" })
        }
        ["attach", t] => Some(ev(Op::Attach(nat(t)?), Obs::None, None, None)),
        ["begin", t] => Some(ev(Op::Begin(nat(t)?), Obs::None, None, None)),
        ["alloc", t, slot, src, nx, rest @ ..] => {
            let (t, id, src, next, snap) = (nat(t)?, nat(slot)?, parse_src(src)?, nat(nx)?, parse_snap(rest)?);
            Some(ev(Op::Alloc(t), Obs::Alloc { id, src, next }, snap, None))
        }
        ["oom", t, delta, rest @ ..] => {
            let (t, delta, snap) = (nat(t)?, int(delta)?, parse_snap(rest)?);
            Some(ev(Op::Alloc(t), Obs::Oom { delta }, snap, None))
        }
        ["free", t, slot, prev] => {
            let (t, id, prev) = (nat(t)?, nat(slot)?, nat(prev)?);
            Some(ev(Op::Free(t, id), Obs::Freed { prev, ho: None }, None, None))
        }
        ["freeho", t, slot, prev, head, delta, la, rest @ ..] => {
            let (t, id, prev, head, delta, la, snap) = (nat(t)?, nat(slot)?, nat(prev)?, nat(head)?, int(delta)?, nat(la)?, parse_snap(rest)?);
            Some(ev(Op::Free(t, id), Obs::Freed { prev, ho: Some((head, delta)) }, snap, Some(la)))
        }
        ["ffree", t, slot, prev, rest @ ..] => {
            let (t, id, prev, snap) = (nat(t)?, nat(slot)?, nat(prev)?, parse_snap(rest)?);
            Some(ev(Op::Free(t, id), Obs::ForeignFreed { prev }, snap, None))
        }
        ["gchand", t, head, delta, la, rest @ ..] => {
            let (t, head, delta, la, snap) = (nat(t)?, nat(head)?, int(delta)?, nat(la)?, parse_snap(rest)?);
            Some(ev(Op::GcHand(t), Obs::GcHand { head, delta }, snap, Some(la)))
        }
        ["end", t, r, head, a, b, delta, rest @ ..] => {
            let (t, head, start, stop, delta, snap) = (nat(t)?, nat(head)?, nat(a)?, nat(b)?, int(delta)?, parse_snap(rest)?);
            if !(*r == "0" || *r == "1") {
                return None;
            }
            Some(ev(Op::End(t), Obs::End { ret: *r == "1", head, start, stop, delta }, snap, None))
        }
        ["nodes", n] => Some(Parsed::Nodes(nat(n)?)),
        ["audit"] => Some(Parsed::Audit),
        _ => None,
    })();
    r.unwrap_or(Parsed::Bad)
}

/// state of the protocol: `Driver.lean: DState`
struct Replay {
    m: Model,
    ready: bool,
}

impl Replay {
    fn new() -> Self {
        Replay { m: Model::new(0, 1, 1, 0, false), ready: false }
    }
    fn verdict(v: Option<Viol>) -> String {
        match v {
            None => "ok".into(),
            Some(v) => format!("violation {}", v.name()),
        }
    }
    /// one line of the protocol; the second component: the violated clause of an event line
    fn step_line(&mut self, line: &str) -> (String, Option<Viol>) {
        match parse_line(line) {
            Parsed::Store { cap, chunk, terms, n, fix } => {
                self.m = Model::new(cap, chunk, terms, n, fix);
                self.ready = true;
                ("store ok".into(), None)
            }
            _ if !self.ready => ("bad-op".into(), None),
            Parsed::Ev(e) => {
                let v = self.m.judge(&e);
                (Self::verdict(v), v)
            }
            Parsed::Nodes(n) => (if n == self.m.live { "ok".into() } else { format!("live-mismatch model={}", self.m.live) }, None),
            Parsed::Audit => (self.m.audit_line(), None),
            Parsed::Bad => ("bad-op".into(), None),
        }
    }
}

// ------------------------------------------------------------------------------------------------
// trace mode: replay of a recorded trace (real-side column of stream `alloc-trace`)

struct TraceSc {
    rp: Replay,
    /// failures reported in the current case (at most 8: a broken allocator fails at every event)
    reported: u32,
}

impl Scenario for TraceSc {
    fn reset(&mut self) {
        self.rp = Replay::new();
        self.reported = 0;
    }
    fn step(&mut self, line: &str, ctx: &mut Ctx) -> String {
        let (out, v) = self.rp.step_line(line);
        let w0 = line.split(' ').next().unwrap_or("");
        let neg = ctx.case.starts_with("case neg-");
        let known = matches!(w0, "store" | "attach" | "begin" | "alloc" | "oom" | "free" | "freeho" | "ffree" | "gchand" | "end" | "nodes" | "audit");
        ctx.count(&format!("trace.{}", if known { w0 } else { "other" }));
        if neg {
            if let Some(v) = v {
                ctx.count(&format!("trace.neg.{}", v.clause()));
            } else if out == "bad-op" {
                ctx.count("trace.neg.bad-op");
            } else if out.starts_with("live-mismatch") {
                ctx.count("trace.neg.live-mismatch");
            }
        } else {
            let good = match w0 {
                "store" => out == "store ok",
                "audit" => out.ends_with(" ok"),
                _ => out == "ok",
            };
            if !good {
                self.reported += 1;
                if self.reported <= 8 {
                    ctx.fail("allocator-discipline", &format!("recorded line `{line}` is rejected by the replay of the allocator model: {out}"));
                } else {
                    ctx.count("suppressed-failures.allocator-discipline");
                }
            }
        }
        out
    }
}

/// the lines the *defective* code (model variant `v`) would log for a sequence of operations
fn synth(v: Variant, cap: u64, chunk: u64, terms: u64, n: u64, ops: &[Op]) -> Vec<String> {
    let mut m = Model::new(cap, chunk, terms, n, false);
    m.variant = v;
    let mut out = vec![format!("store {cap} {chunk} {terms} {n} 0")];
    for &op in ops {
        match m.step(op) {
            Some(o) => {
                let snap = match (op, o) {
                    (Op::Alloc(_), Obs::Alloc { src: Src::LocalList | Src::LocalChunk, .. }) => None,
                    (Op::Free(..), Obs::Freed { ho: None, .. }) => None,
                    (Op::End(_), Obs::End { ret: false, .. }) => None,
                    (Op::Attach(_) | Op::Begin(_), _) => None,
                    _ => Some(m.snap()),
                };
                let la = Some(m.loc(op.thread()).next);
                out.push(ev_line(&Ev { op, obs: o, snap, local_after: la }));
            }
            None => out.push(format!("# impossible in the defective model: {op:?}")),
        }
    }
    out
}

/// synthetic cases: both columns must judge them the same way
fn neg_cases(w: &mut dyn Write) {
    let mut cases: Vec<(String, Vec<String>)> = Vec::new();
    let rep = |op: Op, n: usize| std::iter::repeat(op).take(n);
    // (a) double publish after a hand-over in `free_slot`
    {
        let mut ops: Vec<Op> = vec![Op::Begin(0)];
        ops.extend(rep(Op::Alloc(0), 7));
        ops.push(Op::End(0));
        ops.push(Op::Begin(0));
        ops.extend([2, 3, 4, 5].map(|s| Op::Free(0, s))); // the 4th free hands over (chunk = 4)
        ops.push(Op::Free(0, 6)); // linked to the head that was published
        ops.extend(rep(Op::Alloc(0), 2)); // 6, then 5 (which is on the shared stack as well)
        ops.push(Op::Begin(1));
        ops.extend(rep(Op::Alloc(1), 2)); // pops the published list: 5 again
        ops.push(Op::End(1));
        ops.push(Op::End(0));
        let mut l = synth(Variant::DoublePublish, 16, 4, 2, 3, &ops);
        l.push("nodes 7".into());
        l.push("audit".into());
        cases.push(("neg-a-double-publish".into(), l));
    }
    // (b) the gc thread keeps the head it handed over
    {
        let mut ops: Vec<Op> = vec![Op::Attach(1), Op::Begin(0)];
        ops.extend(rep(Op::Alloc(0), 6));
        ops.push(Op::End(0));
        ops.extend([Op::Free(1, 3), Op::Free(1, 4), Op::GcHand(1)]);
        ops.extend([Op::Free(1, 5), Op::GcHand(1)]); // 5 is linked to the kept head 4: 4 -> 3 is published twice
        ops.push(Op::Begin(0));
        ops.extend(rep(Op::Alloc(0), 5));
        ops.push(Op::End(0));
        let mut l = synth(Variant::GcKeepsHead, 16, 4, 2, 3, &ops);
        l.push("audit".into());
        cases.push(("neg-b-gc-keeps-head".into(), l));
    }
    // (c) the guard's drop ignores a non-empty local list
    {
        let mut ops: Vec<Op> = vec![Op::Begin(0)];
        ops.extend(rep(Op::Alloc(0), 2));
        ops.push(Op::End(0)); // returns the remainder 4 -> 5
        ops.extend([Op::Begin(0), Op::Alloc(0), Op::End(0)]); // pops the 2-slot list, exactly one alloc: delta 0, list not empty
        ops.push(Op::Begin(0));
        ops.extend(rep(Op::Alloc(0), 14)); // the defective code runs out of memory two slots early
        ops.push(Op::End(0));
        let mut l = synth(Variant::GuardIgnoresList, 16, 4, 2, 2, &ops);
        l.push("audit".into());
        cases.push(("neg-c-guard-ignores-list".into(), l));
    }
    // (d) the chunk remainder is not linked in front of the slots freed in the session
    {
        let mut ops: Vec<Op> = vec![Op::Begin(0)];
        ops.extend(rep(Op::Alloc(0), 2)); // a fresh chunk: slots 2, 3
        ops.push(Op::Free(0, 2)); // freed in the same session
        ops.push(Op::End(0)); // the remainder 4 -> 5 must continue with 2
        ops.push(Op::Begin(0));
        ops.extend(rep(Op::Alloc(0), 3)); // 4, 5 (link 0 instead of 2), then a new chunk instead of slot 2
        ops.push(Op::End(0));
        ops.push(Op::Begin(0));
        ops.extend(rep(Op::Alloc(0), 12)); // the defective code runs out of memory one slot early
        ops.push(Op::End(0));
        let mut l = synth(Variant::RemainderDropsList, 16, 4, 2, 2, &ops);
        l.push("audit".into());
        cases.push(("neg-d-remainder-drops-list".into(), l));
    }
    // (e) a thread without local state keeps the exhausted head on the shared stack
    {
        let mut ops: Vec<Op> = vec![Op::Begin(0)];
        ops.extend(rep(Op::Alloc(0), 6));
        ops.extend([Op::Free(0, 3), Op::Free(0, 4)]);
        ops.push(Op::End(0)); // remainder 8 -> 9 -> 4 -> 3 on the shared stack
        ops.extend(rep(Op::Alloc(1), 4)); // thread 1 has no session: 8, 9, 4, 3 (the last slot of the list)
        ops.extend(rep(Op::Alloc(1), 2)); // the stale head: slot 3 again, twice
        ops.push(Op::Begin(0));
        ops.push(Op::Alloc(0)); // … and a session pops the stale head as a list
        ops.push(Op::End(0));
        let mut l = synth(Variant::ForeignKeepsHead, 16, 4, 2, 2, &ops);
        l.push("nodes 8".into());
        l.push("audit".into());
        cases.push(("neg-e-foreign-keeps-head".into(), l));
    }
    // the same operations logged by the faithful code: everything `ok` (sanity of the synthesis)
    {
        let mut ops: Vec<Op> = vec![Op::Attach(2), Op::Begin(0)];
        ops.extend(rep(Op::Alloc(0), 7));
        ops.push(Op::End(0));
        ops.push(Op::Begin(0));
        ops.extend([2, 3, 4, 5, 6].map(|s| Op::Free(0, s)));
        ops.extend(rep(Op::Alloc(0), 2));
        ops.push(Op::Begin(1));
        ops.extend(rep(Op::Alloc(1), 2));
        ops.extend([Op::Free(2, 7), Op::GcHand(2), Op::GcHand(2)]);
        ops.extend([Op::End(1), Op::End(0), Op::Alloc(1), Op::Free(1, 8), Op::Alloc(1), Op::Alloc(1)]);
        let mut l = synth(Variant::Faithful, 16, 4, 2, 3, &ops);
        l.push("audit".into());
        cases.push(("neg-faithful-synth".into(), l));
    }
    // background collection: trigger at the high water mark, re-armed below the low water mark
    {
        let mut ops: Vec<Op> = vec![Op::Attach(1), Op::Begin(0)];
        ops.extend(rep(Op::Alloc(0), 97));
        ops.push(Op::End(0));
        ops.extend((2..14).map(|s| Op::Free(1, s)));
        ops.push(Op::GcHand(1));
        ops.push(Op::Begin(0));
        ops.extend(rep(Op::Alloc(0), 16));
        ops.push(Op::End(0));
        ops.push(Op::GcHand(1));
        let mut l = synth(Variant::Faithful, 100, 8, 1, 2, &ops);
        l.push("audit".into());
        l.push("alloc 0 99 foreign-single 0 | 102 99 0 1".into()); // wrong gc state
        l.push("oom 0 1 | 103 99 0 2".into());
        l.push("audit".into());
        cases.push(("neg-gc-states".into(), l));
    }
    let hand: &[(&str, &[&str])] = &[
        ("neg-double-free", &["store 16 4 2 3 0", "begin 0", "alloc 0 2 chunk 1 | 1 4 0 0", "alloc 0 3 local-chunk 2", "free 0 2 0", "free 0 2 2", "free 0 3 2", "ffree 1 3 0 | 0 4 0 0", "nodes 0", "audit"]),
        ("neg-free-uninit", &["store 16 4 2 3 0", "begin 0", "free 0 9 0", "free 0 1 0", "free 0 99 0", "ffree 1 9 0", "free 5 9 0", "audit"]),
        ("neg-alloc-live", &["store 16 4 2 3 0", "begin 0", "alloc 0 2 chunk 1 | 1 4 0 0", "alloc 0 2 local-chunk 2", "alloc 0 3 local-chunk 3", "alloc 0 2 local-list 0", "nodes 4", "nodes 3", "audit"]),
        ("neg-bad-thread", &["store 16 4 2 3 0", "begin 3", "attach 7", "alloc 3 2 single 0", "oom 9 1", "free 4 2 0", "gchand 3 0 0 0", "end 3 0 0 0 0 0", "begin 2", "audit"]),
        ("neg-nested-begin", &["store 16 4 2 3 0", "begin 0", "begin 0", "attach 0", "attach 1", "attach 1", "begin 1", "end 0 0 0 0 0 0", "begin 0", "end 0 0 0 0 0 0", "attach 0", "audit"]),
        ("neg-no-session", &["store 16 4 2 3 0", "gchand 1 0 0 0 | 0 0 0 0", "end 0 0 0 0 0 0", "end 0 1 0 0 0 0 | 0 0 0 0", "alloc 0 2 foreign-single 0 | 1 1 0 0", "free 0 2 0", "ffree 0 2 0 | 0 1 1 0", "alloc 0 2 foreign-list 0 | 1 1 0 0", "audit"]),
        ("neg-wrong-snapshot", &["store 16 4 2 3 0", "begin 0", "alloc 0 2 chunk 1 | 2 4 0 0", "alloc 0 3 local-chunk 2", "end 0 1 4 2 4 2 | 2 4 1 2", "end 0 1 4 2 4 2 | 2 4 1 0", "begin 1", "alloc 1 4 shared-list 5 | 3 5 0 0", "alloc 1 5 local-list 0 | 3 4 0 0", "end 1 0 0 0 0 0", "audit"]),
        ("neg-observations", &[
            "store 16 4 2 3 0", "begin 0", "alloc 0 2 single 0 | 1 1 0 0", "alloc 0 4 local-chunk 2", "alloc 0 4 local-chunk 9", "oom 0 4 | 4 4 0 0", "free 0 2 7", "freeho 0 3 2 3 -2 0 | 2 4 1 0", "ffree 0 4 0 | 3 4 0 0", "end 0 0 0 3 3 0", "begin 1", "end 1 1 0 0 0 0 | 3 4 1 0",
            "begin 0", "alloc 0 9 chunk 5 | 3 8 1 0", "end 0 1 7 5 8 9 | 3 8 2 0", "begin 0", "end 0 0 0 0 0 0", "attach 2", "gchand 2 5 0 0 | 3 8 2 0", "free 2 7 0", "gchand 2 7 3 0 | 2 8 3 0", "gchand 2 0 0 5 | 2 8 3 0", "audit",
        ]),
        ("neg-handover", &[
            "store 16 4 2 2 1", "begin 0", "alloc 0 2 chunk 1 | 1 4 0 0", "alloc 0 3 local-chunk 2", "alloc 0 4 local-chunk 3", "alloc 0 5 local-chunk 4", "alloc 0 6 chunk 5 | 5 8 0 0", "end 0 1 7 5 8 0 | 5 8 1 0", "begin 0", "free 0 2 0", "free 0 3 2", "free 0 4 3", "free 0 5 4",
            "alloc 0 7 shared-list 8 | 1 8 1 0", "free 0 6 8", "free 0 7 6", "freeho 0 7 6 7 -2 0 | 1 8 1 0", "audit",
        ]),
        ("neg-oom", &["store 3 4 1 2 0", "begin 0", "alloc 0 1 single 0 | 1 1 0 0", "alloc 0 2 single 0 | 2 2 0 0", "oom 0 1 | 3 2 0 0", "alloc 0 3 single 0 | 3 3 0 0", "alloc 0 4 single 0 | 4 4 0 0", "oom 0 2 | 4 3 0 0", "oom 0 1 | 5 3 0 0", "oom 1 1 | 6 3 0 0", "alloc 1 4 foreign-single 0", "nodes 3", "audit", "end 0 0 0 0 0 0", "audit"]),
        ("neg-malformed", &[
            "begin 0", "audit", "nodes 0", "store 16 0 2 3 0", "store 16 4 0 3 0", "store 16 4 2 3 2", "store 16 4 2 3", "store x 4 2 3 0", "frob", "store 16 4 2 3 0", "begin", "begin x", "begin -1", "begin 0 0", "alloc 0 2 heap 0", "alloc 0 2 chunk", "alloc 0 2 chunk 1 |", "alloc 0 2 chunk 1 | 1 4 0",
            "alloc 0 2 chunk 1 | 1 4 0 1 9", "alloc 0 2 chunk 1 1 4 0 1", "alloc 0 2 chunk 1 | x 4 0 1", "oom 0", "oom 0 +1", "free 0 2", "free 0 2 0 0", "freeho 0 2 0 2 -3", "ffree 0", "gchand 0 0 0", "end 0 2 0 0 0 0", "end 0 1 0 0 0", "nodes", "nodes -1", "nodes 1 2", "audit 1", "Audit",
            "alloc 0 2 chunk 1 | -1 4 0 0", "alloc 0 1_0 chunk 1", "begin 0_", "begin _0", "begin 00", "nodes 0", "audit",
        ]),
        ("neg-nodes", &["store 16 4 2 3 0", "nodes 0", "nodes 1", "alloc 0 2 foreign-single 0 | 1 1 0 0", "nodes 0", "nodes 1", "ffree 0 2 0 | 0 1 1 0", "nodes 1", "nodes 0", "audit"]),
    ];
    for (name, lines) in hand {
        cases.push((name.to_string(), lines.iter().map(|s| s.to_string()).collect()));
    }
    for (name, lines) in cases {
        writeln!(w, "case {name}").unwrap();
        for l in lines {
            writeln!(w, "{l}").unwrap();
        }
    }
}


fn generate(cfg: &GenCfg, rng: &mut Rng, w: &mut dyn Write) {
    if cfg.extra.get("mode").map(|s| s.as_str()) == Some("trace") {
        let p = cfg.extra.get("trace-from").expect("--trace-from FILE");
        let mut f = match std::fs::File::open(p) {
            Ok(f) => f,
            Err(e) => {
                eprintln!("c05_alloc gen --mode trace: cannot read {p}: {e} (the stream `alloc-run` must run first)");
                std::process::exit(1);
            }
        };
        std::io::copy(&mut f, w).unwrap();
        neg_cases(w);
        return;
    }
    match cfg.extra.get("only") {
        // `--only p1,p2`: only the cases whose names start with one of the prefixes (the scripts of a
        // case do not depend on which other cases are written)
        Some(only) => {
            let prefixes: Vec<&str> = only.split(',').filter(|p| !p.is_empty()).collect();
            let mut buf: Vec<u8> = Vec::new();
            gen_scripts(cfg, rng, &mut buf);
            let mut keep = false;
            for line in String::from_utf8(buf).unwrap().lines() {
                if let Some(name) = line.strip_prefix("case ") {
                    keep = prefixes.iter().any(|p| name.starts_with(p));
                }
                if keep {
                    writeln!(w, "{line}").unwrap();
                }
            }
        }
        None => gen_scripts(cfg, rng, w),
    }
}


// ------------------------------------------------------------------------------------------------
// the script generator

/// what the generator knows about the store while it writes a script (upper estimates, so that the
/// cases that must not run out of memory stay below the capacity)
struct Sim {
    cap: u64,
    /// nodes that live as long as the manager (literals, ZBDD chain)
    ovh: u64,
    gb: u64,
    /// handles per tree (with the root)
    trees: Vec<u64>,
    /// dropped but not collected
    dead: u64,
}

impl Sim {
    fn used(&self) -> u64 {
        self.ovh + self.trees.iter().map(|t| t + self.gb).sum::<u64>() + self.dead
    }
    fn room(&self) -> u64 {
        self.cap.saturating_sub(self.used() + self.gb + 2)
    }
    fn fill(&mut self, n: u64) {
        self.trees.push(n + 1);
    }
    fn drop(&mut self, which: &str, pm: u64) {
        let n = self.trees.len();
        for (i, t) in self.trees.iter_mut().enumerate() {
            let sel = match which {
                "all" => true,
                "last" => i + 1 == n,
                _ => i % 2 == 0,
            };
            if sel {
                let k = *t * pm / 1000;
                *t -= k;
                self.dead += k;
            }
        }
        let gb = self.gb;
        let before = self.trees.len() as u64;
        self.trees.retain(|t| *t > 0);
        self.dead += (before - self.trees.len() as u64) * gb;
    }
    fn gc(&mut self) {
        self.dead = 0;
    }
}

struct Gen<'a> {
    w: &'a mut dyn Write,
    thorough: bool,
}

fn bits(n: u64) -> u32 {
    64 - n.leading_zeros()
}

impl Gen<'_> {
    fn line(&mut self, l: &str) {
        writeln!(self.w, "{l}").unwrap();
    }
    /// `case` + `mgr` lines; returns the simulation
    fn open(&mut self, name: &str, kind: &str, cap: u64, cache: u64, workers: u64, gb: u64, sd: &str, outer: Option<u64>, min_nv: u64) -> Sim {
        let nv = (gb + bits(cap) as u64 + 2).max(min_nv);
        self.line(&format!("case {name}-{kind}-n{cap}-w{workers}"));
        if let Some(oc) = outer {
            self.line(&format!("outer bdd {oc}"));
        }
        let tcap = if self.thorough && cap >= 100_000 { 500_000 } else { 0 };
        self.line(&format!("mgr {kind} {cap} {cache} {workers} {nv} {gb} {sd} {tcap}"));
        let ovh = match kind {
            "bdd" => 2 * nv,
            _ => nv,
        };
        Sim { cap, ovh, gb, trees: Vec::new(), dead: 0 }
    }
}

const KINDS: [&str; 3] = ["bdd", "bcdd", "zbdd"];
const PATTERNS: [&str; 8] = ["a", "adg", "dga", "n", "aag", "ddgaa", "aa", "ag"];

/// Scripts. All randomness of the *scripts* is here; the `par` lines carry a seed from which the
/// application threads derive their operations.
fn gen_scripts(cfg: &GenCfg, rng: &mut Rng, w: &mut dyn Write) {
    let th = cfg.thorough;
    let mul = if th { 4 * cfg.scale } else { cfg.scale };
    let mut g = Gen { w, thorough: th };

    // --- 1. small stores, random scripts that never run out of memory: `countcheck` must hold
    for c in 0..18 * mul {
        let kind = KINDS[(c % 3) as usize];
        let cap = match rng.below(4) {
            0 => rng.range(100, 300),
            1 => rng.range(300, 1500),
            _ => rng.range(1500, 8000),
        };
        let gb = if cap < 400 { 4 } else { 6 };
        let workers = rng.range(1, 4);
        let cache = *rng.pick(&[4u64, 16, 64, 256]);
        let mut s = g.open(&format!("small-{c}"), kind, cap, cache, workers, gb, "0", None, 0);
        let mut trees_left = (1u64 << gb) - 2;
        for _ in 0..rng.range(6, 14) {
            if trees_left == 0 {
                break;
            }
            match rng.below(12) {
                0..=3 => {
                    let room = s.room();
                    if room >= 4 {
                        let n = rng.range(1, room / 2);
                        let k = if rng.chance(1, 2) { 0 } else { rng.range(1, n) };
                        g.line(&format!("fill {n} {k}"));
                        s.fill(n);
                        trees_left -= 1;
                    }
                }
                4..=5 => {
                    let which = *rng.pick(&["all", "last", "half"]);
                    let pm = *rng.pick(&[100u64, 300, 500, 900, 1000]);
                    g.line(&format!("{} {which} {pm}", if rng.chance(1, 3) { "fdrop" } else { "drop" }));
                    s.drop(which, pm);
                }
                6..=7 => {
                    g.line("gc");
                    s.gc();
                }
                8..=9 => {
                    let pat = *rng.pick(&PATTERNS);
                    let a = pat.bytes().filter(|b| *b == b'a').count() as u64;
                    let room = s.room();
                    if room > 2 * a + 8 {
                        let n = rng.range(3, (room / (a + 1)).min(40));
                        g.line(&format!("sessions {n} {pat}"));
                        s.fill(n * a);
                        trees_left -= 1;
                    }
                }
                10 => g.line("waitgc"),
                _ => g.line("countcheck"),
            }
        }
        g.line("countcheck");
        g.line("fin");
    }

    // --- 2. out of memory and recovery (the `-drift-` ones check the node count afterwards)
    for c in 0..9 * mul {
        let kind = KINDS[(c % 3) as usize];
        let cap = if c % 2 == 0 { rng.range(100, 600) } else { rng.range(600, 5000) };
        let drift = c < 2;
        let gb = 4;
        let mut s = g.open(&format!("oom-{}{c}", if drift { "drift-" } else { "" }), kind, cap, 16, rng.range(1, 3), gb, "0", None, 0);
        let n = s.room() / 2;
        g.line(&format!("fill {n} 0"));
        s.fill(n);
        g.line("countcheck");
        if rng.chance(1, 2) {
            g.line("drop all 500");
            if rng.chance(1, 2) {
                g.line("gc");
            }
        }
        g.line("oomfill");
        if drift {
            g.line("countcheck");
        }
        g.line("recover");
        if rng.chance(1, 2) {
            // the same fill succeeds again
            g.line(&format!("fill {n} 0"));
            g.line("oomfill");
            g.line("recover");
        }
        if drift {
            g.line("countcheck");
        }
        g.line("fin");
    }

    // --- 3. background collections by the gc thread: fill to >= 95 %, with dead nodes, twice
    let bg_caps: Vec<u64> = if th { vec![2000, 3000, 8000, 8000, 20000, 30000, 50000, 65536, 100_000] } else { vec![2000, 8000, 30000] };
    for (c, &cap) in bg_caps.iter().enumerate() {
        let kind = KINDS[c % 3];
        let mut s = g.open(&format!("bg-{c}"), kind, cap, 64, rng.range(1, 4), 4, "0", None, 0);
        for round in 0..(if th { 3 } else { 2 }) {
            let target = cap * 93 / 100;
            let n = target.saturating_sub(s.used() + 8);
            g.line(&format!("fill {n} 0"));
            s.fill(n);
            let pm = rng.range(400, 700);
            g.line(&format!("{} all {pm}", if round == 1 { "fdrop" } else { "drop" }));
            s.drop("all", pm);
            let n2 = cap * 3 / 100 + 8;
            g.line(&format!("fill {n2} 0"));
            s.fill(n2);
            // (the high water mark is only tested in `get_slot_from_shared`: a new session's first
            // allocation goes there)
            g.line("fill 2 0");
            s.fill(2);
            g.line("waitgc");
            s.gc();
            g.line("countcheck");
        }
        g.line("fin");
    }
    // the gc thread frees more than a chunk: hand-over inside `free_slot` on the gc thread
    for c in 0..(if th { 2 } else { 1 }) {
        let cap = 150_000 + 30_000 * c;
        let kind = KINDS[c as usize % 3];
        let mut s = g.open(&format!("bg-drift-{c}"), kind, cap, 1024, 2, 4, "0", None, 0);
        let n = (cap * 93 / 100).saturating_sub(s.used() + 8);
        g.line(&format!("fill {n} 0"));
        s.fill(n);
        g.line("countcheck");
        g.line("drop all 700");
        s.drop("all", 700);
        g.line(&format!("fill {} 0", cap * 3 / 100 + 8));
        g.line("fill 2 0");
        g.line("waitgc");
        g.line("countcheck");
        g.line("fin");
    }

    // --- 4. capacities above one chunk: chunk reservation, hand-over in `free_slot`, refill
    let chunk_cases: Vec<(u64, bool, bool)> = if th {
        // (capacity, with `recover`, with `countcheck` after the hand-over)
        vec![(70_000, true, true), (100_000, true, true), (131_073, true, false), (140_000, false, false), (200_000, true, false), (200_000, false, false), (262_144, false, false), (400_000, true, false), (400_000, false, true)]
    } else {
        vec![(70_000, true, true), (100_000, false, true), (131_072, false, false), (200_000, false, false), (400_000, false, false)]
    };
    for (c, &(cap, rec, drift)) in chunk_cases.iter().enumerate() {
        let kind = KINDS[c % 3];
        let mut s = g.open(&format!("chunk-{}{c}", if drift { "drift-" } else { "" }), kind, cap, 1024, rng.range(1, 4), 6, "0", None, 0);
        let quick_big = !th && cap >= 400_000;
        let f1 = if quick_big { 300_000 } else { (cap * rng.range(70, 96) / 100).max(66_000).min(s.room()) };
        let k = if rng.chance(1, 3) { 30_000 } else { 0 };
        g.line(&format!("fill {f1} {k}"));
        s.fill(f1);
        g.line("countcheck");
        g.line(&format!("{} all 1000", if c % 2 == 0 { "drop" } else { "fdrop" }));
        s.drop("all", 1000);
        g.line("gc");
        s.gc();
        // more allocations than were freed
        let f2 = if quick_big { 100_000 } else { (f1 + (cap - f1) / 2).min(s.room()) };
        g.line(&format!("fill {f2} 0"));
        s.fill(f2);
        if drift {
            g.line("countcheck");
        }
        if !quick_big {
            g.line("oomfill");
        }
        if rec {
            g.line("recover");
        }
        if drift {
            g.line("countcheck");
        }
        g.line("fin");
    }

    // --- 5. many short sessions
    let sess_caps: Vec<u64> = if th { vec![120, 400, 1000, 3000, 3000, 10_000, 40_000, 70_000, 100_000, 150_000, 200_000, 5000] } else { vec![150, 1000, 5000, 20_000, 70_000, 140_000] };
    for (c, &cap) in sess_caps.iter().enumerate() {
        let kind = KINDS[c % 3];
        let gb = if cap < 400 { 4 } else { 6 };
        let mut s = g.open(&format!("sess-{c}"), kind, cap, 16, rng.range(1, 2), gb, "0", None, 0);
        let n = (s.room() / 3).min(if cap > 65536 { 60_000 } else { 2000 });
        g.line(&format!("fill {n} 0"));
        g.line("drop all 1000");
        g.line("gc"); // a list of n slots on the shared stack
        let m = (s.room() / 12).clamp(3, 60);
        g.line(&format!("sessions {m} a")); // the first one pops the list and allocates exactly one node
        g.line("countcheck");
        for pat in ["adg", "dga", "n", "aag", "ddgaa"] {
            g.line(&format!("sessions {} {pat}", rng.range(3, m)));
        }
        g.line("drop all 500");
        g.line("gc");
        g.line(&format!("sessions {m} a"));
        g.line(&format!("sessions {} ag", rng.range(3, m)));
        g.line("countcheck");
        g.line("recover");
        g.line("fin");
        s.gc();
    }

    // --- 6. concurrent application threads
    let n_par = if th { 24 } else { 8 };
    for c in 0..n_par {
        let kind = KINDS[c % 3];
        let cap = match c % 4 {
            0 => rng.range(800, 4000),
            1 => rng.range(4000, 30_000),
            2 => rng.range(30_000, 65_536),
            _ => if c % 8 == 3 { 150_000 } else { rng.range(66_000, 100_000) },
        };
        let threads = 2 + (c as u64) % 3;
        let workers = *rng.pick(&[1u64, 2, 4, 8]);
        let mut s = g.open(&format!("par-{c}"), kind, cap, 64, workers, 10, "0", None, 0);
        let nops = if th { rng.range(15, 40) } else { rng.range(10, 25) };
        let tight = c % 3 == 2;
        let base = s.room() / 10;
        g.line(&format!("fill {base} 0"));
        s.fill(base);
        for _ in 0..rng.range(1, 3) {
            // expected number of fills per thread: 0.4 nops, mean size unit / 2
            let unit = (s.room() * if tight { 5 } else { 1 } / (threads * nops)).max(2);
            g.line(&format!("par {threads} {nops} {} {unit}", rng.next() % 1_000_000));
            if rng.chance(1, 2) {
                g.line("gc");
            }
            if rng.chance(1, 2) {
                g.line("drop half 800");
                g.line("gc");
            }
        }
        g.line("waitgc");
        if c % 2 == 0 {
            g.line("recover");
        }
        g.line("fin");
    }

    // --- 7. parallel recursion: pool workers allocate and keep their lists
    let n_big = if th { 9 } else { 3 };
    for c in 0..n_big {
        let kind = KINDS[c % 3];
        let workers = [4u64, 2, 8, 3, 6, 2, 5, 8, 4][c % 9];
        let cap = [120_000u64, 200_000, 300_000][c % 3];
        let pairs = if kind == "zbdd" { 8 } else { 11 + (c as u64 / 3) % 2 };
        let sd = *rng.pick(&["auto", "3", "6"]);
        let mut s = g.open(&format!("big-{c}"), kind, cap, 4096, workers, 6, "0", None, 2 * (pairs + 1));
        g.line(&format!("big {pairs} {sd}"));
        g.line("fill 2000 0");
        s.fill(2000);
        g.line("dropbig");
        g.line("gc");
        g.line(&format!("big {pairs} {sd}")); // the workers pop the lists of the collection
        g.line(&format!("big {} {sd}", pairs + 1));
        g.line("dropbig");
        g.line("drop all 1000");
        g.line("gc");
        g.line(&format!("big {pairs} 2"));
        g.line("recover"); // the workers keep lists / chunk remainders
        g.line("fin");
    }

    // --- 8. the foreign paths: the traced manager used inside a session of another manager
    let n_nested = if th { 18 } else { 9 };
    for c in 0..n_nested {
        let kind = KINDS[c % 3];
        let cap = match c % 6 {
            5 => 70_000,
            _ => rng.range(300, 6000),
        };
        let mut s = g.open(&format!("nested-{c}"), kind, cap, 16, rng.range(1, 2), 6, "0", Some(500), 0);
        let q = s.room() / 8;
        g.line(&format!("nested fill {q} 0")); // foreign-single
        g.line(&format!("fill {q} 0"));
        g.line("nested drop all 500");
        g.line("nested gc"); // ForeignFree, the first one with an empty stack
        g.line(&format!("nested fill {} 0", q / 2)); // foreign-list
        g.line("countcheck");
        g.line("drop all 500");
        g.line("gc"); // a second list
        g.line(&format!("nested fill {} 0", q / 3));
        g.line(&format!("nested sessions {} ag", rng.range(3, 12)));
        g.line("nested drop half 1000");
        g.line("nested gc");
        g.line(&format!("sessions {} a", rng.range(3, 12)));
        g.line("countcheck");
        if c % 2 == 0 {
            g.line("nested oomfill"); // foreign AllocFail
            g.line("nested drop all 1000");
            g.line("nested gc");
        }
        g.line("recover");
        g.line("fin");
        s.gc();
    }

    // The cases below draw from a generator of their own: the scripts above are the same as before.
    let mut r2 = Rng::new(cfg.seed.wrapping_mul(0x9E37_79B9_7F4A_7C15) ^ 0xC05A_110C);
    let rng = &mut r2;

    // --- 9. a fresh chunk AND a collection in ONE session (`chunkgc`): at the end of the session the
    // rest of the partly used chunk must be linked IN FRONT OF the slots the thread freed in the
    // session. The first session of a manager takes the rest of chunk 0 (returned by the session
    // that created the literals) and then, beyond 65 536 nodes, a fresh chunk. `probe`: the capacity
    // without the hooks.
    let chunkgc: Vec<(u64, u64)> = if th { vec![(140_000, 1), (200_000, 1), (140_000, 2), (270_000, 1), (200_000, 3), (140_000, 1)] } else { vec![(140_000, 1), (200_000, 1), (140_000, 2)] };
    for (c, &(cap, workers)) in chunkgc.iter().enumerate() {
        let kind = KINDS[c % 3];
        let _s = g.open(&format!("chunkgc-{c}"), kind, cap, 1024, workers, 6, "0", None, 0);
        match c % 3 {
            0 => {
                // drop a part, collect, reuse some of the freed slots, end
                g.line(&format!("session a{} d{} g a{} n", rng.range(68_000, 72_000), rng.range(300, 700), rng.range(1, 200)));
                g.line("countcheck");
                g.line("drop all 1000");
                g.line("gc");
                g.line("probe"); // the full capacity
                g.line("recover"); // (the same with the hooks)
            }
            1 => {
                // two such sessions (the second one takes the list of the first and then chunk 2)
                g.line(&format!("session a{} d500 g a100", rng.range(67_000, 71_000)));
                g.line(&format!("session a{} d{} g a50 n", if cap >= 200_000 { 100_000 } else { 3000 }, rng.range(200, 400)));
                g.line("countcheck");
                g.line("probe"); // after partial use
                g.line("recover");
            }
            _ => {
                // more than a chunk of frees: the hand-over inside `free_slot` while the chunk is partly used
                g.line(&format!("session a{} d1000 g", rng.range(69_000, 72_000)));
                g.line(&format!("fill {} 0", rng.range(10_000, 30_000)));
                g.line("probe");
                g.line("drop all 1000");
                g.line("gc");
                g.line("probe");
            }
        }
        g.line("fin");
    }

    // --- 10. threads WITHOUT an allocation session (`sessionless`): scoped threads spawned inside
    // `with_manager_shared` use the edge-level API on the borrowed manager. After a collection handed
    // a free list back they allocate through the shared free lists to the last slot and beyond.
    let n_sless = if th { 12 } else { 5 };
    for c in 0..n_sless {
        let kind = KINDS[c % 3];
        let big = c == 3;
        let cap = if big { 140_000 } else { rng.range(1500, 6000) };
        let mut s = g.open(&format!("sessionless-{c}"), kind, cap, 64, 1 + (c as u64) % 2, 6, "0", if c % 4 == 2 { Some(500) } else { None }, 0);
        let q = if big { 30_000 } else { s.room() / 6 };
        g.line(&format!("fill {q} 0"));
        g.line(&format!("drop all {}", if c % 2 == 0 { 1000 } else { 600 }));
        g.line("gc"); // the freed slots: one list on the shared stack
        g.line(&format!("sless 1 aL+{}", rng.range(1, 4))); // one thread: through the list and beyond
        g.line("countcheck");
        g.line(&format!("fill {} 0", q / 2));
        g.line("drop last 1000");
        g.line("gc");
        // several threads; a collection BY a session-less thread gives the slots back one by one,
        // and they are taken again to the last one
        g.line(&format!("sless {} aL+{} d{} g aL+{}", 2 + c % 3, rng.range(2, 6), rng.range(300, 800), rng.range(1, 3)));
        if c % 4 == 2 {
            g.line(&format!("nested sless 2 a{} d500 g aL+2", q / 4)); // … and inside another manager's session
        }
        g.line("drop half 1000");
        g.line("gc");
        g.line(&format!("sless 1 aL+{}", rng.range(1, 3)));
        g.line(&format!("sessions {} adg", rng.range(3, 9)));
        g.line("countcheck");
        g.line("probe");
        g.line("recover");
        g.line("fin");
        s.gc();
    }
}


// ------------------------------------------------------------------------------------------------
// run mode without the hooks: a clear failure

#[cfg(not(oxidd_verif))]
mod real {
    use super::*;
    pub struct Real;
    impl Scenario for Real {
        fn reset(&mut self) {}
        fn step(&mut self, _line: &str, ctx: &mut Ctx) -> String {
            ctx.fail("hooks-missing", "c05_alloc was built without `--cfg oxidd_verif` (or the library lacks the allocator hooks `oxidd_core::util::verif_alloc`): no allocator events can be observed");
            "hooks-missing".into()
        }
    }
    pub fn make(_f: &BTreeMap<String, String>) -> Box<dyn Scenario> {
        Box::new(Real)
    }
}

// ------------------------------------------------------------------------------------------------
// run mode with the hooks

#[cfg(oxidd_verif)]
mod real {
    use super::*;
    use std::collections::{HashMap, HashSet};
    use std::sync::atomic::{AtomicBool, AtomicU64, Ordering::Relaxed};
    use std::sync::{Barrier, Mutex};
    use std::time::{Duration, Instant};

    use oxidd::bcdd::BCDDFunction;
    use oxidd::bdd::BDDFunction;
    use oxidd::zbdd::ZBDDFunction;
    use oxidd::{BooleanFunction, BooleanVecSet, Edge, Function, HasLevel, HasWorkers, InnerNode, Manager, ManagerRef, Node, WorkerPool};
    use oxidd_core::{Countable, LevelView};
    use oxidd_core::util::verif_alloc as va;
    use oxidd_core::util::verif_locks as vl;

    type MR<K> = <<K as LK>::F as Function>::ManagerRef;

    /// number of variables and of generation bits of the traced manager
    #[derive(Clone, Copy)]
    pub struct Dim {
        nv: u32,
        gb: u32,
    }

    impl Dim {
        fn max_depth(self) -> u32 {
            self.nv - self.gb
        }
    }

    /// what the scenario needs from a diagram kind
    pub trait LK: 'static + Sized {
        type F: Function<ManagerRef: Send + Sync + Clone> + Clone + Send + Sync + Eq + std::hash::Hash + 'static;
        type Aux: Send + Sync;
        const TERMS: u64;
        fn new_manager(cap: usize, cache: usize, workers: u32) -> MR<Self>;
        /// handles kept for the whole life of the manager (literals, …); `None`: out of memory
        fn aux(mref: &MR<Self>, d: Dim) -> Option<Self::Aux>;
        /// the root of tree number `generation`: a cube over the lowest `gb` variables
        fn root(aux: &Self::Aux, d: Dim, generation: u64) -> Option<Self::F>;
        /// a child of `p` (which has tree depth `depth`): exactly one new node
        fn child(aux: &Self::Aux, d: Dim, p: &Self::F, depth: u32, pol: bool) -> Option<Self::F>;
        /// `(x0 ∧ x_p) ∨ (x1 ∧ x_{p+1}) ∨ …` over the topmost variables
        fn big(mref: &MR<Self>, pairs: u32) -> Option<Self::F>;
        fn gc(mref: &MR<Self>);
        fn num_inner_nodes(mref: &MR<Self>) -> usize;
        fn approx_num_inner_nodes(mref: &MR<Self>) -> usize;
        fn add_vars(mref: &MR<Self>, n: u32);
        fn set_split_depth(mref: &MR<Self>, d: Option<u32>);
        /// run `f` inside one `with_manager_shared`
        fn session(mref: &MR<Self>, f: &mut dyn FnMut());
        /// the handles of `aux`
        fn aux_handles(aux: &Self::Aux) -> Vec<&Self::F>;
        /// the function of the tree handle `key`, per variable: `Some(b)`: the function is false unless
        /// the variable has the value `b`; `None`: the function does not depend on the variable
        fn spec(d: Dim, key: Key) -> Vec<Option<bool>>;
        /// ONE `with_manager_shared` of the calling thread in which `threads` scoped threads run `job`
        /// with the edge-level API on the borrowed `&Manager`: these threads have no allocation
        /// session (`LOCAL_STORE_STATE.current_store` is not this store)
        fn sessionless(mref: &MR<Self>, aux: &Self::Aux, d: Dim, threads: usize, job: &(dyn Fn(usize, &Sless<'_, Self::F>) + Sync));
        /// under the exclusive lock: the unique tables against the handles (`id_audit`), then the
        /// semantics of the keyed handles (`sem_check`, `flips` falsifying assignments each)
        fn deep_audit(mref: &MR<Self>, d: Dim, keyed: &[(&Self::F, Key)], others: &[&Self::F], flips: usize) -> AuditOut;
    }

    /// what a session-less thread may do
    pub struct Sless<'a, F> {
        /// a child of a tree node (exactly one new node), created through the edge-level API
        pub child: &'a (dyn Fn(&F, u32, bool) -> Option<F> + Sync),
        /// `Manager::gc()` on the borrowed manager
        pub gc: &'a (dyn Fn() -> usize + Sync),
    }

    #[derive(Default)]
    pub struct AuditOut {
        /// (signature, message), at most 8
        pub fails: Vec<(String, String)>,
        pub nodes: usize,
        pub evals: usize,
        /// the diagram must not be touched any more
        pub corrupt: bool,
    }

    impl AuditOut {
        fn fail(&mut self, sig: &str, msg: String) {
            if self.fails.len() < 8 {
                self.fails.push((sig.to_string(), msg));
            }
        }
    }

    /// Structure and reference counts through the public API, by slot ids: every stored node is
    /// listed once, at its level, above its children, no two nodes of a level have the same
    /// children; `ref_count` = handles of the harness + stored parent edges + references kept by the
    /// manager itself (`internal`); every handle points to a stored node.
    fn id_audit<M: Manager>(m: &M, handles: &HashMap<usize, usize>, internal: &[usize]) -> AuditOut
    where
        M::InnerNode: HasLevel,
    {
        let mut out = AuditOut::default();
        let mut rc: HashMap<usize, usize> = HashMap::new();
        let mut parents: HashMap<usize, usize> = HashMap::new();
        let mut total = 0usize;
        for view in m.levels() {
            let l = view.level_no();
            let mut dups: HashSet<Vec<(usize, usize)>> = HashSet::new();
            for e in view.iter() {
                total += 1;
                let id = e.node_id();
                let node = match m.get_node(e) {
                    Node::Inner(n) => n,
                    Node::Terminal(_) => {
                        out.fail("structure", format!("the unique table of level {l} lists a terminal"));
                        continue;
                    }
                };
                if rc.insert(id, node.ref_count()).is_some() {
                    out.corrupt = true;
                    out.fail("node-aliasing", format!("slot {id} is listed twice in the unique tables (again at level {l}): two stored nodes share one slot"));
                }
                if !node.check_level(|x| x == l) {
                    out.corrupt = true;
                    out.fail("node-aliasing", format!("the unique table of level {l} lists slot {id}, whose node reports level {}: the slot was overwritten by another node", node.level()));
                }
                let mut key = Vec::new();
                for c in node.children() {
                    if let Node::Inner(cn) = m.get_node(&c) {
                        if cn.level() <= l {
                            out.corrupt = true;
                            out.fail("structure", format!("the node in slot {id} at level {l} has a child (slot {}) at level {}", c.node_id(), cn.level()));
                        }
                        *parents.entry(c.node_id()).or_insert(0) += 1;
                    }
                    key.push((c.node_id(), c.tag().as_usize()));
                }
                if !dups.insert(key) {
                    out.fail("duplicate-node", format!("level {l}: the node in slot {id} has the same children as another node of the level"));
                }
            }
        }
        out.nodes = total;
        if total != m.num_inner_nodes() {
            out.fail("structure", format!("the unique tables list {total} nodes, num_inner_nodes() = {}", m.num_inner_nodes()));
        }
        let mut int: HashMap<usize, usize> = HashMap::new();
        for i in internal {
            *int.entry(*i).or_insert(0) += 1;
        }
        if !out.corrupt {
            let mut ids: Vec<usize> = rc.keys().copied().collect();
            ids.sort();
            for id in ids {
                let (h, p, i) = (handles.get(&id).copied().unwrap_or(0), parents.get(&id).copied().unwrap_or(0), int.get(&id).copied().unwrap_or(0));
                if rc[&id] != h + p + i {
                    out.fail("ref-count", format!("the node in slot {id} reports ref_count {} but {} references exist ({h} handles + {p} stored parent edges + {i} kept by the manager)", rc[&id], h + p + i));
                }
            }
        }
        let mut hs: Vec<usize> = handles.keys().copied().collect();
        hs.sort();
        for id in hs {
            if !rc.contains_key(&id) {
                out.corrupt = true;
                out.fail("dangling-handle", format!("a handle points to slot {id}, which no unique table lists"));
            }
        }
        out
    }

    /// `f` is true under the two assignments that follow `spec` (free variables all false / all true)
    /// and false when one forced variable is flipped (`flips` of them; 0: all)
    fn sem_check<'id, F: BooleanFunction>(m: &F::Manager<'id>, f: &F, spec: &[Option<bool>], flips: usize, salt: usize) -> Result<usize, String> {
        let e = f.as_edge(m);
        let mut evals = 0;
        for free in [false, true] {
            evals += 1;
            if !F::eval_edge(m, e, spec.iter().enumerate().map(|(v, s)| (v as u32, s.unwrap_or(free)))) {
                return Err(format!("evaluates to false under an assignment of its own cube (free variables = {free})"));
            }
        }
        let forced: Vec<usize> = spec.iter().enumerate().filter(|(_, s)| s.is_some()).map(|(v, _)| v).collect();
        let pick: Vec<usize> = if flips == 0 || flips >= forced.len() {
            forced.clone()
        } else {
            let mut p = vec![forced[0], forced[forced.len() - 1]];
            for j in 2..flips {
                p.push(forced[(salt.wrapping_mul(2654435761).wrapping_add(j * 7919)) % forced.len()]);
            }
            p.truncate(flips);
            p
        };
        for x in pick {
            evals += 1;
            if F::eval_edge(m, e, spec.iter().enumerate().map(|(v, s)| (v as u32, if v == x { !s.unwrap() } else { s.unwrap_or(false) }))) {
                return Err(format!("evaluates to true although variable {x} has the wrong value"));
            }
        }
        Ok(evals)
    }

    /// the tautology chain of a ZBDD manager: one reference per level is kept by the manager
    fn zbdd_chain<M: Manager>(m: &M, top: &M::Edge, ids: &mut Vec<usize>) {
        if let Node::Inner(n) = m.get_node(top) {
            ids.push(top.node_id());
            let c = n.child(0);
            zbdd_chain(m, &c, ids);
        }
    }

    fn bool_child_on<'id, F: BooleanFunction>(m: &F::Manager<'id>, lits: &[(F, F)], d: Dim, p: &F, depth: u32, pol: bool) -> Option<F> {
        let l = &lits[(d.nv - d.gb - 1 - depth) as usize];
        let lit = if pol { &l.0 } else { &l.1 };
        let e = F::and_edge(m, lit.as_edge(m), p.as_edge(m)).ok()?;
        Some(F::from_edge(m, e))
    }

    fn zbdd_child_on<'id>(m: &<ZBDDFunction as Function>::Manager<'id>, _aux: &ZBDDFunction, d: Dim, p: &ZBDDFunction, depth: u32, pol: bool) -> Option<ZBDDFunction> {
        let v = d.nv - d.gb - 1 - depth;
        let c = ZBDDFunction::change_edge(m, p.as_edge(m), v).ok()?;
        let c = ZBDDFunction::from_edge(m, c);
        if pol {
            let u = ZBDDFunction::union_edge(m, c.as_edge(m), p.as_edge(m)).ok()?;
            Some(ZBDDFunction::from_edge(m, u))
        } else {
            Some(c)
        }
    }

    fn bool_spec(d: Dim, key: Key) -> Vec<Option<bool>> {
        let (generation, depth, path) = key;
        let mut v = vec![None; d.nv as usize];
        for i in 0..d.gb {
            v[(d.nv - 1 - i) as usize] = Some((generation >> i) & 1 == 1);
        }
        for j in 0..depth {
            v[(d.nv - d.gb - 1 - j) as usize] = Some((path >> j) & 1 == 1);
        }
        v
    }

    /// the family of sets as a Boolean function: the set of the root exactly, a tree step puts its
    /// variable into every set (`pol` false) or makes it optional (`pol` true), nothing else
    fn zbdd_spec(d: Dim, key: Key) -> Vec<Option<bool>> {
        let (generation, depth, path) = key;
        let mut v = vec![Some(false); d.nv as usize];
        for i in 0..d.gb {
            v[(d.nv - 1 - i) as usize] = Some(((generation + 1) >> i) & 1 == 1);
        }
        for j in 0..depth {
            v[(d.nv - d.gb - 1 - j) as usize] = if (path >> j) & 1 == 1 { None } else { Some(true) };
        }
        v
    }

    /// the session-less part and the audits of a kind (`$child_on`: the edge-level child, `$internal`:
    /// the slots referenced by the manager itself, `$spec`)
    macro_rules! deep_part {
        ($child_on:expr, $internal:expr, $spec:expr) => {
            fn spec(d: Dim, key: Key) -> Vec<Option<bool>> {
                $spec(d, key)
            }
            fn sessionless(mref: &MR<Self>, aux: &Self::Aux, d: Dim, threads: usize, job: &(dyn Fn(usize, &Sless<'_, Self::F>) + Sync)) {
                mref.with_manager_shared(|m| {
                    let child = |p: &Self::F, depth: u32, pol: bool| -> Option<Self::F> { $child_on(m, aux, d, p, depth, pol) };
                    let gc = || m.gc();
                    let api = Sless { child: &child, gc: &gc };
                    std::thread::scope(|s| {
                        for t in 0..threads {
                            let api = &api;
                            std::thread::Builder::new().name(format!("sless{t}")).spawn_scoped(s, move || job(t, api)).unwrap();
                        }
                    });
                })
            }
            fn deep_audit(mref: &MR<Self>, d: Dim, keyed: &[(&Self::F, Key)], others: &[&Self::F], flips: usize) -> AuditOut {
                mref.with_manager_exclusive(|m| {
                    let m = &*m;
                    let mut hc: HashMap<usize, usize> = HashMap::new();
                    for f in keyed.iter().map(|x| x.0).chain(others.iter().copied()) {
                        let e = f.as_edge(m);
                        if let Node::Inner(_) = m.get_node(e) {
                            *hc.entry(e.node_id()).or_insert(0) += 1;
                        }
                    }
                    let internal: Vec<usize> = $internal(m);
                    let mut out = id_audit(m, &hc, &internal);
                    if !out.corrupt {
                        for (i, (f, key)) in keyed.iter().enumerate() {
                            match sem_check(m, *f, &Self::spec(d, *key), flips, i) {
                                Ok(n) => out.evals += n,
                                Err(e) => out.fail("semantics", format!("the handle of tree node (generation {}, depth {}, path {:#b}) {e}", key.0, key.1, key.2)),
                            }
                            if out.fails.len() >= 8 {
                                break;
                            }
                        }
                    }
                    out
                })
            }
        };
    }

    macro_rules! manager_part {
        () => {
            fn gc(mref: &MR<Self>) {
                mref.with_manager_shared(|m| {
                    m.gc();
                })
            }
            fn num_inner_nodes(mref: &MR<Self>) -> usize {
                mref.with_manager_shared(|m| m.num_inner_nodes())
            }
            fn approx_num_inner_nodes(mref: &MR<Self>) -> usize {
                mref.with_manager_shared(|m| m.approx_num_inner_nodes())
            }
            fn add_vars(mref: &MR<Self>, n: u32) {
                mref.with_manager_exclusive(|m| {
                    m.add_vars(n);
                })
            }
            fn set_split_depth(mref: &MR<Self>, d: Option<u32>) {
                mref.with_manager_shared(|m| m.workers().set_split_depth(d))
            }
            fn session(mref: &MR<Self>, f: &mut dyn FnMut()) {
                mref.with_manager_shared(|_m| f())
            }
        };
    }

    fn big_bool<F: BooleanFunction>(vars: &[F], pairs: usize) -> Option<F> {
        let mut acc: Option<F> = None;
        for i in 0..pairs {
            let t = vars[i].and(&vars[i + pairs]).ok()?;
            acc = Some(match acc {
                None => t,
                Some(a) => a.or(&t).ok()?,
            });
        }
        acc
    }

    /// literals `(x, ¬x)` of all variables
    fn bool_aux<F: BooleanFunction>(mref: &F::ManagerRef, d: Dim) -> Option<Vec<(F, F)>> {
        mref.with_manager_shared(|m| {
            let mut v = Vec::new();
            for i in 0..d.nv {
                let x = F::var(m, i).ok()?;
                let nx = x.not().ok()?;
                v.push((x, nx));
            }
            Some(v)
        })
    }

    fn bool_root<F: BooleanFunction>(lits: &[(F, F)], d: Dim, generation: u64) -> Option<F> {
        let lit = |i: u32| {
            let l = &lits[(d.nv - 1 - i) as usize];
            if (generation >> i) & 1 == 1 { &l.0 } else { &l.1 }
        };
        let mut acc = lit(0).clone();
        for i in 1..d.gb {
            acc = lit(i).and(&acc).ok()?;
        }
        Some(acc)
    }

    fn bool_child<F: BooleanFunction>(lits: &[(F, F)], d: Dim, p: &F, depth: u32, pol: bool) -> Option<F> {
        let l = &lits[(d.nv - d.gb - 1 - depth) as usize];
        (if pol { &l.0 } else { &l.1 }).and(p).ok()
    }

    fn bool_big<F: BooleanFunction>(mref: &F::ManagerRef, pairs: u32) -> Option<F> {
        let vars: Option<Vec<F>> = mref.with_manager_shared(|m| (0..2 * pairs).map(|v| F::var(m, v).ok()).collect());
        big_bool(&vars?, pairs as usize)
    }

    pub struct KBdd;
    impl LK for KBdd {
        type F = BDDFunction;
        type Aux = Vec<(BDDFunction, BDDFunction)>;
        const TERMS: u64 = 2;
        fn new_manager(cap: usize, cache: usize, workers: u32) -> MR<Self> {
            oxidd::bdd::new_manager(cap, cache, workers)
        }
        fn aux(mref: &MR<Self>, d: Dim) -> Option<Self::Aux> {
            bool_aux(mref, d)
        }
        fn root(aux: &Self::Aux, d: Dim, generation: u64) -> Option<Self::F> {
            bool_root(aux, d, generation)
        }
        fn child(aux: &Self::Aux, d: Dim, p: &Self::F, depth: u32, pol: bool) -> Option<Self::F> {
            bool_child(aux, d, p, depth, pol)
        }
        fn big(mref: &MR<Self>, pairs: u32) -> Option<Self::F> {
            bool_big(mref, pairs)
        }
        fn aux_handles(aux: &Self::Aux) -> Vec<&Self::F> {
            aux.iter().flat_map(|(a, b)| [a, b]).collect()
        }
        manager_part!();
        deep_part!(bool_child_on::<BDDFunction>, |_m| Vec::new(), bool_spec);
    }

    pub struct KBcdd;
    impl LK for KBcdd {
        type F = BCDDFunction;
        type Aux = Vec<(BCDDFunction, BCDDFunction)>;
        const TERMS: u64 = 1;
        fn new_manager(cap: usize, cache: usize, workers: u32) -> MR<Self> {
            oxidd::bcdd::new_manager(cap, cache, workers)
        }
        fn aux(mref: &MR<Self>, d: Dim) -> Option<Self::Aux> {
            bool_aux(mref, d)
        }
        fn root(aux: &Self::Aux, d: Dim, generation: u64) -> Option<Self::F> {
            bool_root(aux, d, generation)
        }
        fn child(aux: &Self::Aux, d: Dim, p: &Self::F, depth: u32, pol: bool) -> Option<Self::F> {
            bool_child(aux, d, p, depth, pol)
        }
        fn big(mref: &MR<Self>, pairs: u32) -> Option<Self::F> {
            bool_big(mref, pairs)
        }
        fn aux_handles(aux: &Self::Aux) -> Vec<&Self::F> {
            aux.iter().flat_map(|(a, b)| [a, b]).collect()
        }
        manager_part!();
        deep_part!(bool_child_on::<BCDDFunction>, |_m| Vec::new(), bool_spec);
    }

    /// ZBDDs as families of sets: `change` / `union` create exactly one node per tree position
    pub struct KZbdd;
    impl LK for KZbdd {
        type F = ZBDDFunction;
        type Aux = ZBDDFunction;
        const TERMS: u64 = 2;
        fn new_manager(cap: usize, cache: usize, workers: u32) -> MR<Self> {
            oxidd::zbdd::new_manager(cap, cache, workers)
        }
        fn aux(mref: &MR<Self>, _d: Dim) -> Option<Self::Aux> {
            Some(mref.with_manager_shared(|m| ZBDDFunction::base(m)))
        }
        fn root(aux: &Self::Aux, d: Dim, generation: u64) -> Option<Self::F> {
            // {S}: S = the variables among the lowest `gb` selected by the bits of `generation + 1`
            let g = generation + 1;
            let mut acc = aux.clone();
            for i in 0..d.gb {
                if (g >> i) & 1 == 1 {
                    acc = acc.change(d.nv - 1 - i).ok()?;
                }
            }
            Some(acc)
        }
        fn child(_aux: &Self::Aux, d: Dim, p: &Self::F, depth: u32, pol: bool) -> Option<Self::F> {
            let v = d.nv - d.gb - 1 - depth;
            let c = p.change(v).ok()?; // node(v, hi = p, lo = ∅)
            if pol { c.union(p).ok() } else { Some(c) } // node(v, hi = p, lo = p)
        }
        fn big(mref: &MR<Self>, pairs: u32) -> Option<Self::F> {
            bool_big(mref, pairs)
        }
        fn aux_handles(aux: &Self::Aux) -> Vec<&Self::F> {
            vec![aux]
        }
        manager_part!();
        deep_part!(
            zbdd_child_on,
            |m| {
                let mut ids = Vec::new();
                let t = ZBDDFunction::t(m); // (dropped before the counters are read)
                zbdd_chain(m, t.as_edge(m), &mut ids);
                ids
            },
            zbdd_spec
        );
    }

    /// a breadth-first tree of distinct nodes: every `grow` creates exactly one node
    pub struct Tree<F> {
        /// (handle, depth); handles are only ever dropped from the end
        nodes: Vec<(F, u32)>,
        parent: usize,
        pol: bool,
        /// the generation of the root (which cube over the lowest `gb` variables)
        generation: u64,
        /// parallel to `nodes`: the polarities on the way from the root (bit j: the step from depth
        /// j to j + 1); with `generation` and the depth this names the function of the handle
        paths: Vec<u64>,
    }

    /// the function a tree handle must denote: (generation, depth, path)
    pub type Key = (u64, u32, u64);

    pub enum Grow {
        Ok,
        Oom,
        Full,
    }

    impl<F> Tree<F> {
        fn new(root: F, generation: u64) -> Self {
            Tree { nodes: vec![(root, 0)], parent: 0, pol: false, generation, paths: vec![0] }
        }
        fn grow<K: LK<F = F>>(&mut self, aux: &K::Aux, d: Dim) -> Grow {
            self.grow_with(d, &|p, depth, pol| K::child(aux, d, p, depth, pol))
        }
        /// `grow` with the node creation given by the caller (the edge-level API on a borrowed manager)
        fn grow_with(&mut self, d: Dim, child: &dyn Fn(&F, u32, bool) -> Option<F>) -> Grow {
            loop {
                if self.parent >= self.nodes.len() {
                    return Grow::Full;
                }
                let (p, depth) = (&self.nodes[self.parent].0, self.nodes[self.parent].1);
                if depth + 1 >= d.max_depth() {
                    return Grow::Full; // (breadth first: all later parents are at least as deep)
                }
                return match child(p, depth, self.pol) {
                    Some(c) => {
                        let path = self.paths[self.parent] | ((self.pol as u64) << depth);
                        self.nodes.push((c, depth + 1));
                        self.paths.push(path);
                        if self.pol {
                            self.parent += 1;
                        }
                        self.pol = !self.pol;
                        Grow::Ok
                    }
                    None => Grow::Oom,
                };
            }
        }
        /// drop the newest handle if it is a leaf that is no future parent
        fn pop_leaf(&mut self) -> Option<F> {
            if self.nodes.len() > self.parent + 1 {
                self.paths.pop();
                self.nodes.pop().map(|x| x.0)
            } else {
                None
            }
        }
        /// remove the newest `permille` of the handles
        fn take_suffix(&mut self, permille: u64) -> Vec<(F, u32)> {
            let k = (self.nodes.len() as u64 * permille / 1000) as usize;
            let at = self.nodes.len() - k;
            self.paths.truncate(at);
            self.nodes.split_off(at)
        }
        /// (handle, key) of every node
        fn keyed(&self) -> impl Iterator<Item = (&F, Key)> {
            self.nodes.iter().zip(self.paths.iter()).map(|((f, depth), p)| (f, (self.generation, *depth, *p)))
        }
    }

    #[derive(Default, Clone, Copy)]
    pub struct FillOut {
        pub created: u64,
        pub oom: bool,
        pub full: bool,
    }

    /// object-safe face of `Eng<K>`
    pub trait Engine {
        fn set_nested(&mut self, on: bool) -> bool;
        fn fill(&mut self, n: u64, per_session: u64, tick: &mut dyn FnMut()) -> FillOut;
        fn oomfill(&mut self, limit: u64, tick: &mut dyn FnMut()) -> FillOut;
        fn drop_trees(&mut self, which: &str, permille: u64, foreign: bool) -> u64;
        fn drop_all(&mut self);
        fn gc(&mut self);
        fn sessions(&mut self, n: u64, pat: &str, tick: &mut dyn FnMut());
        fn big(&mut self, pairs: u32, sd: Option<u32>) -> bool;
        fn drop_big(&mut self);
        fn par(&mut self, threads: u64, nops: u64, seed: u64, unit: u64, tick: &mut dyn FnMut()) -> BTreeMap<&'static str, u64>;
        fn num_inner_nodes(&self) -> usize;
        fn approx_num_inner_nodes(&self) -> usize;
        fn fin(self: Box<Self>);
        /// ONE session of the main thread that runs the tokens `a<N>` (N new nodes), `d<permille>`
        /// (drop the newest handles of the session's tree), `g` (gc), `n` (num_inner_nodes)
        fn session_script(&mut self, toks: &[(char, u64)], tick: &mut dyn FnMut()) -> FillOut;
        /// the roots for `sless_run` (an ordinary session of the main thread)
        fn sless_prepare(&mut self, threads: usize) -> bool;
        /// ONE session of the main thread in which `threads` session-less threads run the tokens:
        /// `a<N>` (together N new nodes through the edge-level API), `d<permille>` (every thread drops
        /// the newest handles of its tree), `g` (thread 0: `gc()`); returns also what the gc calls freed
        fn sless_run(&mut self, threads: usize, toks: &[(char, u64)]) -> (FillOut, u64, u64);
        /// collect, a new tree root, collect (no dead node is left), `num_inner_nodes()`, then new
        /// nodes in one session until out of memory (at most `limit`)
        fn probe_fill(&mut self, limit: u64, tick: &mut dyn FnMut()) -> (usize, FillOut);
        /// the oracles that do not use the hooks: handles against keys (no access to the manager),
        /// then, if `deep`, `LK::deep_audit`
        fn verify(&mut self, flips: usize, deep: bool) -> AuditOut;
        fn num_handles(&self) -> usize;
    }

    pub struct Eng<K: LK> {
        mref: MR<K>,
        outer: Option<oxidd::bdd::BDDManagerRef>,
        nested: bool,
        aux: Option<K::Aux>,
        d: Dim,
        sd: Option<u32>,
        trees: Vec<Tree<K::F>>,
        bigs: Vec<K::F>,
        next_gen: u64,
        /// the trees of the session-less threads between `sless_prepare` and `sless_run`
        sless: Vec<Tree<K::F>>,
    }

    impl<K: LK> Eng<K> {
        pub fn new(cap: usize, cache: usize, workers: u32, d: Dim, sd: Option<u32>, outer: Option<oxidd::bdd::BDDManagerRef>) -> Self {
            let mref = K::new_manager(cap, cache, workers);
            K::add_vars(&mref, d.nv);
            K::set_split_depth(&mref, sd);
            let aux = K::aux(&mref, d);
            Eng { mref, outer, nested: false, aux, d, sd, trees: Vec::new(), bigs: Vec::new(), next_gen: 0, sless: Vec::new() }
        }

        /// run `f` (inside the outer manager's session if `nested`)
        fn wrap<T>(&mut self, f: impl FnOnce(&mut Self) -> T) -> T {
            match if self.nested { self.outer.clone() } else { None } {
                Some(o) => o.with_manager_shared(|_| f(self)),
                None => f(self),
            }
        }

        fn take_gen(&mut self, n: u64) -> u64 {
            let g = self.next_gen;
            self.next_gen += n;
            g % (1 << self.d.gb)
        }

        /// new trees until `n` nodes are created / out of memory; sessions of `per_session` creations
        fn fill_inner(&mut self, n: u64, per_session: u64, until_oom: bool, tick: &mut dyn FnMut()) -> FillOut {
            let mut out = FillOut::default();
            let Some(aux) = self.aux.as_ref() else {
                out.oom = true;
                return out;
            };
            let d = self.d;
            let mref = self.mref.clone();
            let mut cur: Option<Tree<K::F>> = None;
            let mut done = false;
            while !done {
                let quota = if per_session == 0 { u64::MAX } else { per_session };
                let mut gen_next = self.next_gen;
                K::session(&mref, &mut || {
                    let mut in_session = 0u64;
                    while in_session < quota {
                        if out.created >= n {
                            done = true;
                            return;
                        }
                        if cur.is_none() {
                            let g = gen_next % (1 << d.gb);
                            gen_next += 1;
                            match K::root(aux, d, g) {
                                Some(r) => cur = Some(Tree::new(r, g)),
                                None => {
                                    out.oom = true;
                                    done = true;
                                    return;
                                }
                            }
                        }
                        match cur.as_mut().unwrap().grow::<K>(aux, d) {
                            Grow::Ok => {
                                out.created += 1;
                                in_session += 1;
                                if out.created % 4096 == 0 {
                                    tick();
                                }
                            }
                            Grow::Oom => {
                                out.oom = true;
                                done = true;
                                return;
                            }
                            Grow::Full => {
                                out.full = true;
                                if until_oom {
                                    self.trees.push(cur.take().unwrap());
                                } else {
                                    done = true;
                                    return;
                                }
                            }
                        }
                    }
                });
                self.next_gen = gen_next;
                tick();
            }
            if let Some(t) = cur {
                self.trees.push(t);
            }
            out
        }
    }

    /// what one application thread of a `par` line owns
    struct AppState<F> {
        trees: Vec<Tree<F>>,
        st: BTreeMap<&'static str, u64>,
    }

    impl<K: LK> Engine for Eng<K> {
        fn set_nested(&mut self, on: bool) -> bool {
            self.nested = on && self.outer.is_some();
            self.nested
        }

        fn fill(&mut self, n: u64, per_session: u64, tick: &mut dyn FnMut()) -> FillOut {
            self.wrap(|s| s.fill_inner(n, per_session, false, tick))
        }

        fn oomfill(&mut self, limit: u64, tick: &mut dyn FnMut()) -> FillOut {
            self.wrap(|s| s.fill_inner(limit, 0, true, tick))
        }

        fn drop_trees(&mut self, which: &str, permille: u64, foreign: bool) -> u64 {
            let mut dropped: Vec<(K::F, u32)> = Vec::new();
            let n = self.trees.len();
            for (i, t) in self.trees.iter_mut().enumerate() {
                let sel = match which {
                    "all" => true,
                    "last" => i + 1 == n,
                    _ => i % 2 == 0,
                };
                if sel {
                    dropped.extend(t.take_suffix(permille));
                }
            }
            self.trees.retain(|t| !t.nodes.is_empty());
            let k = dropped.len() as u64;
            // newest first (leaves before their parents)
            dropped.reverse();
            if foreign {
                std::thread::scope(|s| {
                    std::thread::Builder::new().name("dropper".into()).spawn_scoped(s, move || drop(dropped)).unwrap();
                });
            } else {
                self.wrap(|_| drop(dropped));
            }
            k
        }

        fn drop_all(&mut self) {
            self.trees.clear();
            self.bigs.clear();
            self.sless.clear();
        }

        fn gc(&mut self) {
            self.wrap(|s| K::gc(&s.mref))
        }

        fn sessions(&mut self, n: u64, pat: &str, tick: &mut dyn FnMut()) {
            self.wrap(|s| {
                let Some(aux) = s.aux.as_ref() else { return };
                let d = s.d;
                let g = s.next_gen % (1 << d.gb);
                s.next_gen += 1;
                let mref = s.mref.clone();
                // the root in a session of its own
                let mut tree: Option<Tree<K::F>> = None;
                K::session(&mref, &mut || tree = K::root(aux, d, g).map(|r| Tree::new(r, g)));
                let Some(mut tree) = tree else { return };
                for i in 0..n {
                    K::session(&mref, &mut || {
                        for ch in pat.chars() {
                            match ch {
                                'a' => {
                                    let _ = tree.grow::<K>(aux, d);
                                }
                                'd' => drop(tree.pop_leaf()),
                                'g' => K::gc(&mref),
                                _ => {
                                    std::hint::black_box(K::num_inner_nodes(&mref));
                                }
                            }
                        }
                    });
                    if i % 64 == 63 {
                        tick();
                    }
                }
                s.trees.push(tree);
            })
        }

        fn big(&mut self, pairs: u32, sd: Option<u32>) -> bool {
            if 2 * pairs > self.d.nv {
                return false;
            }
            K::set_split_depth(&self.mref, sd);
            let r = K::big(&self.mref, pairs);
            K::set_split_depth(&self.mref, self.sd);
            match r {
                Some(f) => {
                    self.bigs.push(f);
                    true
                }
                None => false,
            }
        }

        fn drop_big(&mut self) {
            self.bigs.clear();
        }

        fn par(&mut self, threads: u64, nops: u64, seed: u64, unit: u64, tick: &mut dyn FnMut()) -> BTreeMap<&'static str, u64> {
            let mut total: BTreeMap<&'static str, u64> = BTreeMap::new();
            let gen0 = self.take_gen(threads * nops);
            let Some(aux) = self.aux.as_ref() else { return total };
            let d = self.d;
            let mref = &self.mref;
            let xchg: Mutex<Vec<Tree<K::F>>> = Mutex::new(Vec::new());
            let results: Mutex<Vec<AppState<K::F>>> = Mutex::new(Vec::new());
            std::thread::scope(|s| {
                let mut hs = Vec::new();
                for t in 0..threads {
                    let (xchg, results) = (&xchg, &results);
                    let h = std::thread::Builder::new()
                        .name(format!("app{t}"))
                        .spawn_scoped(s, move || {
                            let mut rng = Rng::new(seed.wrapping_mul(1009).wrapping_add(t));
                            let mut me = AppState::<K::F> { trees: Vec::new(), st: BTreeMap::new() };
                            let mut gen_next = gen0 + t * nops;
                            let cnt = |st: &mut BTreeMap<&'static str, u64>, k: &'static str| *st.entry(k).or_insert(0) += 1;
                            for _ in 0..nops {
                                match rng.below(100) {
                                    0..=39 => {
                                        // a new tree in one session
                                        let n = rng.range(1, unit.max(1));
                                        let g = gen_next % (1 << d.gb);
                                        gen_next += 1;
                                        let mut tree: Option<Tree<K::F>> = None;
                                        let mut oom = false;
                                        K::session(mref, &mut || match K::root(aux, d, g) {
                                            Some(r) => {
                                                let mut tr = Tree::new(r, g);
                                                for _ in 0..n {
                                                    match tr.grow::<K>(aux, d) {
                                                        Grow::Ok => {}
                                                        Grow::Oom => {
                                                            oom = true;
                                                            break;
                                                        }
                                                        Grow::Full => break,
                                                    }
                                                }
                                                tree = Some(tr);
                                            }
                                            None => oom = true,
                                        });
                                        cnt(&mut me.st, "par.fill");
                                        if let Some(tr) = tree {
                                            me.trees.push(tr);
                                        }
                                        if oom {
                                            cnt(&mut me.st, "par.oom");
                                            me.trees.clear();
                                            K::gc(mref);
                                        }
                                    }
                                    40..=54 => {
                                        if !me.trees.is_empty() {
                                            let i = rng.below(me.trees.len() as u64) as usize;
                                            let mut dropped = me.trees[i].take_suffix(rng.range(100, 1000));
                                            dropped.reverse();
                                            drop(dropped);
                                            if me.trees[i].nodes.is_empty() {
                                                me.trees.swap_remove(i);
                                            }
                                            cnt(&mut me.st, "par.drop");
                                        }
                                    }
                                    55..=64 => {
                                        K::gc(mref);
                                        cnt(&mut me.st, "par.gc");
                                    }
                                    65..=74 => {
                                        // a few short sessions
                                        let g = gen_next % (1 << d.gb);
                                        gen_next += 1;
                                        let pat = *rng.pick(&["a", "adg", "dga", "n", "aag"]);
                                        let mut tree: Option<Tree<K::F>> = None;
                                        K::session(mref, &mut || tree = K::root(aux, d, g).map(|r| Tree::new(r, g)));
                                        if let Some(mut tree) = tree {
                                            for _ in 0..rng.range(2, 8) {
                                                K::session(mref, &mut || {
                                                    for ch in pat.chars() {
                                                        match ch {
                                                            'a' => {
                                                                let _ = tree.grow::<K>(aux, d);
                                                            }
                                                            'd' => drop(tree.pop_leaf()),
                                                            'g' => K::gc(mref),
                                                            _ => {
                                                                std::hint::black_box(K::num_inner_nodes(mref));
                                                            }
                                                        }
                                                    }
                                                });
                                            }
                                            me.trees.push(tree);
                                        }
                                        cnt(&mut me.st, "par.sessions");
                                    }
                                    75..=82 => {
                                        // hand a tree to whoever takes it
                                        if !me.trees.is_empty() {
                                            let i = rng.below(me.trees.len() as u64) as usize;
                                            let tr = me.trees.swap_remove(i);
                                            xchg.lock().unwrap().push(tr);
                                            cnt(&mut me.st, "par.give");
                                        }
                                    }
                                    83..=90 => {
                                        // handles created by another thread are dropped (or adopted) here
                                        let tr = xchg.lock().unwrap().pop();
                                        if let Some(tr) = tr {
                                            if rng.chance(1, 2) {
                                                me.trees.push(tr);
                                            } else {
                                                let mut v = tr.nodes;
                                                v.reverse();
                                                drop(v);
                                                cnt(&mut me.st, "par.drop-foreign");
                                            }
                                        }
                                    }
                                    91..=95 => {
                                        std::hint::black_box(K::num_inner_nodes(mref));
                                        std::hint::black_box(K::approx_num_inner_nodes(mref));
                                        cnt(&mut me.st, "par.count");
                                    }
                                    _ => std::thread::yield_now(),
                                }
                            }
                            results.lock().unwrap().push(me);
                        })
                        .unwrap();
                    hs.push(h);
                }
                // the main thread drains the log while the others work
                while !hs.iter().all(|h| h.is_finished()) {
                    std::thread::sleep(Duration::from_micros(300));
                    tick();
                }
                for h in hs {
                    h.join().unwrap();
                }
            });
            for a in results.into_inner().unwrap() {
                self.trees.extend(a.trees);
                for (k, v) in a.st {
                    *total.entry(k).or_insert(0) += v;
                }
            }
            self.trees.extend(xchg.into_inner().unwrap());
            total
        }

        fn num_inner_nodes(&self) -> usize {
            K::num_inner_nodes(&self.mref)
        }

        fn approx_num_inner_nodes(&self) -> usize {
            K::approx_num_inner_nodes(&self.mref)
        }

        fn fin(mut self: Box<Self>) {
            self.trees.clear();
            self.bigs.clear();
            self.sless.clear();
            self.aux = None;
            // (the managers are dropped with `self`)
        }

        fn session_script(&mut self, toks: &[(char, u64)], tick: &mut dyn FnMut()) -> FillOut {
            let gen0 = self.take_gen(toks.len() as u64 + 1);
            self.wrap(|s| {
                let mut out = FillOut::default();
                let Some(aux) = s.aux.as_ref() else {
                    out.oom = true;
                    return out;
                };
                let d = s.d;
                let mref = s.mref.clone();
                let mut gen_next = gen0;
                let mut done: Vec<Tree<K::F>> = Vec::new();
                K::session(&mref, &mut || {
                    let mut tree: Option<Tree<K::F>> = None;
                    for &(c, n) in toks {
                        match c {
                            'a' => {
                                if tree.is_none() {
                                    let g = gen_next % (1 << d.gb);
                                    gen_next += 1;
                                    match K::root(aux, d, g) {
                                        Some(r) => tree = Some(Tree::new(r, g)),
                                        None => {
                                            out.oom = true;
                                            continue;
                                        }
                                    }
                                }
                                let tr = tree.as_mut().unwrap();
                                for _ in 0..n {
                                    match tr.grow::<K>(aux, d) {
                                        Grow::Ok => {
                                            out.created += 1;
                                            if out.created % 4096 == 0 {
                                                tick();
                                            }
                                        }
                                        Grow::Oom => {
                                            out.oom = true;
                                            break;
                                        }
                                        Grow::Full => {
                                            out.full = true;
                                            break;
                                        }
                                    }
                                }
                            }
                            'd' => {
                                if let Some(tr) = tree.as_mut() {
                                    let mut v = tr.take_suffix(n);
                                    v.reverse();
                                    drop(v);
                                    if tr.nodes.is_empty() {
                                        tree = None;
                                    }
                                }
                            }
                            'g' => K::gc(&mref),
                            _ => {
                                std::hint::black_box(K::num_inner_nodes(&mref));
                            }
                        }
                    }
                    done.extend(tree);
                });
                s.trees.extend(done);
                out
            })
        }

        fn sless_prepare(&mut self, threads: usize) -> bool {
            let gen0 = self.take_gen(threads as u64);
            self.wrap(|s| {
                let Some(aux) = s.aux.as_ref() else { return false };
                let d = s.d;
                let mref = s.mref.clone();
                let mut roots: Vec<Tree<K::F>> = Vec::new();
                K::session(&mref, &mut || {
                    for t in 0..threads as u64 {
                        let g = (gen0 + t) % (1 << d.gb);
                        if let Some(r) = K::root(aux, d, g) {
                            roots.push(Tree::new(r, g));
                        }
                    }
                });
                // (the intermediate results of the roots are dead: collected now, by an ordinary session)
                K::gc(&mref);
                let ok = roots.len() == threads;
                s.sless = roots;
                ok
            })
        }

        fn sless_run(&mut self, threads: usize, toks: &[(char, u64)]) -> (FillOut, u64, u64) {
            self.wrap(|s| {
                let mut out = FillOut::default();
                let Some(aux) = s.aux.as_ref() else {
                    out.oom = true;
                    return (out, 0, 0);
                };
                if s.sless.len() != threads {
                    out.oom = true;
                    return (out, 0, 0);
                }
                let d = s.d;
                let trees: Vec<Mutex<Tree<K::F>>> = std::mem::take(&mut s.sless).into_iter().map(Mutex::new).collect();
                let tickets: Vec<AtomicU64> = toks.iter().map(|_| AtomicU64::new(0)).collect();
                let (created, freed) = (AtomicU64::new(0), AtomicU64::new(0));
                let (oom, full) = (AtomicBool::new(false), AtomicBool::new(false));
                let barrier = Barrier::new(threads);
                let panics = AtomicU64::new(0);
                K::sessionless(&s.mref, aux, d, threads, &|t, api| {
                    let mut tree = trees[t].lock().unwrap();
                    for (i, &(c, n)) in toks.iter().enumerate() {
                        // (a panic must not keep the other threads waiting at the barrier for ever)
                        let r = std::panic::catch_unwind(std::panic::AssertUnwindSafe(|| match c {
                            'a' => {
                                while tickets[i].fetch_add(1, Relaxed) < n {
                                    match tree.grow_with(d, api.child) {
                                        Grow::Ok => {
                                            created.fetch_add(1, Relaxed);
                                        }
                                        Grow::Oom => {
                                            oom.store(true, Relaxed);
                                            break;
                                        }
                                        Grow::Full => {
                                            full.store(true, Relaxed);
                                            break;
                                        }
                                    }
                                }
                            }
                            'd' => {
                                let mut v = tree.take_suffix(n);
                                v.reverse();
                                drop(v);
                            }
                            'g' => {
                                if t == 0 {
                                    freed.fetch_add((api.gc)() as u64, Relaxed);
                                }
                            }
                            _ => {}
                        }));
                        if r.is_err() {
                            panics.fetch_add(1, Relaxed);
                        }
                        barrier.wait();
                        if panics.load(Relaxed) > 0 {
                            break; // (counted before the barrier: every thread sees it and leaves the loop here)
                        }
                    }
                });
                out.created = created.into_inner();
                out.oom = oom.into_inner();
                out.full = full.into_inner();
                s.trees.extend(trees.into_iter().map(|t| t.into_inner().unwrap()).filter(|t| !t.nodes.is_empty()));
                (out, freed.into_inner(), panics.into_inner())
            })
        }

        fn probe_fill(&mut self, limit: u64, tick: &mut dyn FnMut()) -> (usize, FillOut) {
            let g = self.take_gen(1);
            self.wrap(|s| {
                let mut out = FillOut::default();
                let mref = s.mref.clone();
                K::gc(&mref);
                let Some(aux) = s.aux.as_ref() else {
                    out.oom = true;
                    return (K::num_inner_nodes(&mref), out);
                };
                let d = s.d;
                let mut tree: Option<Tree<K::F>> = None;
                K::session(&mref, &mut || tree = K::root(aux, d, g).map(|r| Tree::new(r, g)));
                K::gc(&mref);
                let n0 = K::num_inner_nodes(&mref);
                let Some(mut tree) = tree else {
                    // (not even the root fits)
                    out.oom = true;
                    return (n0, out);
                };
                K::session(&mref, &mut || {
                    while out.created < limit {
                        match tree.grow::<K>(aux, d) {
                            Grow::Ok => {
                                out.created += 1;
                                if out.created % 4096 == 0 {
                                    tick();
                                }
                            }
                            Grow::Oom => {
                                out.oom = true;
                                break;
                            }
                            Grow::Full => {
                                out.full = true;
                                break;
                            }
                        }
                    }
                });
                s.trees.push(tree);
                (n0, out)
            })
        }

        fn verify(&mut self, flips: usize, deep: bool) -> AuditOut {
            let mut out = AuditOut::default();
            let keyed: Vec<(&K::F, Key)> = self.trees.iter().chain(self.sless.iter()).flat_map(|t| t.keyed()).collect();
            // 1. handles against the functions they were created for (no access to the manager)
            let mut by_handle: HashMap<&K::F, Key> = HashMap::new();
            let mut by_key: HashMap<Key, &K::F> = HashMap::new();
            for &(f, key) in &keyed {
                if let Some(k2) = by_handle.insert(f, key) {
                    if k2 != key {
                        out.corrupt = true;
                        out.fail(
                            "node-aliasing",
                            format!("two different functions, the tree nodes (generation {}, depth {}, path {:#b}) and (generation {}, depth {}, path {:#b}), are represented by the same node: their handles are equal", k2.0, k2.1, k2.2, key.0, key.1, key.2),
                        );
                    }
                }
                if let Some(f2) = by_key.insert(key, f) {
                    if f2 != f {
                        out.corrupt = true;
                        out.fail("duplicate-node", format!("the function of the tree node (generation {}, depth {}, path {:#b}) was built twice and has two different nodes", key.0, key.1, key.2));
                    }
                }
            }
            if out.corrupt || !deep {
                return out;
            }
            // 2. + 3. the stored nodes
            let mut others: Vec<&K::F> = self.bigs.iter().collect();
            if let Some(aux) = self.aux.as_ref() {
                others.extend(K::aux_handles(aux));
            }
            let mut o2 = K::deep_audit(&self.mref, self.d, &keyed, &others, flips);
            o2.fails.splice(0..0, out.fails);
            o2
        }

        fn num_handles(&self) -> usize {
            self.trees.iter().chain(self.sless.iter()).map(|t| t.nodes.len()).sum()
        }
    }

    pub fn new_engine(kind: &str, cap: usize, cache: usize, workers: u32, d: Dim, sd: Option<u32>, outer: Option<oxidd::bdd::BDDManagerRef>) -> Option<(Box<dyn Engine>, u64)> {
        Some(match kind {
            "bdd" => (Box::new(Eng::<KBdd>::new(cap, cache, workers, d, sd, outer)) as Box<dyn Engine>, KBdd::TERMS),
            "bcdd" => (Box::new(Eng::<KBcdd>::new(cap, cache, workers, d, sd, outer)), KBcdd::TERMS),
            "zbdd" => (Box::new(Eng::<KZbdd>::new(cap, cache, workers, d, sd, outer)), KZbdd::TERMS),
            _ => return None,
        })
    }

    // --------------------------------------------------------------------------------------------
    // the observer: log -> oracles, replay, side file

    /// thread roles (by thread name)
    #[derive(Clone, Copy, PartialEq, Eq)]
    enum Role {
        App,
        Worker,
        Gc,
    }

    struct Obsv {
        active: bool,
        store: usize,
        cap: u64,
        terms: u64,
        /// the replay (threads are added when they first appear)
        m: Model,
        /// oracle 1: plain bitmap of live slots
        bitmap: Vec<bool>,
        bm_live: u64,
        tmap: HashMap<u32, u64>,
        roles: Vec<Role>,
        names: HashMap<u32, String>,
        buf: String,
        lines: u64,
        tcap: u64,
        truncated: bool,
        last_gc: u8,
        bg_pending: bool,
        n_fail: u64,
        n_freeho: u64,
        mark_allocs: u64,
        mark_failed: bool,
        gchand_nonempty: u64,
        counts: BTreeMap<&'static str, u64>,
        fail_budget: HashMap<String, u32>,
        terms_checked: bool,
        /// side file (write-through after the first violation of the case: the process may die)
        sink: Option<std::fs::File>,
        header: String,
        fix: bool,
        spilled: bool,
        /// a live slot was handed out (oracle 1): the store must not be used any more
        live_slot_handed_out: bool,
    }

    impl Obsv {
        fn new() -> Self {
            Obsv {
                active: false,
                store: 0,
                cap: 0,
                terms: 1,
                m: Model::new(0, CHUNK, 1, 0, false),
                bitmap: Vec::new(),
                bm_live: 0,
                tmap: HashMap::new(),
                roles: Vec::new(),
                names: HashMap::new(),
                buf: String::new(),
                lines: 0,
                tcap: 0,
                truncated: false,
                last_gc: 0,
                bg_pending: false,
                n_fail: 0,
                n_freeho: 0,
                mark_allocs: 0,
                mark_failed: false,
                gchand_nonempty: 0,
                counts: BTreeMap::new(),
                fail_budget: HashMap::new(),
                terms_checked: false,
                sink: None,
                header: String::new(),
                fix: false,
                spilled: false,
                live_slot_handed_out: false,
            }
        }

        fn start(&mut self, store: usize, cap: u64, terms: u64, fix: bool, tcap: u64, header: &str, sink: Option<std::fs::File>) {
            *self = Obsv::new();
            self.sink = sink;
            self.header = header.to_string();
            self.fix = fix;
            self.active = true;
            self.store = store;
            self.cap = cap;
            self.terms = terms;
            self.m = Model::new(cap, CHUNK, terms, 0, fix);
            self.bitmap = vec![false; (cap + terms) as usize];
            self.last_gc = self.m.gc;
            self.tcap = tcap;
        }

        fn cnt(&mut self, k: &'static str) {
            *self.counts.entry(k).or_insert(0) += 1;
        }

        /// report a failure (at most 8 per signature and case: a broken allocator fails at every event)
        fn fail(&mut self, ctx: &mut Ctx, sig: &str, msg: &str) {
            let n = self.fail_budget.entry(sig.to_string()).or_insert(0);
            *n += 1;
            if *n <= 8 {
                ctx.fail(sig, msg);
            } else {
                ctx.count(&format!("suppressed-failures.{sig}"));
            }
        }

        /// write the case so far to the side file and keep writing through: called at the first
        /// violation (the damage it announces may kill the process). The number of threads of the
        /// case is not known yet: the header declares spare ones (they stay unused).
        fn spill(&mut self) {
            if let Some(f) = &mut self.sink {
                if !self.spilled {
                    let head = format!("{}\nstore {} {} {} {} {}\n", self.header, self.cap, CHUNK, self.terms, self.tmap.len() + 64, self.fix as u8);
                    let _ = f.write_all(head.as_bytes());
                    self.spilled = true;
                }
                let _ = f.write_all(self.buf.as_bytes());
                let _ = f.flush();
                self.buf.clear();
            }
        }

        fn push_line(&mut self, l: &str) {
            if self.lines < self.tcap {
                self.buf.push_str(l);
                self.buf.push('\n');
                self.lines += 1;
            } else {
                self.truncated = true;
            }
        }

        fn role_of(&mut self, tid: u32) -> Role {
            if !self.names.contains_key(&tid) {
                for (id, name) in vl::thread_names() {
                    self.names.insert(id, name);
                }
            }
            match self.names.get(&tid).map(|s| s.as_str()) {
                Some("oxidd mi gc") => Role::Gc,
                Some(n) if n.starts_with("oxidd mi ") => Role::Worker,
                _ => Role::App,
            }
        }

        fn dense(&mut self, tid: u32) -> u64 {
            if let Some(&t) = self.tmap.get(&tid) {
                return t;
            }
            let t = self.tmap.len() as u64;
            self.tmap.insert(tid, t);
            let r = self.role_of(tid);
            self.roles.push(r);
            self.m.locals.push(Loc::default());
            t
        }

        fn slot_ok(&self, id: u64) -> bool {
            id >= self.terms && id < self.terms + self.cap
        }

        /// judge a batch of logged events (global order) and append them to the trace
        fn absorb(&mut self, evs: Vec<va::Event>, ctx: &mut Ctx) {
            if !self.active {
                return;
            }
            for e in evs {
                if e.store != self.store {
                    self.cnt("events.other-store");
                    continue;
                }
                let t = self.dense(e.thread);
                let role = self.roles[t as usize];
                let snap = e.shared.map(|s| Snap { count: s.node_count, allocated: s.allocated as u64, lists: s.lists as u64, gc: s.gc_state as u64 });
                let mut local_after = None;
                let (op, obs) = match e.kind {
                    va::Kind::SessionBegin => (Op::Begin(t), Obs::None),
                    va::Kind::Attach => (Op::Attach(t), Obs::None),
                    va::Kind::Alloc { slot, source, next } => {
                        let src = match source {
                            va::Source::LocalList => Src::LocalList,
                            va::Source::LocalChunk => Src::LocalChunk,
                            va::Source::SharedList => Src::SharedList,
                            va::Source::Chunk => Src::Chunk,
                            va::Source::Single => Src::Single,
                            va::Source::ForeignList => Src::ForeignList,
                            va::Source::ForeignSingle => Src::ForeignSingle,
                        };
                        (Op::Alloc(t), Obs::Alloc { id: slot as u64, src, next: next as u64 })
                    }
                    va::Kind::AllocFail { delta } => (Op::Alloc(t), Obs::Oom { delta: delta as i64 }),
                    va::Kind::Free { slot, prev } => (Op::Free(t, slot as u64), Obs::Freed { prev: prev as u64, ho: None }),
                    va::Kind::ForeignFree { slot, prev } => (Op::Free(t, slot as u64), Obs::ForeignFreed { prev: prev as u64 }),
                    va::Kind::FreeHandOver { slot, prev, head, delta, local_after: la } => {
                        local_after = Some(la as u64);
                        (Op::Free(t, slot as u64), Obs::Freed { prev: prev as u64, ho: Some((head as u64, delta as i64)) })
                    }
                    va::Kind::GcHandOver { head, delta, local_after: la } => {
                        local_after = Some(la as u64);
                        (Op::GcHand(t), Obs::GcHand { head: head as u64, delta: delta as i64 })
                    }
                    va::Kind::SessionEnd { returned, head, start, end, delta } => (Op::End(t), Obs::End { ret: returned, head: head as u64, start: start as u64, stop: end as u64, delta: delta as i64 }),
                };
                let ev = Ev { op, obs, snap, local_after };
                let line = ev_line(&ev);

                // ---- coverage
                match obs {
                    Obs::None => self.cnt(if matches!(op, Op::Attach(_)) { "ev.attach" } else { "ev.begin" }),
                    Obs::Alloc { src, .. } => {
                        self.cnt(match src {
                            Src::LocalList => "alloc.local-list",
                            Src::LocalChunk => "alloc.local-chunk",
                            Src::SharedList => "alloc.shared-list",
                            Src::Chunk => "alloc.chunk",
                            Src::Single => "alloc.single",
                            Src::ForeignList => "alloc.foreign-list",
                            Src::ForeignSingle => "alloc.foreign-single",
                        });
                        self.cnt(match role {
                            Role::App => "alloc.by-app-thread",
                            Role::Worker => "alloc.by-pool-worker",
                            Role::Gc => "alloc.by-gc-thread",
                        });
                        if role == Role::Worker && matches!(src, Src::LocalList | Src::SharedList) {
                            self.cnt("cov.worker-reuses-freed-slot");
                        }
                        if !self.mark_failed {
                            self.mark_allocs += 1;
                        }
                    }
                    Obs::Oom { .. } => {
                        self.cnt("ev.alloc-fail");
                        self.n_fail += 1;
                        self.mark_failed = true;
                    }
                    Obs::Freed { ho, .. } => {
                        self.cnt(match (ho.is_some(), role) {
                            (false, Role::App) => "free.app-thread",
                            (false, Role::Gc) => "free.gc-thread",
                            (false, Role::Worker) => "free.pool-worker",
                            (true, Role::Gc) => "free-handover.gc-thread",
                            (true, _) => "free-handover.app-thread",
                        });
                        if ho.is_some() {
                            self.n_freeho += 1;
                        }
                    }
                    Obs::ForeignFreed { prev } => self.cnt(if prev == 0 { "ffree.stack-empty" } else { "ffree.in-front-of-list" }),
                    Obs::GcHand { head, .. } => {
                        if head != 0 {
                            self.gchand_nonempty += 1;
                        }
                        self.cnt(if head != 0 { "gchand.list" } else { "gchand.nothing" });
                    }
                    Obs::End { ret, head, start, stop, delta } => {
                        self.cnt(match (ret, start < stop) {
                            (false, _) => "end.not-returned",
                            (true, true) => "end.returned.chunk-remainder",
                            (true, false) => "end.returned.no-remainder",
                        });
                        if ret && start == stop && delta == 0 && head != 0 {
                            self.cnt("cov.end.only-the-list-is-nonempty(defect-c-trigger)");
                        }
                        if ret && head == 0 {
                            self.cnt("end.returned.delta-only");
                        }
                        if ret && start < stop && self.m.loc(t).next != 0 {
                            // (the state before the step: the list the chunk remainder is linked in front of)
                            self.cnt("cov.end.chunk-remainder-in-front-of-nonempty-local-list");
                        }
                    }
                }
                // background collection bookkeeping (from the snapshots only)
                if let Some(s) = snap {
                    let g = s.gc as u8;
                    if self.last_gc == 1 && g == 2 {
                        self.bg_pending = true;
                        self.cnt("gc.background-triggered");
                    }
                    if matches!(obs, Obs::GcHand { .. }) {
                        self.bg_pending = false;
                        if self.last_gc == 2 && g == 1 {
                            self.cnt("gc.background-rearmed");
                        }
                    }
                    self.last_gc = g;
                }

                // ---- oracle 1: bitmap
                match (op, obs) {
                    (Op::Alloc(_), Obs::Alloc { id, src, next }) => {
                        if !self.terms_checked {
                            let t0 = match src {
                                Src::Chunk => Some(id + 1 - next),
                                Src::Single | Src::ForeignSingle => snap.map(|s| id + 1 - s.allocated),
                                _ => None,
                            };
                            if let Some(t0) = t0 {
                                self.terms_checked = true;
                                if t0 != self.terms {
                                    self.fail(ctx, "terminals-mismatch", &format!("the first fresh slot has id {id}: TERMINALS = {t0}, the harness assumed {}", self.terms));
                                }
                            }
                        }
                        if !self.slot_ok(id) {
                            self.fail(ctx, "alloc-live", &format!("`{line}`: slot id {id} outside the store ({}..{})", self.terms, self.terms + self.cap));
                        } else if self.bitmap[id as usize] {
                            self.live_slot_handed_out = true;
                            self.fail(ctx, "alloc-live", &format!("`{line}`: slot {id} is handed out although it contains a live node (handed out before and not freed since)"));
                        } else {
                            self.bitmap[id as usize] = true;
                            self.bm_live += 1;
                        }
                    }
                    (Op::Free(_, id), _) => {
                        if !self.slot_ok(id) || !self.bitmap[id as usize] {
                            self.fail(ctx, "double-free", &format!("`{line}`: slot {id} is freed although it contains no node (never handed out, or freed before)"));
                        } else {
                            self.bitmap[id as usize] = false;
                            self.bm_live -= 1;
                        }
                    }
                    _ => {}
                }

                // ---- oracle 5: the replay
                if let Some(v) = self.m.judge(&ev) {
                    let name = self.names.get(&e.thread).cloned().unwrap_or_default();
                    self.fail(ctx, "allocator-discipline", &format!("event `{line}` (thread `{name}`) is rejected by the allocator model: violation {}", v.name()));
                    ctx.count(&format!("violation.{}", v.clause()));
                    self.push_line(&line);
                    self.spill();
                    continue;
                }
                self.push_line(&line);
            }
            if self.spilled {
                self.spill();
            }
        }

        /// slots held by threads that have the store as their `current_store` (list members + reserved
        /// chunk remainders), from the replay state
        fn held_by_attached(&self) -> (u64, String) {
            let mut sum = 0;
            let mut desc = String::new();
            for (t, l) in self.m.locals.iter().enumerate() {
                if l.cur {
                    let n = self.m.list_len(l.next);
                    let r = self.m.chunk_end(l.init) - l.init;
                    if n + r > 0 {
                        desc.push_str(&format!(" t{t}:list={n},reserved={r}"));
                    }
                    sum += n + r;
                }
            }
            (sum, desc)
        }

        fn worker_deltas(&self) -> i64 {
            self.m.locals.iter().filter(|l| l.cur).map(|l| l.delta).sum()
        }
    }

    // --------------------------------------------------------------------------------------------

    pub struct Real {
        eng: Option<Box<dyn Engine>>,
        outer: Option<oxidd::bdd::BDDManagerRef>,
        ob: Obsv,
        trace_out: Option<std::fs::File>,
        default_tcap: u64,
        fix: bool,
        header: String,
        baseline: usize,
        lines_in_case: u64,
        /// the diagram of the case is damaged (two nodes in one slot): the managers were leaked, the
        /// rest of the case is skipped
        corrupt: bool,
        /// `--deep-always 1` (for trying the audits on a damaged store; may hang or crash)
        deep_always: bool,
    }

    /// `a70000`, `d500`, `g`, `n`; `aL+3`: `l` more than the slots on the shared free lists
    fn parse_toks(ws: &[&str], l: u64) -> Option<Vec<(char, u64)>> {
        ws.iter()
            .map(|w| {
                let c = w.chars().next()?;
                let rest = &w[c.len_utf8()..];
                let n: u64 = match (c, rest) {
                    ('a', r) if r.starts_with("L+") => l + r[2..].parse::<u64>().ok()?,
                    ('a' | 'd', r) => r.parse().ok()?,
                    ('g' | 'n', "") => 0,
                    _ => return None,
                };
                Some((c, n))
            })
            .collect()
    }

    impl Real {
        fn drain(&mut self, ctx: &mut Ctx) {
            let evs = va::take_events();
            self.ob.absorb(evs, ctx);
        }

        /// wait until no background collection is pending (the gc thread has handed over)
        fn wait_idle(&mut self, ctx: &mut Ctx) {
            let t0 = Instant::now();
            loop {
                self.drain(ctx);
                if !self.ob.bg_pending {
                    break;
                }
                if t0.elapsed() > Duration::from_secs(2) {
                    // `notify_one` found the gc thread not waiting: the trigger is lost, the state
                    // stays `Triggered` and no background collection will run any more
                    self.ob.bg_pending = false;
                    ctx.count("gc.background-trigger-lost(no-collection-within-2s)");
                    eprintln!("@note {}: background collection triggered (line {}) but no hand-over of the gc thread within 2 s", ctx.case, ctx.line_no);
                    break;
                }
                std::thread::sleep(Duration::from_micros(50));
            }
        }

        /// with the engine and a drain callback
        fn with_eng<T>(&mut self, ctx: &mut Ctx, f: impl FnOnce(&mut dyn Engine, &mut dyn FnMut()) -> T) -> T {
            let mut eng = self.eng.take().expect("no manager (`mgr` line missing)");
            let ob = &mut self.ob;
            let r = f(&mut *eng, &mut || {
                let evs = va::take_events();
                ob.absorb(evs, ctx);
            });
            self.eng = Some(eng);
            r
        }

        /// `nodes` and `audit` lines at a quiescent point
        fn emit_quiescent(&mut self, ctx: &mut Ctx, audit: bool) {
            self.wait_idle(ctx);
            if self.ob.truncated {
                return;
            }
            let n = self.eng.as_ref().unwrap().num_inner_nodes();
            let l = format!("nodes {n}");
            if n as u64 != self.ob.m.live {
                self.ob.fail(ctx, "allocator-discipline", &format!("`{l}` at a quiescent point: num_inner_nodes() = {n}, the replayed allocator state has {} live slots", self.ob.m.live));
                self.ob.spill();
            }
            if n as u64 != self.ob.bm_live {
                self.ob.fail(ctx, "alloc-live", &format!("num_inner_nodes() = {n} at a quiescent point, but {} slots were handed out and not freed", self.ob.bm_live));
            }
            self.ob.push_line(&l);
            ctx.count("quiescent.nodes");
            if audit {
                let a = self.ob.m.audit_line();
                if !a.ends_with(" ok") {
                    self.ob.fail(ctx, "allocator-discipline", &format!("audit of the replayed allocator state at a quiescent point: {a}"));
                }
                self.ob.push_line("audit");
                ctx.count("quiescent.audit");
            }
            self.drain(ctx);
        }

        fn flush_case(&mut self, ctx: &mut Ctx) {
            for (k, v) in std::mem::take(&mut self.ob.counts) {
                ctx.add(k, v);
            }
            if !self.ob.active {
                return;
            }
            if self.ob.truncated {
                ctx.count("trace.cases-truncated");
            }
            ctx.add("trace.lines", self.ob.lines);
            ctx.add("threads", self.ob.tmap.len() as u64);
            if self.ob.spilled {
                self.ob.spill();
            } else if let Some(f) = &mut self.trace_out {
                if !self.ob.buf.is_empty() {
                    let head = format!("{}\nstore {} {} {} {} {}\n", self.header, self.ob.cap, CHUNK, self.ob.terms, self.ob.tmap.len(), self.fix as u8);
                    let _ = f.write_all(head.as_bytes());
                    let _ = f.write_all(self.ob.buf.as_bytes());
                    let _ = f.flush();
                }
            }
            self.ob.buf = String::new();
            self.ob.active = false;
        }

        /// drop the manager(s) of the case
        fn end_case(&mut self, ctx: &mut Ctx) {
            if let Some(e) = self.eng.take() {
                self.wait_idle(ctx);
                e.fin();
                self.drain(ctx);
            }
            self.outer = None;
            self.flush_case(ctx);
        }

        fn exec(&mut self, w: &[&str], ctx: &mut Ctx) -> Option<()> {
            match w[0] {
                "fill" => {
                    let (n, k): (u64, u64) = (w.get(1)?.parse().ok()?, w.get(2)?.parse().ok()?);
                    let o = self.with_eng(ctx, |e, tick| e.fill(n, k, tick));
                    ctx.add("fill.created", o.created);
                    if o.oom {
                        ctx.count("fill.oom");
                    }
                    if o.full {
                        ctx.count("fill.tree-full");
                    }
                }
                "oomfill" => {
                    let lim = self.ob.cap + 64;
                    let o = self.with_eng(ctx, |e, tick| e.oomfill(lim, tick));
                    ctx.add("fill.created", o.created);
                    ctx.count(if o.oom { "oomfill.oom" } else { "oomfill.no-oom" });
                }
                "drop" | "fdrop" => {
                    let pm: u64 = w.get(2)?.parse().ok()?;
                    let foreign = w[0] == "fdrop";
                    let k = self.eng.as_mut()?.drop_trees(w.get(1)?, pm, foreign);
                    ctx.add(if foreign { "drop.handles-on-foreign-thread" } else { "drop.handles" }, k);
                }
                "gc" => {
                    self.eng.as_mut()?.gc();
                    ctx.count("gc.explicit");
                }
                "waitgc" => self.wait_idle(ctx),
                "sessions" => {
                    let n: u64 = w.get(1)?.parse().ok()?;
                    let pat = w.get(2)?.to_string();
                    self.with_eng(ctx, |e, tick| e.sessions(n, &pat, tick));
                    ctx.add("sessions", n);
                }
                "big" => {
                    let pairs: u32 = w.get(1)?.parse().ok()?;
                    let sd = if *w.get(2)? == "auto" { None } else { Some(w[2].parse().ok()?) };
                    let ok = self.eng.as_mut()?.big(pairs, sd);
                    ctx.count(if ok { "big.built" } else { "big.failed" });
                }
                "dropbig" => self.eng.as_mut()?.drop_big(),
                "par" => {
                    let (threads, nops, seed, unit): (u64, u64, u64, u64) = (w.get(1)?.parse().ok()?, w.get(2)?.parse().ok()?, w.get(3)?.parse().ok()?, w.get(4)?.parse().ok()?);
                    let st = self.with_eng(ctx, |e, tick| e.par(threads, nops, seed, unit, tick));
                    for (k, v) in st {
                        ctx.add(k, v);
                    }
                    ctx.count(&format!("par.threads-{threads}"));
                }
                "session" => {
                    let toks = parse_toks(&w[1..], 0)?;
                    let o = self.with_eng(ctx, |e, tick| e.session_script(&toks, tick));
                    ctx.add("fill.created", o.created);
                    ctx.count("session-script");
                    if toks.iter().any(|t| t.0 == 'g') {
                        ctx.count("session-script.with-gc");
                    }
                    if o.oom {
                        ctx.count("session-script.oom");
                    }
                    self.drain(ctx);
                    self.verify(ctx, "session");
                }
                "sless" => {
                    let threads: usize = w.get(1)?.parse().ok()?;
                    if threads == 0 || threads > 16 {
                        return None;
                    }
                    if !self.eng.as_mut()?.sless_prepare(threads) {
                        ctx.count("sless.no-roots(out-of-memory)");
                        return Some(());
                    }
                    self.wait_idle(ctx);
                    // the size of the work only (not an oracle): the slots on the shared free lists
                    let l: u64 = self.ob.m.stack.iter().map(|h| self.ob.m.list_len(*h)).sum();
                    let lists = self.ob.m.stack.len() as u64;
                    let toks = parse_toks(&w[2..], l)?;
                    let before = self.ob.counts.get("alloc.foreign-list").copied().unwrap_or(0);
                    let (o, freed, panics) = self.eng.as_mut()?.sless_run(threads, &toks);
                    self.drain(ctx);
                    ctx.count("sless");
                    ctx.count(&format!("sless.threads-{threads}"));
                    ctx.add("sless.created", o.created);
                    ctx.add("sless.slots-on-shared-lists-before", l);
                    ctx.add("sless.shared-lists-before", lists);
                    ctx.add("sless.freed-by-session-less-gc", freed);
                    if o.oom {
                        ctx.count("sless.oom");
                    }
                    let from_lists = self.ob.counts.get("alloc.foreign-list").copied().unwrap_or(0) - before;
                    if l > 0 && from_lists >= l {
                        ctx.count("cov.sless.shared-lists-exhausted-by-session-less-threads");
                    }
                    if panics > 0 {
                        self.ob.fail(ctx, "panic", &format!("{panics} session-less thread(s) panicked while they created nodes through the edge-level API"));
                        self.leak(ctx);
                        return Some(());
                    }
                    self.verify(ctx, "sless");
                }
                "verify" => self.verify(ctx, "verify"),
                _ => return None,
            }
            Some(())
        }

        /// the store is damaged: drop nothing, touch nothing
        fn leak(&mut self, ctx: &mut Ctx) {
            if let Some(e) = self.eng.take() {
                std::mem::forget(e);
            }
            if let Some(o) = self.outer.take() {
                std::mem::forget(o);
            }
            self.corrupt = true;
            ctx.count("case.leaked-after-corruption");
            self.ob.spill();
            self.flush_case(ctx);
        }

        /// the oracles that do not use the hooks (`Engine::verify`)
        fn verify(&mut self, ctx: &mut Ctx, at: &str) {
            if self.corrupt || self.eng.is_none() {
                return;
            }
            // (if oracle 1 has seen a live slot handed out: only the comparison of the handles, an
            // audit would walk a damaged diagram)
            let deep = !self.ob.live_slot_handed_out || self.deep_always;
            if deep {
                self.wait_idle(ctx);
            }
            let handles = self.eng.as_ref().unwrap().num_handles();
            let flips = if handles <= 20_000 { 0 } else { 3 };
            let o = self.eng.as_mut().unwrap().verify(flips, deep);
            self.drain(ctx);
            ctx.count("verify");
            ctx.add("verify.handles", handles as u64);
            ctx.add("verify.nodes-audited", o.nodes as u64);
            ctx.add("verify.evaluations", o.evals as u64);
            for (sig, msg) in &o.fails {
                self.ob.fail(ctx, sig, &format!("after `{at}`: {msg}"));
            }
            if o.corrupt || !deep {
                self.leak(ctx);
            }
        }

        /// the capacity probe without the hooks: with no dead node in the store, exactly
        /// `capacity − num_inner_nodes()` more nodes can be created
        fn probe(&mut self, ctx: &mut Ctx) {
            let cap = self.ob.cap;
            self.wait_idle(ctx);
            let (n0, o) = self.with_eng(ctx, |e, tick| e.probe_fill(cap + 64, tick));
            self.drain(ctx);
            self.wait_idle(ctx);
            ctx.count("probe");
            ctx.add("fill.created", o.created);
            if self.ob.live_slot_handed_out {
                self.leak(ctx);
                return;
            }
            let (held, desc) = self.ob.held_by_attached();
            let n1 = self.eng.as_ref().unwrap().num_inner_nodes();
            if held > 0 {
                ctx.count("probe.with-slots-held-by-attached-threads");
            }
            if !o.oom {
                self.ob.fail(ctx, "capacity", &format!("{} nodes were created without running out of memory although the store has capacity {cap} and held {n0} nodes before", o.created));
            } else if n0 as u64 + o.created + held != cap {
                let total = n0 as u64 + o.created + held;
                self.ob.fail(
                    ctx,
                    "capacity",
                    &format!(
                        "the store held {n0} nodes (none of them dead), then {} distinct nodes were created before `add_node` failed: {} of the {cap} slots are in use ({held} held by attached threads:{desc}), {} slots are {}",
                        o.created,
                        total,
                        cap.abs_diff(total),
                        if total < cap { "lost" } else { "too many" }
                    ),
                );
            } else if n1 as u64 != n0 as u64 + o.created {
                self.ob.fail(ctx, "capacity", &format!("num_inner_nodes() = {n1} after {} creations on top of {n0} nodes", o.created));
            } else {
                ctx.count(if n0 <= self.baseline + 64 { "probe.exact.full-capacity" } else { "probe.exact.partial-use" });
            }
            self.verify(ctx, "probe");
        }

        /// oracle 2
        fn recover(&mut self, ctx: &mut Ctx) {
            let cap = self.ob.cap;
            self.wait_idle(ctx);
            self.eng.as_mut().unwrap().drop_all();
            self.eng.as_mut().unwrap().gc();
            self.wait_idle(ctx);
            let live0 = self.ob.bm_live;
            let (held, desc) = self.ob.held_by_attached();
            let expected = cap as i64 - live0 as i64 - held as i64;
            self.ob.mark_allocs = 0;
            self.ob.mark_failed = false;
            let lim = cap + 64;
            let o = self.with_eng(ctx, |e, tick| e.oomfill(lim, tick));
            self.drain(ctx);
            let possible = self.ob.mark_allocs as i64;
            ctx.count("recover.fills");
            if held > 0 {
                ctx.count("recover.with-slots-held-by-attached-threads");
            }
            if !self.ob.mark_failed {
                self.ob.fail(ctx, "conservation", &format!("after dropping every handle and a collection {possible} node creations succeeded without running out of memory (capacity {cap}, {live0} live before, {held} slots held by attached threads:{desc}); expected exactly {expected}"));
            } else if possible != expected {
                self.ob.fail(
                    ctx,
                    "conservation",
                    &format!("after dropping every handle and a collection only {possible} node creations were possible before `add_node` failed; expected exactly {expected} = capacity {cap} − {live0} live − {held} held by attached threads ({desc} ); {} slots are lost", expected - possible),
                );
            } else {
                ctx.count("recover.exact");
            }
            let _ = o;
            // and back to the start
            self.wait_idle(ctx);
            self.eng.as_mut().unwrap().drop_all();
            self.eng.as_mut().unwrap().gc();
            self.wait_idle(ctx);
            let n = self.eng.as_ref().unwrap().num_inner_nodes();
            if n != self.baseline {
                self.ob.fail(ctx, "conservation", &format!("after filling the store, dropping every handle and a collection num_inner_nodes() = {n}; right after the creation of the manager it was {}", self.baseline));
            }
            self.drain(ctx);
        }

        /// oracle 4
        fn countcheck(&mut self, ctx: &mut Ctx) {
            self.wait_idle(ctx);
            let approx = self.eng.as_ref().unwrap().approx_num_inner_nodes();
            let exact = self.eng.as_ref().unwrap().num_inner_nodes();
            self.drain(ctx);
            ctx.count("countcheck");
            if approx != exact {
                let (nf, nh) = (self.ob.n_fail, self.ob.n_freeho);
                let wd = self.ob.worker_deltas();
                let diff = approx as i64 - exact as i64;
                let explained = diff == nf as i64 + nh as i64 - wd;
                if explained {
                    // Observation, not an oracle: `approx_num_inner_nodes()` is documented as approximate
                    // and no property of the list speaks about it. The drift (one per failed
                    // allocation, one per hand-over inside `free_slot`) only makes the background
                    // collector trigger early / not re-arm; `proposed_fixes/alloc-1.diff` removes it.
                    // The model carries it as the ghost counter `drift` (`drift_counts_lost_updates`).
                    ctx.count("countcheck.drift-explained");
                    return;
                }
                self.ob.fail(
                    ctx,
                    "node-count-drift",
                    &format!(
                        "at a quiescent point approx_num_inner_nodes() = {approx} but num_inner_nodes() = {exact} (difference {diff}); so far {nf} failed allocations (`get_slot_from_shared` adds the delta before it fails) and {nh} hand-overs inside `free_slot` (the delta is added before the current free is counted); node_count_delta of the attached threads sums to {wd}; the difference is {} by these",
                        if explained { "exactly explained" } else { "NOT explained" }
                    ),
                );
            } else {
                ctx.count("countcheck.equal");
            }
        }
    }

    impl Scenario for Real {
        fn reset(&mut self) {
            let mut ctx = Ctx { line_no: 0, case: String::new(), failures: Vec::new(), stats: BTreeMap::new(), extra: BTreeMap::new() };
            // (a case that ended without `fin`: nothing can be reported any more)
            self.end_case(&mut ctx);
            std::thread::sleep(Duration::from_millis(1));
            let _ = va::take_events();
            self.ob = Obsv::new();
            self.lines_in_case = 0;
            self.corrupt = false;
        }

        fn step(&mut self, line: &str, ctx: &mut Ctx) -> String {
            self.header = ctx.case.clone();
            let w = words(line);
            self.lines_in_case += 1;
            if self.corrupt {
                ctx.count("lines-skipped-after-corruption");
                return "skipped".into();
            }
            match w[0] {
                "outer" => {
                    // an untraced manager: the log is off while it is created
                    va::enable(false);
                    let cap: usize = w[2].parse().unwrap();
                    let o = oxidd::bdd::new_manager(cap, 64, 1);
                    o.with_manager_exclusive(|m| {
                        m.add_vars(2);
                    });
                    self.outer = Some(o);
                    return "ok".into();
                }
                "mgr" => {
                    // mgr <kind> <cap> <cache> <workers> <nvars> <gbits> <sd> <tcap>
                    let cap: usize = w[2].parse().unwrap();
                    let cache: usize = w[3].parse().unwrap();
                    let workers: u32 = w[4].parse().unwrap();
                    let d = Dim { nv: w[5].parse().unwrap(), gb: w[6].parse().unwrap() };
                    let sd: Option<u32> = if w[7] == "auto" { None } else { Some(w[7].parse().unwrap()) };
                    let tcap: u64 = w.get(8).and_then(|s| s.parse().ok()).filter(|c| *c > 0).unwrap_or(self.default_tcap).min(self.default_tcap);
                    let main_tid = vl::current_thread();
                    let _ = va::take_events();
                    va::enable(true);
                    // (the lock log only while the manager starts: to see the gc thread reach its `wait`)
                    let _ = vl::take_events();
                    vl::enable(true);
                    let Some((eng, terms)) = new_engine(w[1], cap, cache, workers, d, sd, self.outer.clone()) else {
                        vl::enable(false);
                        return "bad-op".into();
                    };
                    self.eng = Some(eng);
                    // A high water mark reached before the gc thread waits for the first time is never
                    // noticed (`notify_one` is not queued; the state stays `Triggered`). On a loaded
                    // machine the thread may start milliseconds late, so the scripts wait for it.
                    let t0 = Instant::now();
                    let mut waiting = false;
                    while !waiting && t0.elapsed() < Duration::from_millis(200) {
                        waiting = vl::take_events().iter().any(|e| e.class == vl::Class::GcSignal && e.kind == vl::Kind::Wait);
                        if !waiting {
                            std::thread::sleep(Duration::from_micros(50));
                        }
                    }
                    vl::enable(false);
                    let _ = vl::take_events();
                    std::thread::sleep(Duration::from_micros(100));
                    ctx.count(if waiting { "mgr.gc-thread-waiting" } else { "mgr.gc-thread-not-seen-waiting" });
                    let evs = va::take_events();
                    let Some(store) = evs.iter().find(|e| e.thread == main_tid && e.kind == va::Kind::SessionBegin).map(|e| e.store) else {
                        ctx.fail("hooks-missing", "no `SessionBegin` event was logged while the manager was created");
                        return "hooks-missing".into();
                    };
                    let sink = self.trace_out.as_ref().and_then(|f| f.try_clone().ok());
                    self.ob.start(store, cap as u64, terms, self.fix, tcap, &self.header, sink);
                    self.ob.absorb(evs, ctx);
                    ctx.count(&format!("kind.{}", w[1]));
                    ctx.count(&format!("workers.{workers}"));
                    ctx.count(match cap {
                        0..=999 => "cap.<1000",
                        1000..=65535 => "cap.<65536",
                        65536..=131072 => "cap.one-chunk",
                        _ => "cap.several-chunks",
                    });
                    self.drain(ctx);
                    self.baseline = self.eng.as_ref().unwrap().num_inner_nodes();
                }
                "nested" => {
                    if !self.eng.as_mut().map(|e| e.set_nested(true)).unwrap_or(false) {
                        return "bad-op".into();
                    }
                    let r = self.exec(&w[1..], ctx);
                    if let Some(e) = self.eng.as_mut() {
                        e.set_nested(false);
                    }
                    ctx.count(&format!("nested.{}", w[1]));
                    if r.is_none() {
                        return "bad-op".into();
                    }
                }
                "recover" => self.recover(ctx),
                "countcheck" => self.countcheck(ctx),
                "probe" => {
                    if self.eng.is_none() {
                        return "bad-op".into();
                    }
                    self.probe(ctx)
                }
                "fin" => {
                    if self.eng.is_none() {
                        return "bad-op".into();
                    }
                    self.wait_idle(ctx);
                    self.eng.as_mut().unwrap().drop_all();
                    self.drain(ctx);
                    self.emit_quiescent(ctx, true);
                    self.end_case(ctx);
                    return "ok".into();
                }
                _ => {
                    if self.eng.is_none() || self.exec(&w, ctx).is_none() {
                        return "bad-op".into();
                    }
                }
            }
            if self.corrupt {
                return "corrupt".into();
            }
            self.drain(ctx);
            if self.ob.live_slot_handed_out {
                // two nodes in one slot: dropping handles or collecting would touch freed memory
                self.leak(ctx);
                return "corrupt".into();
            }
            // quiescent point: only the main thread is running and it has no session open
            let big = self.ob.cap >= 100_000;
            let audit = !big || matches!(w[0], "recover" | "countcheck") || self.lines_in_case % 4 == 0;
            if !big || audit {
                self.emit_quiescent(ctx, audit);
            }
            for (k, v) in std::mem::take(&mut self.ob.counts) {
                ctx.add(k, v);
            }
            "ok".into()
        }
    }

    pub fn make(f: &BTreeMap<String, String>) -> Box<dyn Scenario> {
        let path = f.get("trace-out").cloned().or_else(|| f.get("oracle-out").map(|p| format!("{p}.trace")));
        // (the harness makes a fresh scenario after a panic: the side file is truncated only once)
        static CREATED: std::sync::atomic::AtomicBool = std::sync::atomic::AtomicBool::new(false);
        let first = !CREATED.swap(true, std::sync::atomic::Ordering::SeqCst);
        let trace_out = path.and_then(|p| if first { std::fs::File::create(p).ok() } else { std::fs::OpenOptions::new().append(true).open(p).ok() });
        Box::new(Real {
            eng: None,
            outer: None,
            ob: Obsv::new(),
            trace_out,
            default_tcap: f.get("trace-cap").and_then(|s| s.parse().ok()).unwrap_or(1_200_000),
            fix: f.get("fix-count").map(|s| s == "1").unwrap_or(false),
            header: String::new(),
            baseline: 0,
            lines_in_case: 0,
            corrupt: false,
            deep_always: f.get("deep-always").map(|s| s == "1").unwrap_or(false),
        })
    }
}

fn make(f: &BTreeMap<String, String>) -> Box<dyn Scenario> {
    if f.get("mode").map(|s| s.as_str()) == Some("trace") {
        Box::new(TraceSc { rp: Replay::new(), reported: 0 })
    } else {
        real::make(f)
    }
}

fn main() {
    harness_main(generate, make)
}
