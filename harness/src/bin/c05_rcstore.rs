//! C05/C14: the complete store with reference counts at *every* step, against the counter model.
//!
//! `c05_rcstore gen --tier .. --seed ..` writes histories over 3–6 variables (`var`, `notvar`, `const`,
//! `op … not|<binary>|ite`, `clone`, `drop`, `dropall`, `gc`, `rc`, `ninner`) for managers with small
//! node capacities (`mgr nodes=<cap>`): the same script is replayed for every capacity `0..=cmax`,
//! so that the first OutOfMemory moves through the allocation points of the script one by one; a
//! `dump` follows every line.  `c05_rcstore run` executes the lines on a real BDD manager through
//! the shared `Bf<KBdd>` scenario (same line syntax and same `dump` format as `bf --kind bdd`: every
//! stored node, garbage included, as canonical tree with `ref_count()`, sorted).  The Lean protocol
//! `bdd-rc` (the counter model `OxiddModel/Bdd/RcS.lean`) must print the identical stream.
//!
//! Oracles evaluated on the implementation, independent of the model:
//! * (in `Bf::step("dump")`) `ref_count(n)` = live handles on `n` + stored parent edges of `n`,
//!   parents that are garbage included — after every line;
//! * a failed operation (`OOM`) removes no node, leaves the *external* part `ref_count − parents`
//!   of every node unchanged (so nothing it had acquired is still held, nothing was released
//!   twice), creates only nodes without external reference, and the store is really full;
//! * a successful operation changes the external part only at the result's root (+1) and at the
//!   root of the overwritten handle (−1);
//! * (in `Bf::step("gc")`) after `gc` the stored nodes are exactly those reachable from the
//!   handles, `gc()` returns the difference of `num_inner_nodes()`, every handle's function is unchanged.
use oxidd::{Function, InnerNode, Manager, ManagerRef};
use oxv::bf::{BIN_OPS, Bf, child_trees};
use oxv::kinds::KBdd;
use oxv::*;
use std::collections::{BTreeMap, HashMap};
use std::io::Write;

// ------------------------------------------------------------------------------------------------
// generator

fn script(rng: &mut Rng, n: u32, steps: usize) -> Vec<String> {
    let mut out: Vec<String> = Vec::new();
    // operands: variables, their negations, constants, result registers r0..r9 (overwritten)
    let mut pool: Vec<String> = Vec::new();
    out.push("const cT T".into());
    out.push("const cF F".into());
    let mut vs: Vec<u32> = (0..n).collect();
    rng.shuffle(&mut vs);
    for &v in &vs {
        if rng.chance(4, 5) {
            out.push(format!("var x{} {}", v, v));
            pool.push(format!("x{v}"));
        }
        if rng.chance(1, 4) {
            out.push(format!("notvar nx{} {}", v, v));
            pool.push(format!("nx{v}"));
        }
    }
    if pool.len() < 2 {
        out.push("var x0 0".into());
        out.push(format!("var x{} {}", n - 1, n - 1));
        pool.push("x0".into());
        pool.push(format!("x{}", n - 1));
    }
    pool.push("cT".into());
    pool.push("cF".into());
    let nreg = 10u64;
    let mut regs: Vec<String> = Vec::new();
    for _ in 0..steps {
        let k = rng.below(100);
        let reg = format!("r{}", rng.below(nreg));
        let pick = |rng: &mut Rng, regs: &Vec<String>| -> String {
            if !regs.is_empty() && rng.chance(2, 3) { rng.pick(regs).clone() } else { rng.pick(&pool).clone() }
        };
        if k < 46 {
            let (a, b) = (pick(rng, &regs), pick(rng, &regs));
            // xor/equiv build the larger diagrams (more allocation points per operation)
            let o = if rng.chance(2, 5) { *rng.pick(&["xor", "equiv"]) } else { *rng.pick(&BIN_OPS) };
            out.push(format!("op {} {} {} {}", reg, o, a, b));
            if !regs.contains(&reg) {
                regs.push(reg);
            }
        } else if k < 54 {
            let a = pick(rng, &regs);
            out.push(format!("op {} not {}", reg, a));
            if !regs.contains(&reg) {
                regs.push(reg);
            }
        } else if k < 68 {
            let (a, b, c) = (pick(rng, &regs), pick(rng, &regs), pick(rng, &regs));
            out.push(format!("op {} ite {} {} {}", reg, a, b, c));
            if !regs.contains(&reg) {
                regs.push(reg);
            }
        } else if k < 74 {
            let a = pick(rng, &regs);
            out.push(format!("clone {} {}", reg, a));
            if !regs.contains(&reg) {
                regs.push(reg);
            }
        } else if k < 86 {
            if !regs.is_empty() {
                let i = rng.below(regs.len() as u64) as usize;
                let d = regs.swap_remove(i);
                out.push(format!("drop {}", d));
            }
        } else if k < 93 {
            out.push("gc".into());
        } else if k < 96 {
            out.push(format!("rc {}", pick(rng, &regs)));
        } else if k < 98 {
            out.push("ninner".into());
        } else {
            out.push(format!("eq {} {}", pick(rng, &regs), pick(rng, &regs)));
        }
    }
    out.push("dropall".into());
    out.push("gc".into());
    out
}

fn generate(cfg: &GenCfg, rng: &mut Rng, w: &mut dyn Write) {
    let scripts = if cfg.thorough { 400 } else { 48 } * cfg.scale;
    for sc in 0..scripts {
        let n = 3 + (sc % 4) as u32; // 3..6 variables
        let steps = if cfg.thorough { 70 } else { 44 };
        let lines = script(rng, n, steps);
        // capacities: every value up to a bound at which most scripts run without OutOfMemory
        let cmax = if cfg.thorough { 7 * n + 12 } else { 5 * n + 8 };
        for cap in 0..=cmax {
            let cache = [1usize, 2, 16, 1024][((sc + cap as u64) % 4) as usize];
            writeln!(w, "case rc-s{}-n{}-cap{}-c{}", sc, n, cap, cache).unwrap();
            writeln!(w, "mgr nodes={} cache={} threads=1 vars={}", cap, cache, n).unwrap();
            for l in &lines {
                writeln!(w, "{}", l).unwrap();
                writeln!(w, "dump").unwrap();
            }
        }
    }
}

// ------------------------------------------------------------------------------------------------
// scenario

struct RcStore {
    inner: Bf<KBdd>,
    cap: usize,
}

/// `dump` output -> tree -> ref_count
fn parse_dump(s: &str) -> HashMap<String, usize> {
    let mut m = HashMap::new();
    let body = match s.split_once(' ') {
        Some((_, b)) => b,
        None => return m,
    };
    for it in body.split(" | ") {
        let it = it.trim();
        if it.is_empty() {
            continue;
        }
        let (t, rc) = it.rsplit_once(':').expect("dump item");
        m.insert(t.to_string(), rc.parse().unwrap());
    }
    m
}

/// stored parent edges per node (from the printed trees)
fn parents(d: &HashMap<String, usize>) -> HashMap<String, usize> {
    let mut p: HashMap<String, usize> = HashMap::new();
    for t in d.keys() {
        for c in child_trees(t) {
            if c.contains('(') {
                *p.entry(c).or_insert(0) += 1;
            }
        }
    }
    p
}

/// external part of every counter: ref_count - stored parent edges
fn external(d: &HashMap<String, usize>, ctx: &mut Ctx) -> HashMap<String, i64> {
    let p = parents(d);
    let mut e = HashMap::new();
    for (t, rc) in d {
        let x = *rc as i64 - *p.get(t).unwrap_or(&0) as i64;
        if x < 0 {
            ctx.fail("ref-count", &format!("node {} has ref_count {} but {} stored parent edges", t, rc, p[t]));
        }
        e.insert(t.clone(), x);
    }
    e
}

impl RcStore {
    fn root_tree(&self, name: &str) -> Option<String> {
        let f = self.inner.h.get(name)?;
        Some(self.inner.tree_of(f))
    }
}

impl Scenario for RcStore {
    fn reset(&mut self) {
        self.inner.reset();
        self.cap = 0;
    }

    fn step(&mut self, line: &str, ctx: &mut Ctx) -> String {
        let w = words(line);
        match w[0] {
            "mgr" => {
                self.cap = w.iter().find_map(|x| x.strip_prefix("nodes=")).map(|s| s.parse().unwrap()).unwrap_or(1 << 16);
                self.inner.step(line, ctx)
            }
            "rc" => match self.inner.h.get(w[1]) {
                None => "bad-op".into(),
                Some(f) => f.with_manager_shared(|m, e| match m.get_node(e) {
                    oxidd::Node::Inner(n) => n.ref_count().to_string(),
                    oxidd::Node::Terminal(_) => "-".into(),
                }),
            },
            "ninner" => self.inner.mref().with_manager_shared(|m| m.num_inner_nodes()).to_string(),
            "op" | "var" | "notvar" | "const" | "clone" => {
                let pre = parse_dump(&self.inner.step("dump", ctx));
                let pre_ext = external(&pre, ctx);
                let old_root = self.root_tree(w[1]);
                let out = self.inner.step(line, ctx);
                let post = parse_dump(&self.inner.step("dump", ctx));
                let post_ext = external(&post, ctx);
                let kind = if w[0] == "op" { if w[2] == "not" || w[2] == "ite" { w[2] } else { "bin" } } else { w[0] };
                if out == "bad-op" {
                    if pre != post {
                        ctx.fail("badop-changed-store", &format!("`{}` is rejected but the store changed", line));
                    }
                    return out;
                }
                // no node disappears without a collection
                for t in pre.keys() {
                    if !post.contains_key(t) {
                        ctx.fail("node-vanished", &format!("`{}`: node {} is no longer stored although no collection ran", line, t));
                    }
                }
                let created = post.len() - post.keys().filter(|t| pre.contains_key(*t)).count();
                if out == "OOM" {
                    ctx.count(&format!("oom_{}_after_{}_allocs", kind, created));
                    ctx.count(&format!("oom_after_{}_allocs", created));
                    // the store is full (single-threaded: an error only when no slot is left)
                    if post.len() != self.cap {
                        ctx.fail("spurious-oom", &format!("`{}` reports OutOfMemory but {} of {} slots are used", line, post.len(), self.cap));
                    }
                    // nothing acquired is still held, nothing released twice
                    for (t, x) in &post_ext {
                        let before = *pre_ext.get(t).unwrap_or(&0);
                        if *x != before {
                            ctx.fail("oom-changed-refcount", &format!("`{}` failed with OutOfMemory; node {} had {} external references (ref_count − stored parent edges) before and has {} after", line, t, before, x));
                        }
                    }
                    // handles untouched
                    if self.root_tree(w[1]) != old_root {
                        ctx.fail("oom-changed-handle", &format!("`{}` failed but handle {} changed", line, w[1]));
                    }
                } else {
                    ctx.count(&format!("ok_{}_with_{}_allocs", kind, created.min(8)));
                    // expected change of the external parts: +1 result root, -1 overwritten handle's root
                    let mut delta: HashMap<String, i64> = HashMap::new();
                    if let Some(t) = self.root_tree(w[1]) {
                        if t.contains('(') {
                            *delta.entry(t).or_insert(0) += 1;
                        }
                    }
                    if let Some(t) = old_root {
                        if t.contains('(') {
                            *delta.entry(t).or_insert(0) -= 1;
                        }
                    }
                    for (t, x) in &post_ext {
                        let want = *pre_ext.get(t).unwrap_or(&0) + *delta.get(t).unwrap_or(&0);
                        if *x != want {
                            ctx.fail("op-changed-refcount", &format!("`{}` succeeded; node {} should have {} external references afterwards but has {}", line, t, want, x));
                        }
                    }
                    if post.len() > self.cap {
                        ctx.fail("capacity-exceeded", &format!("{} nodes stored in a manager with capacity {}", post.len(), self.cap));
                    }
                }
                out
            }
            _ => self.inner.step(line, ctx),
        }
    }
}

fn make(f: &BTreeMap<String, String>) -> Box<dyn Scenario> {
    Box::new(RcStore { inner: Bf::<KBdd>::new(f), cap: 0 })
}

fn main() {
    harness_main(generate, make)
}
