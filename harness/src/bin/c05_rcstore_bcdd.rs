//! C05/C14 for complement-edge BDDs: the complete store with reference counts at *every* step,
//! against the BCDD counter model.
//!
//! `c05_rcstore_bcdd gen --tier .. --seed ..` writes histories over 3–6 variables (`var`, `notvar`,
//! `const`, `op … not|<binary>|ite`, `clone`, `drop`, `dropall`, `gc`, `rc`, `ninner`, `eq`,
//! `needed <op> …` = number of fresh nodes the operation would take, without executing it) for
//! managers with small node capacities (`mgr nodes=<cap>`): the same script is replayed for every
//! capacity `0..=cmax`, so that the first OutOfMemory moves through the allocation points of the
//! script one by one; a `dump` follows every line.  `c05_rcstore_bcdd run` executes the lines on a
//! real BCDD manager through the shared `Bf<KBcdd>` scenario (same line syntax and same `dump` format
//! as `bf --kind bcdd`: every stored node, garbage included, as canonical tree — `~` marks a
//! complemented edge — with `ref_count()`, sorted).  The Lean protocol `bcdd-rc` (the counter model
//! `OxiddModel/Bcdd/RcS.lean`) must print the identical stream.
//!
//! The script generator makes about every fifth operand a complemented handle (`op … not`,
//! `notvar`), so that the tagged shortcuts of `apply_ite` and the operand/result complementing of
//! the six derived operators are exercised with every combination of tags.
//!
//! Oracles evaluated on the implementation, independent of the model:
//! * (in `Bf::step("dump")`) `ref_count(n)` = live handles on `n` + stored parent edges of `n`,
//!   parents that are garbage included — after every line;
//! * a failed operation (`OOM`) removes no node, leaves the *external* part `ref_count − parents`
//!   of every node unchanged (so nothing it had acquired is still held, nothing was released
//!   twice), creates only nodes without external reference, and the store is really full;
//! * a successful operation changes the external part only at the result's root (+1) and at the
//!   root of the overwritten handle (−1); handles on `f` and on `¬f` count for the same node;
//! * `not` never fails, creates no node, and returns the operand's node with the opposite tag;
//! * (in `Bf::step("dump")` via the structural audit) no stored node has a complemented then-edge
//!   or two identical children — after every line, garbage included;
//! * **threshold** (C14): every line also runs on a large reference manager holding the same handles
//!   (a line that fails on the small manager is executed there under a temporary name and undone).
//!   `needed` := number of distinct nodes (sub-diagrams modulo the complement tag) of the reference
//!   result that the small store does not hold before the operation. The operation must fail **iff**
//!   `capacity − stored < needed`, and a successful one must take exactly `needed` slots and return
//!   the reference's tree;
//! * (in `Bf::step("gc")`) after `gc` the stored nodes are exactly those reachable from the
//!   handles, `gc()` returns the difference of `num_inner_nodes()`, every handle's function is unchanged.
use oxidd::{Function, InnerNode, Manager, ManagerRef};
use oxv::bf::{BIN_OPS, Bf, child_trees, strip_neg};
use oxv::kinds::KBcdd;
use oxv::*;
use std::collections::{BTreeMap, HashMap};
use std::io::Write;

// ------------------------------------------------------------------------------------------------
// generator

fn script(rng: &mut Rng, n: u32, steps: usize) -> Vec<String> {
    let mut out: Vec<String> = Vec::new();
    // operands: variables, their negations, constants, result registers r0..r9 (overwritten)
    let mut pool: Vec<String> = Vec::new();
    out.push("const cT T".into());
    out.push("const cF F".into());
    let mut vs: Vec<u32> = (0..n).collect();
    rng.shuffle(&mut vs);
    for &v in &vs {
        if rng.chance(4, 5) {
            out.push(format!("var x{} {}", v, v));
            pool.push(format!("x{v}"));
        }
        if rng.chance(1, 4) {
            out.push(format!("notvar nx{} {}", v, v));
            pool.push(format!("nx{v}"));
        }
    }
    if pool.len() < 2 {
        out.push("var x0 0".into());
        out.push(format!("var x{} {}", n - 1, n - 1));
        pool.push("x0".into());
        pool.push(format!("x{}", n - 1));
    }
    pool.push("cT".into());
    pool.push("cF".into());
    let nreg = 10u64;
    let mut regs: Vec<String> = Vec::new();
    for _ in 0..steps {
        let k = rng.below(100);
        let reg = format!("r{}", rng.below(nreg));
        let pick = |rng: &mut Rng, regs: &Vec<String>| -> String {
            if !regs.is_empty() && rng.chance(2, 3) { rng.pick(regs).clone() } else { rng.pick(&pool).clone() }
        };
        if k < 44 {
            let (a, b) = (pick(rng, &regs), pick(rng, &regs));
            // xor/equiv build the larger diagrams (more allocation points per operation)
            let o = if rng.chance(2, 5) { *rng.pick(&["xor", "equiv"]) } else { *rng.pick(&BIN_OPS) };
            if rng.chance(1, 4) {
                out.push(format!("needed {} {} {}", o, a, b));
            }
            out.push(format!("op {} {} {} {}", reg, o, a, b));
            if !regs.contains(&reg) {
                regs.push(reg);
            }
        } else if k < 56 {
            let a = pick(rng, &regs);
            out.push(format!("op {} not {}", reg, a));
            if !regs.contains(&reg) {
                regs.push(reg);
            }
        } else if k < 68 {
            let (a, b, c) = (pick(rng, &regs), pick(rng, &regs), pick(rng, &regs));
            if rng.chance(1, 4) {
                out.push(format!("needed ite {} {} {}", a, b, c));
            }
            out.push(format!("op {} ite {} {} {}", reg, a, b, c));
            if !regs.contains(&reg) {
                regs.push(reg);
            }
        } else if k < 74 {
            let a = pick(rng, &regs);
            out.push(format!("clone {} {}", reg, a));
            if !regs.contains(&reg) {
                regs.push(reg);
            }
        } else if k < 86 {
            if !regs.is_empty() {
                let i = rng.below(regs.len() as u64) as usize;
                let d = regs.swap_remove(i);
                out.push(format!("drop {}", d));
            }
        } else if k < 93 {
            out.push("gc".into());
        } else if k < 96 {
            out.push(format!("rc {}", pick(rng, &regs)));
        } else if k < 98 {
            out.push("ninner".into());
        } else {
            out.push(format!("eq {} {}", pick(rng, &regs), pick(rng, &regs)));
        }
    }
    out.push("dropall".into());
    out.push("gc".into());
    out
}

fn generate(cfg: &GenCfg, rng: &mut Rng, w: &mut dyn Write) {
    let scripts = if cfg.thorough { 400 } else { 48 } * cfg.scale;
    for sc in 0..scripts {
        let n = 3 + (sc % 4) as u32; // 3..6 variables
        let steps = if cfg.thorough { 70 } else { 44 };
        let lines = script(rng, n, steps);
        // capacities: every value up to a bound at which most scripts run without OutOfMemory
        let cmax = if cfg.thorough { 7 * n + 12 } else { 5 * n + 8 };
        for cap in 0..=cmax {
            let cache = [1usize, 2, 16, 1024][((sc + cap as u64) % 4) as usize];
            writeln!(w, "case bcrc-s{}-n{}-cap{}-c{}", sc, n, cap, cache).unwrap();
            writeln!(w, "mgr nodes={} cache={} threads=1 vars={}", cap, cache, n).unwrap();
            for l in &lines {
                writeln!(w, "{}", l).unwrap();
                writeln!(w, "dump").unwrap();
            }
        }
    }
}

// ------------------------------------------------------------------------------------------------
// scenario

struct RcStore {
    inner: Bf<KBcdd>,
    /// large manager with the same handles: the yardstick for results and for `needed`
    reference: Bf<KBcdd>,
    cap: usize,
}

/// all inner nodes of a printed diagram, as untagged trees
fn node_trees(t: &str, acc: &mut std::collections::HashSet<String>) {
    let u = strip_neg(t);
    if !u.contains('(') || acc.contains(&u) {
        return;
    }
    for c in child_trees(&u) {
        node_trees(&c, acc);
    }
    acc.insert(u);
}

/// `dump` output -> tree -> ref_count
fn parse_dump(s: &str) -> HashMap<String, usize> {
    let mut m = HashMap::new();
    let body = match s.split_once(' ') {
        Some((_, b)) => b,
        None => return m,
    };
    for it in body.split(" | ") {
        let it = it.trim();
        if it.is_empty() {
            continue;
        }
        let (t, rc) = it.rsplit_once(':').expect("dump item");
        m.insert(t.to_string(), rc.parse().unwrap());
    }
    m
}

/// stored parent edges per node (from the printed trees)
fn parents(d: &HashMap<String, usize>) -> HashMap<String, usize> {
    let mut p: HashMap<String, usize> = HashMap::new();
    for t in d.keys() {
        for c in child_trees(t) {
            if c.contains('(') {
                *p.entry(strip_neg(&c)).or_insert(0) += 1;
            }
        }
    }
    p
}

/// external part of every counter: ref_count - stored parent edges
fn external(d: &HashMap<String, usize>, ctx: &mut Ctx) -> HashMap<String, i64> {
    let p = parents(d);
    let mut e = HashMap::new();
    for (t, rc) in d {
        let x = *rc as i64 - *p.get(t).unwrap_or(&0) as i64;
        if x < 0 {
            ctx.fail("ref-count", &format!("node {} has ref_count {} but {} stored parent edges", t, rc, p[t]));
        }
        e.insert(t.clone(), x);
    }
    e
}

impl RcStore {
    fn root_tree(&self, name: &str) -> Option<String> {
        let f = self.inner.h.get(name)?;
        Some(strip_neg(&self.inner.tree_of(f)))
    }
    fn tagged_tree(&self, name: &str) -> Option<String> {
        let f = self.inner.h.get(name)?;
        Some(self.inner.tree_of(f))
    }
}

impl Scenario for RcStore {
    fn reset(&mut self) {
        self.inner.reset();
        self.reference.reset();
        self.cap = 0;
    }

    fn step(&mut self, line: &str, ctx: &mut Ctx) -> String {
        let w = words(line);
        match w[0] {
            "mgr" => {
                self.cap = w.iter().find_map(|x| x.strip_prefix("nodes=")).map(|s| s.parse().unwrap()).unwrap_or(1 << 16);
                let vars = w.iter().find_map(|x| x.strip_prefix("vars=")).unwrap_or("0");
                self.reference.step(&format!("mgr nodes=65536 cache=1024 threads=1 vars={}", vars), ctx);
                self.inner.step(line, ctx)
            }
            "rc" => match self.inner.h.get(w[1]) {
                None => "bad-op".into(),
                Some(f) => f.with_manager_shared(|m, e| match m.get_node(e) {
                    oxidd::Node::Inner(n) => n.ref_count().to_string(),
                    oxidd::Node::Terminal(_) => "-".into(),
                }),
            },
            "ninner" => self.inner.mref().with_manager_shared(|m| m.num_inner_nodes()).to_string(),
            "op" | "var" | "notvar" | "const" | "clone" => {
                let pre = parse_dump(&self.inner.step("dump", ctx));
                let pre_ext = external(&pre, ctx);
                let old_root = self.root_tree(w[1]);
                let operand_tagged = if w[0] == "op" && w[2] == "not" { self.tagged_tree(w[3]) } else { None };
                let out = self.inner.step(line, ctx);
                let post = parse_dump(&self.inner.step("dump", ctx));
                let post_ext = external(&post, ctx);
                let kind = if w[0] == "op" { if w[2] == "not" || w[2] == "ite" { w[2] } else { "bin" } } else { w[0] };
                if out == "bad-op" {
                    if self.reference.step(line, ctx) != "bad-op" {
                        ctx.fail("badop-vs-reference", &format!("`{}` is rejected but the reference manager accepts it", line));
                    }
                    if pre != post {
                        ctx.fail("badop-changed-store", &format!("`{}` is rejected but the store changed", line));
                    }
                    return out;
                }
                // no node disappears without a collection
                for t in pre.keys() {
                    if !post.contains_key(t) {
                        ctx.fail("node-vanished", &format!("`{}`: node {} is no longer stored although no collection ran", line, t));
                    }
                }
                let created = post.len() - post.keys().filter(|t| pre.contains_key(*t)).count();
                if let Some(opd) = operand_tagged {
                    // `not` is a tag flip on a clone: no allocation, no failure, same node
                    if out == "OOM" {
                        ctx.fail("not-failed", &format!("`{}` reports OutOfMemory, but complementing allocates nothing", line));
                    } else {
                        let want = if let Some(s) = opd.strip_prefix('~') { s.to_string() } else { format!("~{}", opd) };
                        if out != want {
                            ctx.fail("not-not-a-tag-flip", &format!("`{}`: operand is {} so the result must be {} (same node, flipped tag) but is {}", line, opd, want, out));
                        }
                    }
                    if created != 0 {
                        ctx.fail("not-allocated", &format!("`{}` created {} nodes", line, created));
                    }
                    ctx.count(if opd.starts_with('~') { "not_of_complemented" } else { "not_of_regular" });
                }
                if w[0] == "op" && out != "OOM" && out != "bad-op" {
                    ctx.count(if out.starts_with('~') { "result_complemented" } else { "result_regular" });
                    let tags: String = w[3..].iter().map(|h| match self.tagged_tree(h) { Some(t) if t.starts_with('~') => 'c', _ => 'r' }).collect();
                    if w[2] == "ite" {
                        ctx.count(&format!("ite_operand_tags_{}", tags));
                    }
                }
                // the same line on the reference manager (under a temporary name when it failed here)
                let ref_tree = if out == "OOM" {
                    let t = self.reference.step(&format!("{} __ref_tmp {}", w[0], w[2..].join(" ")), ctx);
                    self.reference.step("drop __ref_tmp", ctx);
                    t
                } else {
                    self.reference.step(line, ctx)
                };
                if w[0] != "clone" {
                    let mut nodes = std::collections::HashSet::new();
                    node_trees(&ref_tree, &mut nodes);
                    let needed = nodes.iter().filter(|t| !pre.contains_key(*t)).count();
                    let free = self.cap.saturating_sub(pre.len());
                    ctx.count(&format!("needed_{}", needed.min(9)));
                    if (out == "OOM") != (free < needed) {
                        ctx.fail("threshold-needed", &format!("`{}`: {} slots are free and the result {} has {} nodes that are not stored, but the operation {}", line, free, ref_tree, needed, if out == "OOM" { "reports OutOfMemory" } else { "succeeds" }));
                    }
                    if out != "OOM" {
                        if out != ref_tree {
                            ctx.fail("capacity-dependent-result", &format!("`{}` returns {} but {} on the reference manager", line, out, ref_tree));
                        }
                        if created != needed {
                            ctx.fail("delta", &format!("`{}` took {} slots but its result has {} nodes that were not stored", line, created, needed));
                        }
                    } else if needed > 0 && free + 1 == needed {
                        ctx.count("oom_one_slot_short");
                    }
                }
                if out == "OOM" {
                    ctx.count(&format!("oom_{}_after_{}_allocs", kind, created));
                    ctx.count(&format!("oom_after_{}_allocs", created));
                    // the store is full (single-threaded: an error only when no slot is left)
                    if post.len() != self.cap {
                        ctx.fail("spurious-oom", &format!("`{}` reports OutOfMemory but {} of {} slots are used", line, post.len(), self.cap));
                    }
                    // nothing acquired is still held, nothing released twice
                    for (t, x) in &post_ext {
                        let before = *pre_ext.get(t).unwrap_or(&0);
                        if *x != before {
                            ctx.fail("oom-changed-refcount", &format!("`{}` failed with OutOfMemory; node {} had {} external references (ref_count − stored parent edges) before and has {} after", line, t, before, x));
                        }
                    }
                    // handles untouched
                    if self.root_tree(w[1]) != old_root {
                        ctx.fail("oom-changed-handle", &format!("`{}` failed but handle {} changed", line, w[1]));
                    }
                } else {
                    ctx.count(&format!("ok_{}_with_{}_allocs", kind, created.min(8)));
                    // expected change of the external parts: +1 result root, -1 overwritten handle's root
                    let mut delta: HashMap<String, i64> = HashMap::new();
                    if let Some(t) = self.root_tree(w[1]) {
                        if t.contains('(') {
                            *delta.entry(t).or_insert(0) += 1;
                        }
                    }
                    if let Some(t) = old_root {
                        if t.contains('(') {
                            *delta.entry(t).or_insert(0) -= 1;
                        }
                    }
                    for (t, x) in &post_ext {
                        let want = *pre_ext.get(t).unwrap_or(&0) + *delta.get(t).unwrap_or(&0);
                        if *x != want {
                            ctx.fail("op-changed-refcount", &format!("`{}` succeeded; node {} should have {} external references afterwards but has {}", line, t, want, x));
                        }
                    }
                    if post.len() > self.cap {
                        ctx.fail("capacity-exceeded", &format!("{} nodes stored in a manager with capacity {}", post.len(), self.cap));
                    }
                }
                out
            }
            "needed" => {
                // needed <not|binop|ite> a b [c]: the number of nodes of the result that the small
                // store does not hold, measured with the reference manager; no state changes
                let t = self.reference.step(&format!("op __ref_tmp {}", w[1..].join(" ")), ctx);
                if t == "bad-op" {
                    return t;
                }
                self.reference.step("drop __ref_tmp", ctx);
                let pre = parse_dump(&self.inner.step("dump", ctx));
                let mut nodes = std::collections::HashSet::new();
                node_trees(&t, &mut nodes);
                let needed = nodes.iter().filter(|t| !pre.contains_key(*t)).count();
                ctx.count("needed_queries");
                needed.to_string()
            }
            "drop" | "dropall" | "gc" => {
                self.reference.step(line, ctx);
                self.inner.step(line, ctx)
            }
            _ => self.inner.step(line, ctx),
        }
    }
}

fn make(f: &BTreeMap<String, String>) -> Box<dyn Scenario> {
    Box::new(RcStore { inner: Bf::<KBcdd>::new(f), reference: Bf::<KBcdd>::new(f), cap: 0 })
}

fn main() {
    harness_main(generate, make)
}
