//! C05/C14/C10: the complete MTBDD store — inner nodes with reference counts *and* the terminal
//! table — at *every* step, against the counter model `OxiddModel/Mtbdd/RcS.lean`.
//!
//! `c05_rcstore_mtbdd gen --tier .. --seed ..` writes histories over 2–4 variables with `I64`
//! terminals (`const` from a small pool plus fresh values, `var`, `op … add|sub|mul|div|min|max`,
//! `ite`, `clone`, `drop`, `dropall`, `gc`, `rc`, `ninner`, `nterms`, `eq`) for managers with small
//! capacities (`mgr vars=<n> nodes=<k> terms=<k> cache=<k>`): the same script is replayed for
//! every node capacity `0..=cmax` (terminal store roomy), for every terminal capacity `2..=12`
//! (node store roomy) and for pairs where both are tight (thorough: the full cross product for a
//! part of the scripts), so that the first OutOfMemory moves through the allocation points of
//! both kinds one by one; a `dump` follows every line.  `run` executes the lines on a real MTBDD
//! index manager (single worker thread, background collection disabled by the small capacity) and
//! prints after `dump` every stored inner node — garbage included — as canonical tree with
//! `ref_count()`, sorted, the set of stored terminal values (through `terminals()`), sorted, and
//! `num_inner_nodes()` / `num_terminals()`.  The Lean protocol `mtbdd-rc` must print the
//! identical stream.
//!
//! Oracles evaluated on the implementation, independent of the model:
//! * after every line: `ref_count(n)` = live handles on `n` + stored parent edges of `n` (parents
//!   that are garbage included); every terminal referenced by a stored node or a handle is stored;
//!   `num_inner_nodes()` / `num_terminals()` agree with the iterators and respect the capacities;
//! * a failed operation (`OOM`) removes no node and no terminal, leaves the *external* part
//!   `ref_count − parents` of every node unchanged, creates only nodes without external reference,
//!   changes no handle, and one of the two stores is really full;
//! * a successful operation changes the external part only at the result's root (+1) and at the
//!   root of the overwritten handle (−1);
//! * after `gc`: stored inner nodes = nodes reachable from the handles, stored terminals =
//!   terminals reachable from the handles (a leaked terminal reference survives the sweep, a lost
//!   one makes a referenced terminal disappear), `gc()` returns the difference, every handle's tree
//!   is unchanged.
use oxidd::mtbdd::terminal::I64;
use oxidd::mtbdd::{MTBDDFunction, MTBDDManagerRef};
use oxidd::{Function, HasLevel, InnerNode, Manager, ManagerRef, Node, PseudoBooleanFunction};
use oxidd_core::LevelView;
use oxv::*;
use std::borrow::Borrow;
use std::collections::{BTreeMap, BTreeSet, HashMap};
use std::io::Write;

// ------------------------------------------------------------------------------------------------
// generator

const POOL: [&str; 10] = ["0", "1", "2", "3", "-1", "5", "nan", "+inf", "-inf", "7"];
const OPS: [&str; 6] = ["add", "sub", "mul", "div", "min", "max"];

fn script(rng: &mut Rng, n: u32, steps: usize) -> Vec<String> {
    let mut out: Vec<String> = Vec::new();
    let mut pool: Vec<String> = Vec::new();
    let mut vars: Vec<String> = Vec::new();
    let mut vs: Vec<u32> = (0..n).collect();
    rng.shuffle(&mut vs);
    for &v in &vs {
        if rng.chance(5, 6) || vars.is_empty() {
            out.push(format!("var x{} {}", v, v));
            pool.push(format!("x{v}"));
            vars.push(format!("x{v}"));
        }
    }
    let mut fresh = 10u64 + rng.below(5);
    let nconst = 1 + rng.below(3);
    for k in 0..nconst {
        out.push(format!("const c{} {}", k, rng.pick(&POOL)));
        pool.push(format!("c{k}"));
    }
    let nreg = 8u64;
    let mut regs: Vec<String> = Vec::new();
    for _ in 0..steps {
        let k = rng.below(100);
        let reg = format!("r{}", rng.below(nreg));
        let pick = |rng: &mut Rng, regs: &Vec<String>| -> String {
            if !regs.is_empty() && rng.chance(3, 5) { rng.pick(regs).clone() } else { rng.pick(&pool).clone() }
        };
        let bind = |regs: &mut Vec<String>, reg: &String| {
            if !regs.contains(reg) {
                regs.push(reg.clone());
            }
        };
        if k < 44 {
            let (a, b) = (pick(rng, &regs), pick(rng, &regs));
            out.push(format!("op {} {} {} {}", reg, rng.pick(&OPS), a, b));
            bind(&mut regs, &reg);
        } else if k < 56 {
            let c = if rng.chance(3, 4) { rng.pick(&vars).clone() } else { pick(rng, &regs) };
            let (a, b) = (pick(rng, &regs), pick(rng, &regs));
            out.push(format!("ite {} {} {} {}", reg, c, a, b));
            bind(&mut regs, &reg);
        } else if k < 66 {
            let v = if rng.chance(1, 2) {
                fresh += 1 + rng.below(3);
                fresh.to_string()
            } else {
                rng.pick(&POOL).to_string()
            };
            out.push(format!("const {} {}", reg, v));
            bind(&mut regs, &reg);
        } else if k < 71 {
            let a = pick(rng, &regs);
            out.push(format!("clone {} {}", reg, a));
            bind(&mut regs, &reg);
        } else if k < 83 {
            if !regs.is_empty() {
                let i = rng.below(regs.len() as u64) as usize;
                let d = regs.swap_remove(i);
                out.push(format!("drop {}", d));
            }
        } else if k < 91 {
            out.push("gc".into());
        } else if k < 94 {
            out.push(format!("rc {}", pick(rng, &regs)));
        } else if k < 96 {
            out.push("ninner".into());
        } else if k < 98 {
            out.push("nterms".into());
        } else {
            out.push(format!("eq {} {}", pick(rng, &regs), pick(rng, &regs)));
        }
    }
    out.push("dropall".into());
    out.push("gc".into());
    out
}

fn emit(w: &mut dyn Write, sc: u64, n: u32, ncap: u32, tcap: u32, lines: &[String]) {
    let cache = [1usize, 2, 16, 1024][((sc + ncap as u64 + tcap as u64) % 4) as usize];
    writeln!(w, "case mrc-s{}-n{}-N{}-T{}-c{}", sc, n, ncap, tcap, cache).unwrap();
    writeln!(w, "mgr vars={} nodes={} terms={} cache={}", n, ncap, tcap, cache).unwrap();
    for l in lines {
        writeln!(w, "{}", l).unwrap();
        writeln!(w, "dump").unwrap();
    }
}

fn generate(cfg: &GenCfg, rng: &mut Rng, w: &mut dyn Write) {
    let scripts = if cfg.thorough { 150 } else { 60 } * cfg.scale;
    for sc in 0..scripts {
        let n = 2 + (sc % 3) as u32; // 2..4 variables
        let steps = if cfg.thorough { 60 } else { 40 };
        let lines = script(rng, n, steps);
        let cmax = 5 * n + 8;
        // every node capacity, roomy terminal store
        for ncap in 0..=cmax {
            emit(w, sc, n, ncap, 12, &lines);
        }
        // every terminal capacity, roomy node store
        for tcap in 2..=11 {
            emit(w, sc, n, cmax + 8, tcap, &lines);
        }
        // both tight
        if cfg.thorough && sc % 5 == 0 {
            for ncap in 1..=cmax {
                for tcap in 2..=11 {
                    emit(w, sc, n, ncap, tcap, &lines);
                }
            }
        } else {
            for _ in 0..8 {
                let ncap = rng.range(1, cmax as u64) as u32;
                let tcap = rng.range(2, 8) as u32;
                emit(w, sc, n, ncap, tcap, &lines);
            }
        }
    }
}

// ------------------------------------------------------------------------------------------------
// scenario

fn tok(t: &I64) -> String {
    match t {
        I64::NaN => "nan".into(),
        I64::MinusInf => "-inf".into(),
        I64::PlusInf => "+inf".into(),
        I64::Num(n) => n.to_string(),
    }
}

fn parse_tok(s: &str) -> Option<I64> {
    match s {
        "nan" => Some(I64::NaN),
        "-inf" => Some(I64::MinusInf),
        "+inf" => Some(I64::PlusInf),
        _ if s.starts_with('+') => None,
        _ => s.parse::<i64>().ok().map(I64::Num),
    }
}

fn tree_rec<M>(m: &M, e: &M::Edge, out: &mut String)
where
    M: Manager<Terminal = I64>,
    M::InnerNode: HasLevel,
{
    match m.get_node(e) {
        Node::Inner(n) => {
            out.push_str(&format!("(v{} ", m.level_to_var(n.level())));
            tree_rec(m, &n.child(0), out);
            out.push(' ');
            tree_rec(m, &n.child(1), out);
            out.push(')');
        }
        Node::Terminal(t) => {
            out.push('#');
            out.push_str(&tok(t.borrow()));
        }
    }
}

fn tree_of<M>(m: &M, e: &M::Edge) -> String
where
    M: Manager<Terminal = I64>,
    M::InnerNode: HasLevel,
{
    let mut s = String::new();
    tree_rec(m, e, &mut s);
    s
}

fn zero_one<M>(m: &M, e: &M::Edge) -> bool
where
    M: Manager<Terminal = I64>,
    M::InnerNode: HasLevel,
{
    match m.get_node(e) {
        Node::Inner(n) => zero_one(m, &n.child(0)) && zero_one(m, &n.child(1)),
        Node::Terminal(t) => matches!(t.borrow(), I64::Num(0) | I64::Num(1)),
    }
}

/// the complete store as seen through the public API
#[derive(Clone, PartialEq, Default)]
struct Snap {
    /// tree -> (ref_count, child trees)
    nodes: BTreeMap<String, (usize, [String; 2])>,
    terms: BTreeSet<String>,
    ninner: usize,
    nterms: usize,
    err: Option<String>,
}

fn snap_rec<M>(m: &M) -> Snap
where
    M: Manager<Terminal = I64>,
    M::InnerNode: HasLevel,
{
    let mut s = Snap::default();
    let mut listed = 0usize;
    for view in m.levels() {
        for e in view.iter() {
            listed += 1;
            let node = match m.get_node(e) {
                Node::Inner(n) => n,
                Node::Terminal(_) => {
                    s.err = Some("a level lists a terminal".into());
                    continue;
                }
            };
            let t = tree_of(m, e);
            let c = [tree_of(m, &node.child(0)), tree_of(m, &node.child(1))];
            if s.nodes.insert(t.clone(), (node.ref_count(), c)).is_some() {
                s.err = Some(format!("node {} is stored twice", t));
            }
        }
    }
    s.ninner = m.num_inner_nodes();
    if listed != s.ninner {
        s.err = Some(format!("num_inner_nodes() = {} but the levels list {} nodes", s.ninner, listed));
    }
    // terminals: the iterator hands out owned edges which have to be given back
    let edges: Vec<M::Edge> = m.terminals().collect();
    let mut count = 0usize;
    for e in edges {
        count += 1;
        match m.get_node(&e) {
            Node::Terminal(t) => {
                let tk = format!("#{}", tok(t.borrow()));
                if !s.terms.insert(tk.clone()) {
                    s.err = Some(format!("terminals() lists {} twice", tk));
                }
            }
            Node::Inner(_) => s.err = Some("terminals() lists an inner node".into()),
        }
        m.drop_edge(e);
    }
    s.nterms = m.num_terminals();
    if count != s.nterms {
        s.err = Some(format!("num_terminals() = {} but the iterator yields {}", s.nterms, count));
    }
    s
}

impl Snap {
    fn parents(&self) -> HashMap<&str, usize> {
        let mut p: HashMap<&str, usize> = HashMap::new();
        for (_, (_, c)) in &self.nodes {
            for x in c {
                if x.starts_with('(') {
                    *p.entry(x.as_str()).or_insert(0) += 1;
                }
            }
        }
        p
    }
    /// external part of every counter: ref_count − stored parent edges
    fn external(&self, ctx: &mut Ctx) -> HashMap<String, i64> {
        let p = self.parents();
        let mut e = HashMap::new();
        for (t, (rc, _)) in &self.nodes {
            let par = *p.get(t.as_str()).unwrap_or(&0);
            let x = *rc as i64 - par as i64;
            if x < 0 {
                ctx.fail("ref-count", &format!("node {} has ref_count {} but {} stored parent edges", t, rc, par));
            }
            e.insert(t.clone(), x);
        }
        e
    }
    fn show(&self) -> String {
        let items: Vec<String> = self.nodes.iter().map(|(t, (rc, _))| format!("{}:{}", t, rc)).collect();
        let terms: Vec<String> = self.terms.iter().cloned().collect();
        let a = if items.is_empty() { "-".to_string() } else { items.join(" | ") };
        let b = if terms.is_empty() { "-".to_string() } else { terms.join(" ") };
        format!("I={} T={} ; {} ; {}", self.nodes.len(), self.terms.len(), a, b)
    }
}

/// inner sub-diagrams and terminals reachable from a printed tree (trees are canonical names)
fn collect(snap: &Snap, t: &str, inner: &mut BTreeSet<String>, terms: &mut BTreeSet<String>) {
    if t.starts_with('#') {
        terms.insert(t.to_string());
        return;
    }
    if !inner.insert(t.to_string()) {
        return;
    }
    if let Some((_, c)) = snap.nodes.get(t) {
        let c = c.clone();
        collect(snap, &c[0], inner, terms);
        collect(snap, &c[1], inner, terms);
    }
}

struct Sc {
    // field order: handles are dropped before the manager
    hs: HashMap<String, MTBDDFunction<I64>>,
    mref: Option<MTBDDManagerRef<I64>>,
    n: u32,
    ncap: usize,
    tcap: usize,
}

impl Sc {
    fn snap(&self) -> Snap {
        self.mref.as_ref().unwrap().with_manager_shared(|m| snap_rec(m))
    }
    fn root_tree(&self, name: &str) -> Option<String> {
        let f = self.hs.get(name)?;
        Some(f.with_manager_shared(|m, e| tree_of(m, e)))
    }
    fn handle_trees(&self) -> BTreeMap<String, String> {
        self.hs.iter().map(|(k, f)| (k.clone(), f.with_manager_shared(|m, e| tree_of(m, e)))).collect()
    }

    /// the oracles that hold after every line
    fn check_always(&self, s: &Snap, ctx: &mut Ctx, when: &str) {
        if let Some(e) = &s.err {
            ctx.fail("audit", &format!("{}: {}", when, e));
        }
        if s.ninner > self.ncap {
            ctx.fail("capacity-exceeded", &format!("{}: {} inner nodes stored in a manager with node capacity {}", when, s.ninner, self.ncap));
        }
        if s.nterms > self.tcap {
            ctx.fail("capacity-exceeded", &format!("{}: {} terminals stored in a manager with terminal capacity {}", when, s.nterms, self.tcap));
        }
        // counter = handles + stored parent edges
        let mut expected: HashMap<String, usize> = HashMap::new();
        let mut need: BTreeSet<String> = BTreeSet::new();
        for t in self.handle_trees().values() {
            if t.starts_with('(') {
                *expected.entry(t.clone()).or_insert(0) += 1;
            } else {
                need.insert(t.clone());
            }
        }
        for (_, (_, c)) in &s.nodes {
            for x in c {
                if x.starts_with('(') {
                    *expected.entry(x.clone()).or_insert(0) += 1;
                } else {
                    need.insert(x.clone());
                }
            }
        }
        for (t, (rc, _)) in &s.nodes {
            let e = *expected.get(t).unwrap_or(&0);
            if e != *rc {
                ctx.fail("ref-count", &format!("{}: node {} reports ref_count {} but {} references exist (live handles + stored parent edges)", when, t, rc, e));
                break;
            }
        }
        for t in expected.keys() {
            if !s.nodes.contains_key(t) {
                ctx.fail("dangling-edge", &format!("{}: node {} is referenced but not stored", when, t));
                break;
            }
        }
        // every referenced terminal is stored
        for t in &need {
            if !s.terms.contains(t) {
                ctx.fail("terminal-missing", &format!("{}: terminal {} is referenced by a handle or a stored node but terminals() does not list it", when, t));
                break;
            }
        }
    }

    fn exec(&mut self, w: &[&str]) -> Option<Result<MTBDDFunction<I64>, ()>> {
        let mref = self.mref.as_ref()?;
        Some(match w {
            ["const", _, v] => {
                let t = parse_tok(v)?;
                mref.with_manager_shared(|m| MTBDDFunction::constant(m, t)).map_err(|_| ())
            }
            ["var", _, v] => {
                let v: u32 = v.parse().ok()?;
                mref.with_manager_shared(|m| MTBDDFunction::<I64>::var(m, v)).map_err(|_| ())
            }
            ["op", _, o, a, b] => {
                let (f, g) = (self.hs.get(*a)?, self.hs.get(*b)?);
                match *o {
                    "add" => f.add(g),
                    "sub" => f.sub(g),
                    "mul" => f.mul(g),
                    "div" => f.div(g),
                    "min" => PseudoBooleanFunction::min(f, g),
                    "max" => PseudoBooleanFunction::max(f, g),
                    _ => return None,
                }
                .map_err(|_| ())
            }
            ["ite", _, c, a, b] => {
                let (fc, fa, fb) = (self.hs.get(*c)?, self.hs.get(*a)?, self.hs.get(*b)?);
                fc.ite(fa, fb).map_err(|_| ())
            }
            _ => return None,
        })
    }
}

impl Scenario for Sc {
    fn reset(&mut self) {
        self.hs.clear();
        self.mref = None;
        self.n = 0;
    }

    fn step(&mut self, line: &str, ctx: &mut Ctx) -> String {
        let w = words(line);
        if w[0] == "mgr" {
            let get = |k: &str, d: usize| w.iter().find_map(|x| x.strip_prefix(k)).and_then(|s| s.parse().ok()).unwrap_or(d);
            self.hs.clear();
            self.mref = None;
            self.n = get("vars=", 0) as u32;
            self.ncap = get("nodes=", 1 << 16);
            self.tcap = get("terms=", 1 << 16);
            let cache = get("cache=", 1024);
            let mref = oxidd::mtbdd::new_manager::<I64>(self.ncap, self.tcap, cache, 1);
            let n = self.n;
            mref.with_manager_exclusive(|m| {
                m.add_vars(n);
            });
            self.mref = Some(mref);
            return "ok".into();
        }
        if self.mref.is_none() {
            return "err nomgr".into();
        }
        match w.as_slice() {
            ["const", h, ..] | ["var", h, ..] | ["op", h, ..] | ["ite", h, ..] | ["clone", h, ..] => {
                // static rejections (same answers as the model)
                match w.as_slice() {
                    ["const", _, v] if parse_tok(v).is_none() => return "bad-op".into(),
                    ["const", _, _] => {}
                    ["var", _, v] => match v.parse::<u32>() {
                        Ok(v) if v < self.n => {}
                        Ok(_) => return "err range".into(),
                        Err(_) => return "bad-op".into(),
                    },
                    ["op", _, o, a, b] => {
                        if !OPS.contains(o) {
                            return "bad-op".into();
                        }
                        if !self.hs.contains_key(*a) || !self.hs.contains_key(*b) {
                            return "err handle".into();
                        }
                    }
                    ["ite", _, c, a, b] => {
                        if !self.hs.contains_key(*c) || !self.hs.contains_key(*a) || !self.hs.contains_key(*b) {
                            return "err handle".into();
                        }
                        if !self.hs[*c].with_manager_shared(|m, e| zero_one(m, e)) {
                            ctx.count("ite.precond-violated");
                            return "err precond".into();
                        }
                    }
                    ["clone", _, a] => {
                        if !self.hs.contains_key(*a) {
                            return "err handle".into();
                        }
                    }
                    _ => return "bad-op".into(),
                }
                let pre = self.snap();
                let pre_ext = pre.external(ctx);
                let pre_handles = self.handle_trees();
                let old_root = self.root_tree(h);
                let kind = if w[0] == "op" { "bin" } else { w[0] };
                let res: Result<MTBDDFunction<I64>, ()> = if w[0] == "clone" {
                    Ok(self.hs[w[2]].clone())
                } else {
                    match self.exec(&w) {
                        Some(r) => r,
                        None => return "bad-op".into(),
                    }
                };
                let out = match res {
                    Ok(f) => {
                        let t = f.with_manager_shared(|m, e| tree_of(m, e));
                        // `insert` drops the old handle of that name after the operation
                        self.hs.insert(h.to_string(), f);
                        if w[0] == "clone" { "ok".to_string() } else { t }
                    }
                    Err(()) => "OOM".to_string(),
                };
                let post = self.snap();
                let post_ext = post.external(ctx);
                // nothing disappears without a collection
                for t in pre.nodes.keys() {
                    if !post.nodes.contains_key(t) {
                        ctx.fail("node-vanished", &format!("`{}`: node {} is no longer stored although no collection ran", line, t));
                    }
                }
                for t in &pre.terms {
                    if !post.terms.contains(t) {
                        ctx.fail("terminal-vanished", &format!("`{}`: terminal {} is no longer stored although no collection ran", line, t));
                    }
                }
                let created = post.nodes.len() - post.nodes.keys().filter(|t| pre.nodes.contains_key(*t)).count();
                let tcreated = post.terms.len() - post.terms.iter().filter(|t| pre.terms.contains(*t)).count();
                if out == "OOM" {
                    ctx.count(&format!("oom_{}_after_{}_nodes_{}_terms", kind, created.min(9), tcreated.min(5)));
                    let nfull = post.ninner == self.ncap;
                    let tfull = post.nterms == self.tcap;
                    ctx.count(match (nfull, tfull) {
                        (true, true) => "oom.both-full",
                        (true, false) => "oom.nodes-full",
                        (false, true) => "oom.terms-full",
                        (false, false) => "oom.spurious",
                    });
                    if !nfull && !tfull {
                        ctx.fail("spurious-oom", &format!("`{}` reports OutOfMemory but {} of {} node slots and {} of {} terminal slots are used", line, post.ninner, self.ncap, post.nterms, self.tcap));
                    }
                    // nothing acquired is still held, nothing released twice
                    for (t, x) in &post_ext {
                        let before = *pre_ext.get(t).unwrap_or(&0);
                        if *x != before {
                            ctx.fail("oom-changed-refcount", &format!("`{}` failed with OutOfMemory; node {} had {} external references (ref_count − stored parent edges) before and has {} after", line, t, before, x));
                        }
                    }
                    if self.handle_trees() != pre_handles {
                        ctx.fail("oom-changed-handle", &format!("`{}` failed but a handle changed", line));
                    }
                } else {
                    ctx.count(&format!("ok_{}_with_{}_nodes_{}_terms", kind, created.min(6), tcreated.min(3)));
                    let mut delta: HashMap<String, i64> = HashMap::new();
                    if let Some(t) = self.root_tree(h) {
                        if t.starts_with('(') {
                            *delta.entry(t).or_insert(0) += 1;
                        }
                    }
                    if let Some(t) = old_root {
                        if t.starts_with('(') {
                            *delta.entry(t).or_insert(0) -= 1;
                        }
                    }
                    for (t, x) in &post_ext {
                        let want = *pre_ext.get(t).unwrap_or(&0) + *delta.get(t).unwrap_or(&0);
                        if *x != want {
                            ctx.fail("op-changed-refcount", &format!("`{}` succeeded; node {} should have {} external references afterwards but has {}", line, t, want, x));
                        }
                    }
                }
                self.check_always(&post, ctx, &format!("after `{}`", line));
                out
            }
            ["drop", a] => {
                if self.hs.remove(*a).is_none() {
                    return "err handle".into();
                }
                "ok".into()
            }
            ["dropall"] => {
                self.hs.clear();
                "ok".into()
            }
            ["gc"] => {
                let pre = self.snap();
                let pre_handles = self.handle_trees();
                let c = self.mref.as_ref().unwrap().with_manager_shared(|m| m.gc());
                let post = self.snap();
                if pre.ninner < post.ninner || pre.nterms < post.nterms || c != (pre.ninner - post.ninner) + (pre.nterms - post.nterms) {
                    ctx.fail("gc-return", &format!("gc() returned {} but inner nodes went {} -> {} and terminals {} -> {}", c, pre.ninner, post.ninner, pre.nterms, post.nterms));
                }
                // exactly what the handles reach remains (computed on the store *before* the sweep)
                let (mut inner, mut terms) = (BTreeSet::new(), BTreeSet::new());
                for t in pre_handles.values() {
                    collect(&pre, t, &mut inner, &mut terms);
                }
                let stored: BTreeSet<String> = post.nodes.keys().cloned().collect();
                if stored != inner {
                    let extra: Vec<&String> = stored.difference(&inner).collect();
                    let miss: Vec<&String> = inner.difference(&stored).collect();
                    ctx.fail("gc-not-exact", &format!("after gc the stored inner nodes differ from the nodes reachable from the {} live handles: stored but unreachable {:?}, reachable but not stored {:?}", self.hs.len(), extra, miss));
                }
                if post.terms != terms {
                    let extra: Vec<&String> = post.terms.difference(&terms).collect();
                    let miss: Vec<&String> = terms.difference(&post.terms).collect();
                    ctx.fail("gc-terminals-not-exact", &format!("after gc the stored terminals differ from the terminals reachable from the {} live handles: stored but unreachable {:?}, reachable but not stored {:?}", self.hs.len(), extra, miss));
                }
                if self.handle_trees() != pre_handles {
                    ctx.fail("gc-changed-function", "a handle denotes a different diagram after gc");
                }
                self.check_always(&post, ctx, "after gc");
                ctx.count("gc");
                if pre.ninner == post.ninner && pre.nterms > post.nterms {
                    ctx.count("gc.only-terminals-collected");
                }
                if self.hs.is_empty() {
                    ctx.count("gc.no-handles");
                }
                format!("{} {}", post.ninner, post.nterms)
            }
            ["dump"] => {
                let s = self.snap();
                self.check_always(&s, ctx, "dump");
                s.show()
            }
            ["rc", a] => match self.hs.get(*a) {
                None => "err handle".into(),
                Some(f) => f.with_manager_shared(|m, e| match m.get_node(e) {
                    Node::Inner(n) => n.ref_count().to_string(),
                    Node::Terminal(_) => "-".into(),
                }),
            },
            ["ninner"] => self.mref.as_ref().unwrap().with_manager_shared(|m| m.num_inner_nodes()).to_string(),
            ["nterms"] => self.mref.as_ref().unwrap().with_manager_shared(|m| m.num_terminals()).to_string(),
            ["show", a] => match self.root_tree(a) {
                Some(t) => t,
                None => "err handle".into(),
            },
            ["eq", a, b] => match (self.hs.get(*a), self.hs.get(*b)) {
                (Some(f), Some(g)) => {
                    let same = f == g;
                    if same != (self.root_tree(a) == self.root_tree(b)) {
                        ctx.fail("canonicity", &format!("{} == {} is {} but the unfolded trees say otherwise", a, b, same));
                    }
                    (if same { "1" } else { "0" }).into()
                }
                _ => "err handle".into(),
            },
            _ => "bad-op".into(),
        }
    }
}

fn make(_f: &BTreeMap<String, String>) -> Box<dyn Scenario> {
    Box::new(Sc { hs: HashMap::new(), mref: None, n: 0, ncap: 0, tcap: 0 })
}

fn main() {
    harness_main(generate, make)
}
