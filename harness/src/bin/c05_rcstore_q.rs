//! C05/C14 (C04, C13): the complete store with reference counts at *every* step of histories that
//! contain quantification, apply-and-quantify, restrict, substitution (with reusable substitution
//! objects) and cube picking, against the counter model `OxiddModel/Bdd/RcQ.lean`.
//!
//! `c05_rcstore_q gen --tier .. --seed ..` writes histories over 3–6 variables: the lines of
//! `c05_rcstore` (`var`, `notvar`, `const`, `op … not|<binary>|ite`, `clone`, `drop`, `dropall`, `gc`,
//! `rc`, `ninner`, `eq`) plus `quant`, `applyq`, `restrict`, `mksubst`, `subst`, `dropsubst`, `pick`,
//! `pickset` (syntax of the `bdd` protocol, `bf.rs` / `kinds.rs`). The same script is replayed for every
//! node capacity `0..=cmax` (`mgr nodes=<cap>`) so that the first OutOfMemory moves through the
//! allocation points of the script one by one; cache sizes 1, 2, 16, 1024; a `dump` follows every
//! line.  `c05_rcstore_q run` executes the lines on a real BDD manager through the shared
//! `Bf<KBdd>` scenario; the Lean protocol `bdd-rcq` must print the identical stream (every stored
//! node, garbage included, as canonical tree with `ref_count()`, sorted, after every line).
//!
//! Oracles evaluated on the implementation, independent of the model:
//! * (in `Bf::step("dump")`) `ref_count(n)` = live handles on `n` + replacement functions of live
//!   substitution objects on `n` + stored parent edges of `n` (parents that are garbage included)
//!   — after every line;
//! * a failed operation (`OOM`) removes no node, leaves the *external* part
//!   `ref_count − stored parent edges` of every node unchanged (nothing it had acquired is still
//!   held — in particular no edge of the substitution vector, no collapsed operand of
//!   `apply_quant`, no intermediate result —, nothing was released twice), and the store is full;
//! * a successful operation changes the external part only at the result's root (+1) and at the
//!   root of the overwritten handle (−1);
//! * `mksubst` changes the external part by +1 per replacement (−1 per replacement of a replaced
//!   object of the same name), `dropsubst` by −1 per replacement, nothing else;
//! * `gc`: afterwards the stored nodes are exactly those reachable from the handles and from the
//!   replacement functions of the live substitution objects, `gc()` returns the difference of
//!   `num_inner_nodes()`, every handle's function is unchanged; with no handle and no
//!   substitution object the store is empty.
use oxidd::{Function, InnerNode, Manager, ManagerRef};
use oxv::bf::{BIN_OPS, Bf, Kind, TT, child_trees};
use oxv::kinds::KBdd;
use oxv::*;
use std::collections::{BTreeMap, HashMap, HashSet};
use std::io::Write;

type F = <KBdd as Kind>::F;
type SubstObj = (oxidd::Subst<F>, Vec<u32>, Vec<TT>);

// ------------------------------------------------------------------------------------------------
// generator

fn script(rng: &mut Rng, n: u32, steps: usize) -> Vec<String> {
    let mut out: Vec<String> = Vec::new();
    let mut pool: Vec<String> = Vec::new();
    out.push("const cT T".into());
    out.push("const cF F".into());
    let mut vs: Vec<u32> = (0..n).collect();
    rng.shuffle(&mut vs);
    let mut posv: Vec<String> = Vec::new(); // positive cubes (variable sets)
    let mut litv: Vec<String> = Vec::new(); // cubes of literals
    for &v in &vs {
        // (a variable without a handle: `substitute_prepare` has to create its node)
        if v + 1 == n || rng.chance(5, 6) {
            out.push(format!("var x{} {}", v, v));
            pool.push(format!("x{v}"));
            posv.push(format!("x{v}"));
            litv.push(format!("x{v}"));
        }
        if rng.chance(1, 2) {
            out.push(format!("notvar nx{} {}", v, v));
            pool.push(format!("nx{v}"));
            litv.push(format!("nx{v}"));
        }
    }
    posv.push("cT".into());
    litv.push("cT".into());
    // two variable sets and two literal cubes right away
    for k in 0..2 {
        out.push(format!("op vs{} and {} {}", k, rng.pick(&posv), rng.pick(&posv)));
        posv.push(format!("vs{k}"));
        litv.push(format!("vs{k}"));
    }
    for k in 0..2 {
        out.push(format!("op lc{} and {} {}", k, rng.pick(&litv), rng.pick(&litv)));
        litv.push(format!("lc{k}"));
    }
    // a few functions that depend on several variables (so that the quantified / restricted /
    // substituted / picked results are mostly new nodes)
    let mut regs: Vec<String> = Vec::new();
    for k in 0..3 {
        let reg = format!("r{k}");
        let rich = ["xor", "equiv", "xor", "and", "or", "imp"];
        out.push(format!("op {} {} {} {}", reg, rng.pick(&rich), rng.pick(&pool), rng.pick(&pool)));
        for _ in 0..rng.range(1, 3) {
            if rng.chance(1, 4) {
                out.push(format!("op {} ite {} {} {}", reg, rng.pick(&pool), reg, rng.pick(&pool)));
            } else {
                out.push(format!("op {} {} {} {}", reg, rng.pick(&rich), reg, rng.pick(&pool)));
            }
        }
        regs.push(reg);
    }
    pool.push("cT".into());
    pool.push("cF".into());
    let nreg = 10u64;
    let mut sids: Vec<String> = Vec::new();
    let quants = ["forall", "exists", "unique"];
    for _ in 0..steps {
        let k = rng.below(100);
        let reg = format!("r{}", rng.below(nreg));
        let pick = |rng: &mut Rng, regs: &Vec<String>| -> String {
            if !regs.is_empty() && rng.chance(4, 5) { rng.pick(regs).clone() } else { rng.pick(&pool).clone() }
        };
        let mut defines = true;
        if k < 18 {
            let (a, b) = (pick(rng, &regs), pick(rng, &regs));
            let o = if rng.chance(2, 5) { *rng.pick(&["xor", "equiv"]) } else { *rng.pick(&BIN_OPS) };
            out.push(format!("op {} {} {} {}", reg, o, a, b));
        } else if k < 21 {
            out.push(format!("op {} not {}", reg, pick(rng, &regs)));
        } else if k < 27 {
            let (a, b, c) = (pick(rng, &regs), pick(rng, &regs), pick(rng, &regs));
            out.push(format!("op {} ite {} {} {}", reg, a, b, c));
        } else if k < 41 {
            // mostly a proper variable set; sometimes any function (`bad-op` unless it is a positive cube)
            let vs = if rng.chance(9, 10) { rng.pick(&posv).clone() } else { pick(rng, &regs) };
            out.push(format!("quant {} {} {} {}", reg, rng.pick(&quants), pick(rng, &regs), vs));
        } else if k < 53 {
            let vs = if rng.chance(9, 10) { rng.pick(&posv).clone() } else { pick(rng, &regs) };
            let (a, b) = (pick(rng, &regs), if rng.chance(1, 8) { "".to_string() } else { pick(rng, &regs) });
            // sometimes both operands equal / an operand constant: the collapsed-operand paths
            let b = if b.is_empty() { a.clone() } else { b };
            out.push(format!("applyq {} {} {} {} {} {}", reg, rng.pick(&quants), rng.pick(&BIN_OPS), a, b, vs));
        } else if k < 63 {
            let c = if rng.chance(9, 10) { rng.pick(&litv).clone() } else { pick(rng, &regs) };
            out.push(format!("restrict {} {} {}", reg, pick(rng, &regs), c));
        } else if k < 68 {
            defines = false;
            let sid = format!("s{}", rng.below(3));
            let mut vv: Vec<u32> = (0..n).collect();
            rng.shuffle(&mut vv);
            let cnt = 1 + rng.below(3.min(n as u64)) as usize;
            let mut l = format!("mksubst {}", sid);
            for &v in &vv[..cnt] {
                l += &format!(" {}={}", v, pick(rng, &regs));
            }
            out.push(l);
            if !sids.contains(&sid) {
                sids.push(sid);
            }
        } else if k < 76 {
            if sids.is_empty() {
                defines = false;
            } else {
                out.push(format!("subst {} {} {}", reg, pick(rng, &regs), rng.pick(&sids)));
            }
        } else if k < 78 {
            defines = false;
            if !sids.is_empty() {
                let i = rng.below(sids.len() as u64) as usize;
                // (the name stays in `sids` now and then: a later `subst` is then `bad-op`)
                let sid = if rng.chance(3, 4) { sids.swap_remove(i) } else { sids[i].clone() };
                out.push(format!("dropsubst {}", sid));
            }
        } else if k < 82 {
            let bits: String = (0..n).map(|_| if rng.chance(1, 2) { '1' } else { '0' }).collect();
            out.push(format!("pick {} {} {}", reg, pick(rng, &regs), bits));
        } else if k < 86 {
            let c = if rng.chance(9, 10) { rng.pick(&litv).clone() } else { pick(rng, &regs) };
            out.push(format!("pickset {} {} {}", reg, pick(rng, &regs), c));
        } else if k < 88 {
            out.push(format!("clone {} {}", reg, pick(rng, &regs)));
        } else if k < 93 {
            defines = false;
            if !regs.is_empty() {
                let i = rng.below(regs.len() as u64) as usize;
                let d = regs.swap_remove(i);
                out.push(format!("drop {}", d));
            }
        } else if k < 97 {
            defines = false;
            out.push("gc".into());
        } else if k < 98 {
            defines = false;
            // grow a variable set / a literal cube
            if rng.chance(1, 2) {
                let k = rng.below(2);
                out.push(format!("op vs{} and vs{} {}", k, k, rng.pick(&posv)));
            } else {
                let k = rng.below(2);
                out.push(format!("op lc{} and lc{} {}", k, k, rng.pick(&litv)));
            }
        } else if k < 99 {
            defines = false;
            out.push(format!("rc {}", pick(rng, &regs)));
        } else {
            defines = false;
            out.push("ninner".into());
        }
        if defines && !regs.contains(&reg) {
            regs.push(reg);
        }
    }
    out.push("dropall".into());
    out.push("gc".into());
    for s in ["s0", "s1", "s2"] {
        out.push(format!("dropsubst {}", s));
    }
    out.push("gc".into());
    out
}

// reference computation for the generator only: truth tables (u64, bit a = value under assignment a)
// and the node set of the reduced ordered diagram (identity order) of a function = its distinct
// non-constant subfunctions obtained by fixing a prefix of the variables
const VMASK: [u64; 6] = [0xAAAA_AAAA_AAAA_AAAA, 0xCCCC_CCCC_CCCC_CCCC, 0xF0F0_F0F0_F0F0_F0F0, 0xFF00_FF00_FF00_FF00, 0xFFFF_0000_FFFF_0000, 0xFFFF_FFFF_0000_0000];

fn cof(t: u64, v: usize, b: bool) -> u64 {
    if b {
        let hi = t & VMASK[v];
        hi | (hi >> (1 << v))
    } else {
        let lo = t & !VMASK[v];
        lo | (lo << (1 << v))
    }
}

fn add_nodes(t: u64, set: &mut HashSet<u64>) {
    if t == 0 || t == !0 || set.contains(&t) {
        return;
    }
    for v in 0..6 {
        let (a, b) = (cof(t, v, true), cof(t, v, false));
        if a != b {
            set.insert(t);
            add_nodes(a, set);
            add_nodes(b, set);
            return;
        }
    }
}

fn bin_tt(op: &str, a: u64, b: u64) -> u64 {
    match op {
        "and" => a & b,
        "or" => a | b,
        "nand" => !(a & b),
        "nor" => !(a | b),
        "xor" => a ^ b,
        "equiv" => !(a ^ b),
        "imp" => !a | b,
        "imp_strict" => !a & b,
        _ => unreachable!(),
    }
}

/// a *focused* script: a fixed set of live functions (built with a `gc` after every line, so that
/// the peak of the set-up is close to the number of live nodes), then target operations each
/// followed by `drop`, `gc` — the store is back at the same baseline before every target operation,
/// so the sweep over the capacities makes **every** allocation point of **every** target
/// operation the point of an OutOfMemory of some case. Returns the script, the peak number of
/// nodes during the set-up and the number of live nodes after it (reference computation on
/// truth tables).
fn focused(rng: &mut Rng, n: u32, targets: usize) -> (Vec<String>, usize, usize) {
    let mut out: Vec<String> = Vec::new();
    let mut tt: HashMap<String, u64> = HashMap::new();
    let mut peak = 0usize;
    out.push("const cT T".into());
    out.push("const cF F".into());
    tt.insert("cT".into(), !0);
    tt.insert("cF".into(), 0);
    let mut lits: Vec<String> = Vec::new();
    // one variable (not the deepest) may have no handle: `substitute_prepare` then has to create
    // its node (an allocation point inside the preparation)
    let skip = if rng.chance(1, 2) { rng.below(n as u64 - 1) as u32 } else { n };
    for v in 0..n {
        if v == skip {
            continue;
        }
        out.push(format!("var x{} {}", v, v));
        lits.push(format!("x{v}"));
        tt.insert(format!("x{v}"), VMASK[v as usize]);
    }
    for v in 0..n {
        if v != skip && rng.chance(1, 2) {
            out.push(format!("notvar nx{} {}", v, v));
            lits.push(format!("nx{v}"));
            tt.insert(format!("nx{v}"), !VMASK[v as usize]);
        }
    }
    // live nodes = nodes of all handles; a new result is created while the old value of the
    // register is still live
    fn live(tt: &HashMap<String, u64>, extra: u64) -> usize {
        let mut s = HashSet::new();
        for t in tt.values() {
            add_nodes(*t, &mut s);
        }
        add_nodes(extra, &mut s);
        s.len()
    }
    let rich = ["xor", "equiv", "xor", "and", "or", "imp", "nand"];
    let funcs = ["f", "g", "h"];
    let mut opnds: Vec<String> = lits.clone();
    let mut def = |out: &mut Vec<String>, tt: &mut HashMap<String, u64>, peak: &mut usize, line: String, name: &str, val: u64| {
        out.push(line);
        out.push("gc".into());
        *peak = (*peak).max(live(tt, val));
        tt.insert(name.to_string(), val);
    };
    for f in ["a", "f", "g", "h"] {
        let (o, x, y) = (*rng.pick(&rich), rng.pick(&opnds).clone(), rng.pick(&lits).clone());
        let v = bin_tt(o, tt[&x], tt[&y]);
        def(&mut out, &mut tt, &mut peak, format!("op {} {} {} {}", f, o, x, y), f, v);
        for _ in 0..rng.range(2, 4) {
            if rng.chance(1, 3) {
                let (c, y) = (rng.pick(&lits).clone(), rng.pick(&opnds).clone());
                let v = (tt[&c] & tt[f]) | (!tt[&c] & tt[&y]);
                def(&mut out, &mut tt, &mut peak, format!("op {} ite {} {} {}", f, c, f, y), f, v);
            } else {
                let (o, y) = (*rng.pick(&rich), rng.pick(&opnds).clone());
                let v = bin_tt(o, tt[f], tt[&y]);
                def(&mut out, &mut tt, &mut peak, format!("op {} {} {} {}", f, o, f, y), f, v);
            }
        }
        opnds.push(f.to_string());
    }
    // variable sets (1..3 variables) and literal cubes
    let mut posv: Vec<String> = Vec::new();
    let mut litv: Vec<String> = Vec::new();
    for k in 0..3 {
        let mut vv: Vec<u32> = (0..n).collect();
        rng.shuffle(&mut vv);
        // mostly deep variables: quantifying / restricting them rebuilds the upper part of the
        // diagram (several allocation points per operation)
        if k < 2 {
            vv = (n / 2..n).collect();
            rng.shuffle(&mut vv);
            vv.extend(0..n / 2);
        }
        vv.retain(|v| *v != skip);
        let cnt = (1 + rng.below(3) as usize).min(vv.len());
        let name = format!("vs{k}");
        let (x, y) = (format!("x{}", vv[0]), format!("x{}", vv[if cnt > 1 { 1 } else { 0 }]));
        let v = tt[&x] & tt[&y];
        def(&mut out, &mut tt, &mut peak, format!("op {} and {} {}", name, x, y), &name, v);
        if cnt > 2 {
            let z = format!("x{}", vv[2]);
            let v = tt[&name] & tt[&z];
            def(&mut out, &mut tt, &mut peak, format!("op {} and {} {}", name, name, z), &name, v);
        }
        posv.push(name);
        let l = |rng: &mut Rng, v: u32| -> String {
            let nx = format!("nx{v}");
            if lits.contains(&nx) && rng.chance(1, 2) { nx } else { format!("x{v}") }
        };
        let name = format!("lc{k}");
        let (x, y) = (l(rng, vv[0]), l(rng, vv[if cnt > 1 { 1 } else { 0 }]));
        let v = tt[&x] & tt[&y];
        def(&mut out, &mut tt, &mut peak, format!("op {} and {} {}", name, x, y), &name, v);
        if cnt > 2 {
            let z = l(rng, vv[2]);
            let v = tt[&name] & tt[&z];
            def(&mut out, &mut tt, &mut peak, format!("op {} and {} {}", name, name, z), &name, v);
        }
        litv.push(name);
    }
    // ballast: further live functions until the number of live nodes reaches the peak of the
    // set-up, so that at the capacities `peak - 1 ..` the target operations start with 0, 1, 2, …
    // free slots
    let mut bi = 0;
    for _ in 0..60 {
        let cur = live(&tt, 0);
        if cur >= peak {
            break;
        }
        let (o, x, y) = (*rng.pick(&rich), rng.pick(&opnds).clone(), rng.pick(&opnds).clone());
        let v = bin_tt(o, tt[&x], tt[&y]);
        let after = live(&tt, v);
        if after > cur && after <= peak {
            let name = format!("b{bi}");
            bi += 1;
            def(&mut out, &mut tt, &mut peak, format!("op {} {} {} {}", name, o, x, y), &name, v);
        }
    }
    out.push("gc".into());
    let base = live(&tt, 0);
    let quants = ["forall", "exists", "unique"];
    let fs = |rng: &mut Rng| -> String { rng.pick(&funcs).to_string() };
    for _ in 0..targets {
        match rng.below(14) {
            12..=13 => out.push(format!("restrict t {} {}", fs(rng), rng.pick(&litv[..2]))),
            0..=2 => out.push(format!("quant t {} {} {}", rng.pick(&quants), fs(rng), rng.pick(&posv))),
            3..=5 => {
                let a = fs(rng);
                // collapsed operands now and then: equal operands, a constant operand
                let b = match rng.below(8) {
                    0 => a.clone(),
                    1 => "cT".to_string(),
                    2 => "cF".to_string(),
                    _ => fs(rng),
                };
                let (a, b) = if rng.chance(1, 2) { (a, b) } else { (b, a) };
                out.push(format!("applyq t {} {} {} {} {}", rng.pick(&quants), rng.pick(&BIN_OPS), a, b, rng.pick(&posv)));
            }
            6..=7 => out.push(format!("restrict t {} {}", fs(rng), rng.pick(&litv))),
            8..=9 => {
                let mut vv: Vec<u32> = (0..n).collect();
                rng.shuffle(&mut vv);
                let cnt = 1 + rng.below(3) as usize;
                let mut l = "mksubst s0".to_string();
                for &v in &vv[..cnt] {
                    let rep = if rng.chance(2, 3) { fs(rng) } else { rng.pick(&lits).clone() };
                    l += &format!(" {}={}", v, rep);
                }
                out.push(l);
                out.push(format!("subst t {} s0", fs(rng)));
                if rng.chance(1, 3) {
                    // the same object once more (its cache identifier is reused)
                    out.push(format!("subst u {} s0", fs(rng)));
                    out.push("drop u".into());
                }
                out.push("dropsubst s0".into());
            }
            10 => {
                let bits: String = (0..n).map(|_| if rng.chance(1, 2) { '1' } else { '0' }).collect();
                out.push(format!("pick t {} {}", fs(rng), bits));
            }
            _ => out.push(format!("pickset t {} {}", fs(rng), rng.pick(&litv))),
        }
        out.push("drop t".into());
        out.push("gc".into());
    }
    out.push("dropall".into());
    out.push("gc".into());
    (out, peak, base)
}

fn generate(cfg: &GenCfg, rng: &mut Rng, w: &mut dyn Write) {
    let scripts = if cfg.thorough { 300 } else { 36 } * cfg.scale;
    for sc in 0..scripts {
        let n = 3 + ((sc / 2) % 4) as u32; // 3..6 variables
        let steps = if cfg.thorough { 60 } else { 40 };
        let (lines, caps): (Vec<String>, Vec<u32>) = if sc % 2 == 0 {
            // a random history: every capacity up to a bound at which most scripts run without OutOfMemory
            let cmax = if cfg.thorough { 10 * n + 20 } else { 8 * n + 14 };
            (script(rng, n, steps), (0..=cmax).collect())
        } else {
            // a focused script: a few capacities at which the set-up fails, then every capacity
            // from the peak of the set-up on (the target operations start with `cap - base` free slots)
            let (lines, peak, base) = focused(rng, n, if cfg.thorough { 24 } else { 20 });
            let lo = peak.saturating_sub(1) as u32;
            let hi = peak.max(base) as u32 + if cfg.thorough { 20 } else { 14 };
            let mut caps: Vec<u32> = vec![0, 2, base as u32 / 2];
            caps.retain(|c| *c < lo);
            caps.dedup();
            caps.extend(lo..=hi);
            (lines, caps)
        };
        for cap in caps {
            let cache = [1usize, 2, 16, 1024][((sc + cap as u64) % 4) as usize];
            writeln!(w, "case rcq-{}{}-n{}-cap{}-c{}", if sc % 2 == 0 { "h" } else { "f" }, sc, n, cap, cache).unwrap();
            writeln!(w, "mgr nodes={} cache={} threads=1 vars={}", cap, cache, n).unwrap();
            for l in &lines {
                writeln!(w, "{}", l).unwrap();
                writeln!(w, "dump").unwrap();
            }
        }
    }
}

// ------------------------------------------------------------------------------------------------
// scenario

struct RcStoreQ {
    inner: Bf<KBdd>,
    cap: usize,
}

/// `dump` output -> tree -> ref_count
fn parse_dump(s: &str) -> HashMap<String, usize> {
    let mut m = HashMap::new();
    let body = match s.split_once(' ') {
        Some((_, b)) => b,
        None => return m,
    };
    for it in body.split(" | ") {
        let it = it.trim();
        if it.is_empty() {
            continue;
        }
        let (t, rc) = it.rsplit_once(':').expect("dump item");
        m.insert(t.to_string(), rc.parse().unwrap());
    }
    m
}

/// stored parent edges per node (from the printed trees)
fn parents(d: &HashMap<String, usize>) -> HashMap<String, usize> {
    let mut p: HashMap<String, usize> = HashMap::new();
    for t in d.keys() {
        for c in child_trees(t) {
            if c.contains('(') {
                *p.entry(c).or_insert(0) += 1;
            }
        }
    }
    p
}

/// external part of every counter: ref_count - stored parent edges
fn external(d: &HashMap<String, usize>, ctx: &mut Ctx) -> HashMap<String, i64> {
    let p = parents(d);
    let mut e = HashMap::new();
    for (t, rc) in d {
        let x = *rc as i64 - *p.get(t).unwrap_or(&0) as i64;
        if x < 0 {
            ctx.fail("ref-count", &format!("node {} has ref_count {} but {} stored parent edges", t, rc, p[t]));
        }
        e.insert(t.clone(), x);
    }
    e
}

fn close(t: &str, seen: &mut HashSet<String>) {
    if !t.contains('(') || !seen.insert(t.to_string()) {
        return;
    }
    for c in child_trees(t) {
        close(&c, seen);
    }
}

impl RcStoreQ {
    fn root_tree(&self, name: &str) -> Option<String> {
        let f = self.inner.h.get(name)?;
        Some(self.inner.tree_of(f))
    }

    /// printed trees of the replacement functions of a substitution object
    fn subst_trees(&self, key: &str) -> Option<Vec<String>> {
        use oxidd_core::util::Substitution;
        let b = self.inner.state.get(key)?;
        let (sub, _, _) = b.downcast_ref::<SubstObj>()?;
        Some(sub.pairs().map(|(_, f)| self.inner.tree_of(f)).collect())
    }

    fn all_subst_keys(&self) -> Vec<String> {
        self.inner.state.keys().filter(|k| k.starts_with("subst-")).cloned().collect()
    }

    fn check_ext(&self, line: &str, pre_ext: &HashMap<String, i64>, post_ext: &HashMap<String, i64>, delta: &HashMap<String, i64>, sig: &str, ctx: &mut Ctx) {
        for (t, x) in post_ext {
            let want = *pre_ext.get(t).unwrap_or(&0) + *delta.get(t).unwrap_or(&0);
            if *x != want {
                ctx.fail(sig, &format!("`{}`: node {} should have {} external references (ref_count − stored parent edges) afterwards but has {}", line, t, want, x));
            }
        }
    }
}

impl Scenario for RcStoreQ {
    fn reset(&mut self) {
        self.inner.reset();
        self.cap = 0;
    }

    fn step(&mut self, line: &str, ctx: &mut Ctx) -> String {
        let w = words(line);
        match w[0] {
            "mgr" => {
                self.cap = w.iter().find_map(|x| x.strip_prefix("nodes=")).map(|s| s.parse().unwrap()).unwrap_or(1 << 16);
                self.inner.step(line, ctx)
            }
            "rc" => match self.inner.h.get(w[1]) {
                None => "bad-op".into(),
                Some(f) => f.with_manager_shared(|m, e| match m.get_node(e) {
                    oxidd::Node::Inner(n) => n.ref_count().to_string(),
                    oxidd::Node::Terminal(_) => "-".into(),
                }),
            },
            "ninner" => self.inner.mref().with_manager_shared(|m| m.num_inner_nodes()).to_string(),
            "gc" => {
                let pre = parse_dump(&self.inner.step("dump", ctx));
                let (col, before, after) = self.inner.mref().with_manager_shared(|m| {
                    let before = m.num_inner_nodes();
                    let c = m.gc();
                    (c, before, m.num_inner_nodes())
                });
                if before - after != col {
                    ctx.fail("gc-return", "gc() return value differs from the change of num_inner_nodes()");
                }
                let post = parse_dump(&self.inner.step("dump", ctx));
                // exactly the nodes reachable from handles and from live substitution objects remain
                let mut reach: HashSet<String> = HashSet::new();
                let names: Vec<String> = self.inner.h.keys().cloned().collect();
                for k in &names {
                    close(&self.root_tree(k).unwrap(), &mut reach);
                }
                let keys = self.all_subst_keys();
                for k in &keys {
                    for t in self.subst_trees(k).unwrap_or_default() {
                        close(&t, &mut reach);
                    }
                }
                for t in post.keys() {
                    if !reach.contains(t) {
                        ctx.fail("gc-not-exact", &format!("after gc node {} is stored but not reachable from a handle or a substitution object", t));
                    }
                    if !pre.contains_key(t) {
                        ctx.fail("gc-created", &format!("gc created node {}", t));
                    }
                }
                for t in &reach {
                    if !post.contains_key(t) {
                        ctx.fail("gc-freed-live", &format!("gc removed node {} which is reachable from a handle or a substitution object", t));
                    }
                }
                if post.len() != after {
                    ctx.fail("num-inner-nodes", &format!("num_inner_nodes() = {} but {} nodes are stored", after, post.len()));
                }
                if names.is_empty() && keys.is_empty() {
                    ctx.count("gc_with_nothing_live");
                    if after != 0 {
                        ctx.fail("not-empty", &format!("no handle and no substitution object is live, but {} nodes survive gc", after));
                    }
                }
                // handles unchanged
                for k in names {
                    let f = self.inner.h[&k].clone();
                    let act = self.inner.actual_tt(&f, ctx, "after gc");
                    if act != self.inner.tt[&k] {
                        ctx.fail("gc-changed-function", &format!("handle {} changed by gc", k));
                        break;
                    }
                }
                ctx.count(if col > 0 { "gc_collecting" } else { "gc_idle" });
                after.to_string()
            }
            "mksubst" | "dropsubst" => {
                let pre = parse_dump(&self.inner.step("dump", ctx));
                let pre_ext = external(&pre, ctx);
                let key = format!("subst-{}", w[1]);
                let old = self.subst_trees(&key);
                let out = self.inner.step(line, ctx);
                let post = parse_dump(&self.inner.step("dump", ctx));
                let post_ext = external(&post, ctx);
                if out == "bad-op" {
                    if pre != post {
                        ctx.fail("badop-changed-store", &format!("`{}` is rejected but the store changed", line));
                    }
                    return out;
                }
                if pre.keys().collect::<HashSet<_>>() != post.keys().collect::<HashSet<_>>() {
                    ctx.fail("subst-object-changed-nodes", &format!("`{}` changed the set of stored nodes", line));
                }
                let mut delta: HashMap<String, i64> = HashMap::new();
                if w[0] == "mksubst" {
                    ctx.count(if old.is_some() { "mksubst_replacing" } else { "mksubst_new" });
                    for t in self.subst_trees(&key).unwrap_or_default() {
                        if t.contains('(') {
                            *delta.entry(t).or_insert(0) += 1;
                        }
                    }
                } else {
                    ctx.count("dropsubst");
                }
                for t in old.unwrap_or_default() {
                    if t.contains('(') {
                        *delta.entry(t).or_insert(0) -= 1;
                    }
                }
                self.check_ext(line, &pre_ext, &post_ext, &delta, "subst-object-refcount", ctx);
                out
            }
            "op" | "var" | "notvar" | "const" | "clone" | "quant" | "applyq" | "restrict" | "subst" | "pick" | "pickset" => {
                let pre = parse_dump(&self.inner.step("dump", ctx));
                let pre_ext = external(&pre, ctx);
                let old_root = self.root_tree(w[1]);
                let out = self.inner.step(line, ctx);
                let post = parse_dump(&self.inner.step("dump", ctx));
                let post_ext = external(&post, ctx);
                let kind = if w[0] == "op" { if w[2] == "not" || w[2] == "ite" { w[2] } else { "bin" } } else { w[0] };
                if out == "bad-op" {
                    ctx.count(&format!("badop_{}", kind));
                    if pre != post {
                        ctx.fail("badop-changed-store", &format!("`{}` is rejected but the store changed", line));
                    }
                    return out;
                }
                // no node disappears without a collection
                for t in pre.keys() {
                    if !post.contains_key(t) {
                        ctx.fail("node-vanished", &format!("`{}`: node {} is no longer stored although no collection ran", line, t));
                    }
                }
                let created = post.len() - post.keys().filter(|t| pre.contains_key(*t)).count();
                if out == "OOM" {
                    ctx.count(&format!("oom_{}_after_{}_allocs", kind, created.min(8)));
                    ctx.count(&format!("oom_{}", kind));
                    if w[0] == "applyq" && (w[4] == w[5] || w[4].starts_with('c') || w[5].starts_with('c')) {
                        ctx.count("oom_applyq_collapsed_candidate");
                    }
                    // the store is full (single-threaded: an error only when no slot is left)
                    if post.len() != self.cap {
                        ctx.fail("spurious-oom", &format!("`{}` reports OutOfMemory but {} of {} slots are used", line, post.len(), self.cap));
                    }
                    // nothing acquired is still held, nothing released twice
                    self.check_ext(line, &pre_ext, &post_ext, &HashMap::new(), "oom-changed-refcount", ctx);
                    // handles untouched
                    if self.root_tree(w[1]) != old_root {
                        ctx.fail("oom-changed-handle", &format!("`{}` failed but handle {} changed", line, w[1]));
                    }
                } else {
                    ctx.count(&format!("ok_{}_with_{}_allocs", kind, created.min(8)));
                    ctx.count(&format!("ok_{}", kind));
                    // garbage left behind by a successful operation (intermediate results)
                    let root = self.root_tree(w[1]).unwrap_or_default();
                    let mut reach = HashSet::new();
                    close(&root, &mut reach);
                    let garbage = post.keys().filter(|t| !pre.contains_key(*t) && !reach.contains(*t)).count();
                    if garbage > 0 {
                        ctx.count(&format!("ok_{}_leaving_garbage", kind));
                    }
                    // expected change of the external parts: +1 result root, -1 overwritten handle's root
                    let mut delta: HashMap<String, i64> = HashMap::new();
                    if root.contains('(') {
                        *delta.entry(root).or_insert(0) += 1;
                    }
                    if let Some(t) = old_root {
                        if t.contains('(') {
                            *delta.entry(t).or_insert(0) -= 1;
                        }
                    }
                    self.check_ext(line, &pre_ext, &post_ext, &delta, "op-changed-refcount", ctx);
                    if post.len() > self.cap {
                        ctx.fail("capacity-exceeded", &format!("{} nodes stored in a manager with capacity {}", post.len(), self.cap));
                    }
                }
                out
            }
            _ => self.inner.step(line, ctx),
        }
    }
}

fn make(f: &BTreeMap<String, String>) -> Box<dyn Scenario> {
    Box::new(RcStoreQ { inner: Bf::<KBdd>::new(f), cap: 0 })
}

fn main() {
    harness_main(generate, make)
}
