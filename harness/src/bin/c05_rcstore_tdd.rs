//! C05/C14/C11/C06: the complete TDD store — ternary inner nodes with reference counts — at
//! *every* step, against the counter model `OxiddModel/Tdd/RcS.lean`.
//!
//! `c05_rcstore_tdd gen --tier .. --seed ..` writes histories over 2–4 variables (`const t|u|f`,
//! `var`, `not`, `notowned`, `op … and|or|nand|nor|xor|equiv|imp|imp_strict`, `ite`, `clone`,
//! `drop`, `dropall`, `gc`, `rc`, `ninner`, `eq`) for managers with small node capacities
//! (`mgr vars=<n> nodes=<k> cache=<k>`): the same script is replayed for every capacity
//! `0..=cmax`, so that the first OutOfMemory moves through the allocation points one by one (in
//! particular through the first, second and third recursive call of a ternary expansion); a
//! `dump` follows every line.  `run` executes the lines on a real TDD index manager (single worker
//! thread, background collection disabled by the small capacity) and prints after `dump` every
//! stored inner node — garbage included — as canonical tree `(v<k> <t> <u> <e>)` with
//! `ref_count()`, sorted.  The Lean protocol `tdd-rc` must print the identical stream.
//!
//! Oracles evaluated on the implementation, independent of the model:
//! * after every line: `ref_count(n)` = live handles on `n` + stored parent edges of `n` (parents
//!   that are garbage included); every referenced node is stored; no stored node has three equal
//!   children, children lie on strictly lower levels, no node is stored twice;
//!   `num_inner_nodes()` agrees with the level iterators and respects the capacity;
//! * a failed operation (`OOM`) removes no node, leaves the *external* part
//!   `ref_count − parents` of every node unchanged, changes no handle, and the store is really full;
//! * a successful operation changes the external part only at the result's root (+1) and at the
//!   root of the overwritten handle (−1); its **value table** over all 3^n three-valued
//!   assignments is the property's truth table (Kleene not/and/or, Łukasiewicz imp/equiv,
//!   xor = ¬equiv, imp_strict(a,b) = ¬imp(b,a), the stated ite) applied pointwise to the operands'
//!   value tables (computed by an independent walk before the operation);
//! * after `gc`: stored inner nodes = nodes reachable from the handles, `gc()` returns the
//!   difference, every handle's tree is unchanged.
use oxidd::tdd::{TDDFunction, TDDManagerRef};
use oxidd::{Function, HasLevel, InnerNode, Manager, ManagerRef, Node, TVLFunction};
use oxidd_core::LevelView;
use oxidd_rules_tdd::TDDTerminal;
use oxv::*;
use std::borrow::Borrow;
use std::collections::{BTreeMap, BTreeSet, HashMap};
use std::io::Write;

// ------------------------------------------------------------------------------------------------
// the three-valued logic of the property text, values 0 = false, 1 = unknown, 2 = true

type V = u8;

fn v_not(a: V) -> V {
    2 - a
}
fn v_and(a: V, b: V) -> V {
    a.min(b)
}
fn v_or(a: V, b: V) -> V {
    a.max(b)
}
/// Łukasiewicz implication: min(1, 1 - a + b) on {0, 1/2, 1}
fn v_imp(a: V, b: V) -> V {
    (2 + b as i32 - a as i32).min(2) as V
}
/// Łukasiewicz equivalence: 1 - |a - b|
fn v_equiv(a: V, b: V) -> V {
    (2 - (a as i32 - b as i32).abs()) as V
}
fn v_bin(op: &str, a: V, b: V) -> V {
    match op {
        "and" => v_and(a, b),
        "or" => v_or(a, b),
        "nand" => v_not(v_and(a, b)),
        "nor" => v_not(v_or(a, b)),
        "xor" => v_not(v_equiv(a, b)),
        "equiv" => v_equiv(a, b),
        "imp" => v_imp(a, b),
        "imp_strict" => v_not(v_imp(b, a)),
        _ => unreachable!(),
    }
}
/// "ite(a,b,c) is b if b = c or a is true, c if a is false, and for unknown a: or(a,c) if a = b,
/// and(a,b) if a = c, unknown otherwise"
fn v_ite(a: V, b: V, c: V) -> V {
    if b == c || a == 2 {
        b
    } else if a == 0 {
        c
    } else if a == b {
        v_or(a, c)
    } else if a == c {
        v_and(a, b)
    } else {
        1
    }
}
fn v_str(v: V) -> &'static str {
    match v {
        0 => "F",
        1 => "U",
        _ => "T",
    }
}

// ------------------------------------------------------------------------------------------------
// generator

const OPS: [&str; 8] = ["and", "or", "nand", "nor", "xor", "equiv", "imp", "imp_strict"];
const CONSTS: [&str; 3] = ["t", "u", "f"];

fn script(rng: &mut Rng, n: u32, steps: usize) -> Vec<String> {
    let mut out: Vec<String> = Vec::new();
    let mut pool: Vec<String> = Vec::new();
    let mut vs: Vec<u32> = (0..n).collect();
    rng.shuffle(&mut vs);
    for &v in &vs {
        if rng.chance(5, 6) || pool.is_empty() {
            out.push(format!("var x{} {}", v, v));
            pool.push(format!("x{v}"));
        }
    }
    // the three constants (always created, in a random order; operands pick them less often than
    // variables and registers)
    let mut cs = CONSTS.to_vec();
    rng.shuffle(&mut cs);
    for c in cs {
        out.push(format!("const c{} {}", c, c));
        if rng.chance(1, 2) {
            pool.push(format!("c{c}"));
        }
    }
    let nreg = 8u64;
    let mut regs: Vec<String> = Vec::new();
    for _ in 0..steps {
        let k = rng.below(100);
        let reg = format!("r{}", rng.below(nreg));
        let pick = |rng: &mut Rng, regs: &Vec<String>| -> String {
            if !regs.is_empty() && rng.chance(7, 10) { rng.pick(regs).clone() } else { rng.pick(&pool).clone() }
        };
        let bind = |regs: &mut Vec<String>, reg: &String| {
            if !regs.contains(reg) {
                regs.push(reg.clone());
            }
        };
        if k < 36 {
            let (a, b) = (pick(rng, &regs), pick(rng, &regs));
            out.push(format!("op {} {} {} {}", reg, rng.pick(&OPS), a, b));
            bind(&mut regs, &reg);
        } else if k < 58 {
            // ite: all shapes of the prologue — equal operands, constant operands, arbitrary ones
            let c = pick(rng, &regs);
            let mut a = pick(rng, &regs);
            let mut b = pick(rng, &regs);
            match rng.below(16) {
                0 => a = c.clone(),
                1 => b = c.clone(),
                2 => b = a.clone(),
                3 | 4 => a = format!("c{}", rng.pick(&CONSTS)),
                5 | 6 => b = format!("c{}", rng.pick(&CONSTS)),
                7 => {
                    a = "cf".into();
                    b = "ct".into();
                }
                8 => {
                    a = "ct".into();
                    b = "cf".into();
                }
                9 => {
                    a = format!("c{}", rng.pick(&CONSTS));
                    b = format!("c{}", rng.pick(&CONSTS));
                }
                _ => {}
            }
            out.push(format!("ite {} {} {} {}", reg, c, a, b));
            bind(&mut regs, &reg);
        } else if k < 64 {
            out.push(format!("not {} {}", reg, pick(rng, &regs)));
            bind(&mut regs, &reg);
        } else if k < 68 {
            out.push(format!("notowned {} {}", reg, pick(rng, &regs)));
            bind(&mut regs, &reg);
        } else if k < 70 {
            out.push(format!("const {} {}", reg, rng.pick(&CONSTS)));
            bind(&mut regs, &reg);
        } else if k < 74 {
            let a = pick(rng, &regs);
            out.push(format!("clone {} {}", reg, a));
            bind(&mut regs, &reg);
        } else if k < 85 {
            if !regs.is_empty() {
                let i = rng.below(regs.len() as u64) as usize;
                let d = regs.swap_remove(i);
                out.push(format!("drop {}", d));
            }
        } else if k < 93 {
            out.push("gc".into());
        } else if k < 96 {
            out.push(format!("rc {}", pick(rng, &regs)));
        } else if k < 98 {
            out.push("ninner".into());
        } else {
            out.push(format!("eq {} {}", pick(rng, &regs), pick(rng, &regs)));
        }
    }
    out.push("dropall".into());
    out.push("gc".into());
    out
}

fn emit(w: &mut dyn Write, sc: u64, n: u32, cap: u32, lines: &[String]) {
    let cache = [1usize, 2, 16, 1024][((sc + cap as u64) % 4) as usize];
    writeln!(w, "case trc-s{}-n{}-N{}-c{}", sc, n, cap, cache).unwrap();
    writeln!(w, "mgr vars={} nodes={} cache={}", n, cap, cache).unwrap();
    for l in lines {
        writeln!(w, "{}", l).unwrap();
        writeln!(w, "dump").unwrap();
    }
}

fn generate(cfg: &GenCfg, rng: &mut Rng, w: &mut dyn Write) {
    let scripts = if cfg.thorough { 120 } else { 45 } * cfg.scale;
    for sc in 0..scripts {
        let n = 2 + (sc % 3) as u32; // 2..4 variables
        let steps = if cfg.thorough { 50 } else { 32 };
        let lines = script(rng, n, steps);
        let cmax = 10 * n + 8;
        for cap in 0..=cmax {
            emit(w, sc, n, cap, &lines);
        }
    }
}

// ------------------------------------------------------------------------------------------------
// scenario

fn term_val(t: &TDDTerminal) -> V {
    match t {
        TDDTerminal::False => 0,
        TDDTerminal::Unknown => 1,
        TDDTerminal::True => 2,
    }
}

fn tree_rec<M>(m: &M, e: &M::Edge, out: &mut String)
where
    M: Manager<Terminal = TDDTerminal>,
    M::InnerNode: HasLevel,
{
    match m.get_node(e) {
        Node::Inner(n) => {
            out.push_str(&format!("(v{} ", m.level_to_var(n.level())));
            tree_rec(m, &n.child(0), out);
            out.push(' ');
            tree_rec(m, &n.child(1), out);
            out.push(' ');
            tree_rec(m, &n.child(2), out);
            out.push(')');
        }
        Node::Terminal(t) => out.push_str(v_str(term_val(t.borrow()))),
    }
}

fn tree_of<M>(m: &M, e: &M::Edge) -> String
where
    M: Manager<Terminal = TDDTerminal>,
    M::InnerNode: HasLevel,
{
    let mut s = String::new();
    tree_rec(m, e, &mut s);
    s
}

/// independent evaluation: follow the true/unknown/false child according to the value of the
/// node's variable
fn walk<M>(m: &M, e: &M::Edge, sigma: &[V]) -> V
where
    M: Manager<Terminal = TDDTerminal>,
    M::InnerNode: HasLevel,
{
    match m.get_node(e) {
        Node::Inner(n) => {
            let v = m.level_to_var(n.level()) as usize;
            let k = match sigma[v] {
                2 => 0,
                1 => 1,
                _ => 2,
            };
            walk(m, &n.child(k), sigma)
        }
        Node::Terminal(t) => term_val(t.borrow()),
    }
}

/// value table over all 3^n assignments (digit v of the index = value of variable v)
fn table<M>(m: &M, e: &M::Edge, n: u32) -> Vec<V>
where
    M: Manager<Terminal = TDDTerminal>,
    M::InnerNode: HasLevel,
{
    let total = 3usize.pow(n);
    let mut res = Vec::with_capacity(total);
    let mut sigma = vec![0 as V; n as usize];
    for mut k in 0..total {
        for v in 0..n as usize {
            sigma[v] = (k % 3) as V;
            k /= 3;
        }
        res.push(walk(m, e, &sigma));
    }
    res
}

/// the complete store as seen through the public API
#[derive(Clone, PartialEq, Default)]
struct Snap {
    /// tree -> (ref_count, child trees)
    nodes: BTreeMap<String, (usize, [String; 3])>,
    ninner: usize,
    err: Option<String>,
}

fn snap_rec<M>(m: &M) -> Snap
where
    M: Manager<Terminal = TDDTerminal>,
    M::InnerNode: HasLevel,
{
    let mut s = Snap::default();
    let mut listed = 0usize;
    for view in m.levels() {
        let lno = view.level_no();
        for e in view.iter() {
            listed += 1;
            let node = match m.get_node(e) {
                Node::Inner(n) => n,
                Node::Terminal(_) => {
                    s.err = Some("a level lists a terminal".into());
                    continue;
                }
            };
            if node.level() != lno {
                s.err = Some(format!("a node of level {} is listed on level {}", node.level(), lno));
            }
            let t = tree_of(m, e);
            let c = [tree_of(m, &node.child(0)), tree_of(m, &node.child(1)), tree_of(m, &node.child(2))];
            if c[0] == c[1] && c[1] == c[2] {
                s.err = Some(format!("stored node {} has three equal children (not reduced)", t));
            }
            for k in 0..3 {
                if let Node::Inner(cn) = m.get_node(&node.child(k)) {
                    if cn.level() <= node.level() {
                        s.err = Some(format!("stored node {} has a child that is not on a lower level", t));
                    }
                }
            }
            if s.nodes.insert(t.clone(), (node.ref_count(), c)).is_some() {
                s.err = Some(format!("node {} is stored twice", t));
            }
        }
    }
    s.ninner = m.num_inner_nodes();
    if listed != s.ninner {
        s.err = Some(format!("num_inner_nodes() = {} but the levels list {} nodes", s.ninner, listed));
    }
    s
}

impl Snap {
    fn parents(&self) -> HashMap<&str, usize> {
        let mut p: HashMap<&str, usize> = HashMap::new();
        for (_, (_, c)) in &self.nodes {
            for x in c {
                if x.starts_with('(') {
                    *p.entry(x.as_str()).or_insert(0) += 1;
                }
            }
        }
        p
    }
    /// external part of every counter: ref_count − stored parent edges
    fn external(&self, ctx: &mut Ctx) -> HashMap<String, i64> {
        let p = self.parents();
        let mut e = HashMap::new();
        for (t, (rc, _)) in &self.nodes {
            let par = *p.get(t.as_str()).unwrap_or(&0);
            let x = *rc as i64 - par as i64;
            if x < 0 {
                ctx.fail("ref-count", &format!("node {} has ref_count {} but {} stored parent edges", t, rc, par));
            }
            e.insert(t.clone(), x);
        }
        e
    }
    fn show(&self) -> String {
        let items: Vec<String> = self.nodes.iter().map(|(t, (rc, _))| format!("{}:{}", t, rc)).collect();
        let a = if items.is_empty() { "-".to_string() } else { items.join(" | ") };
        format!("I={} ; {}", self.nodes.len(), a)
    }
}

/// inner sub-diagrams reachable from a printed tree (trees are canonical names)
fn collect(snap: &Snap, t: &str, inner: &mut BTreeSet<String>) {
    if !t.starts_with('(') {
        return;
    }
    if !inner.insert(t.to_string()) {
        return;
    }
    if let Some((_, c)) = snap.nodes.get(t) {
        let c = c.clone();
        for x in &c {
            collect(snap, x, inner);
        }
    }
}

struct Sc {
    // field order: handles are dropped before the manager
    hs: HashMap<String, TDDFunction>,
    mref: Option<TDDManagerRef>,
    n: u32,
    cap: usize,
}

impl Sc {
    fn snap(&self) -> Snap {
        self.mref.as_ref().unwrap().with_manager_shared(|m| snap_rec(m))
    }
    fn root_tree(&self, name: &str) -> Option<String> {
        let f = self.hs.get(name)?;
        Some(f.with_manager_shared(|m, e| tree_of(m, e)))
    }
    fn handle_trees(&self) -> BTreeMap<String, String> {
        self.hs.iter().map(|(k, f)| (k.clone(), f.with_manager_shared(|m, e| tree_of(m, e)))).collect()
    }
    fn table_of(&self, f: &TDDFunction) -> Vec<V> {
        let n = self.n;
        f.with_manager_shared(|m, e| table(m, e, n))
    }

    /// the oracles that hold after every line
    fn check_always(&self, s: &Snap, ctx: &mut Ctx, when: &str) {
        if let Some(e) = &s.err {
            ctx.fail("audit", &format!("{}: {}", when, e));
        }
        if s.ninner > self.cap {
            ctx.fail("capacity-exceeded", &format!("{}: {} inner nodes stored in a manager with node capacity {}", when, s.ninner, self.cap));
        }
        // counter = handles + stored parent edges
        let mut expected: HashMap<String, usize> = HashMap::new();
        for t in self.handle_trees().values() {
            if t.starts_with('(') {
                *expected.entry(t.clone()).or_insert(0) += 1;
            }
        }
        for (_, (_, c)) in &s.nodes {
            for x in c {
                if x.starts_with('(') {
                    *expected.entry(x.clone()).or_insert(0) += 1;
                }
            }
        }
        for (t, (rc, _)) in &s.nodes {
            let e = *expected.get(t).unwrap_or(&0);
            if e != *rc {
                ctx.fail("ref-count", &format!("{}: node {} reports ref_count {} but {} references exist (live handles + stored parent edges)", when, t, rc, e));
                break;
            }
        }
        for t in expected.keys() {
            if !s.nodes.contains_key(t) {
                ctx.fail("dangling-edge", &format!("{}: node {} is referenced but not stored", when, t));
                break;
            }
        }
    }

    fn exec(&mut self, w: &[&str]) -> Option<Result<TDDFunction, ()>> {
        let mref = self.mref.as_ref()?;
        Some(match w {
            ["const", _, v] => Ok(mref.with_manager_shared(|m| match *v {
                "t" => TDDFunction::t(m),
                "u" => TDDFunction::u(m),
                _ => TDDFunction::f(m),
            })),
            ["var", _, v] => {
                let v: u32 = v.parse().ok()?;
                mref.with_manager_shared(|m| TDDFunction::var(m, v)).map_err(|_| ())
            }
            ["not", _, a] => self.hs.get(*a)?.not().map_err(|_| ()),
            ["notowned", _, a] => self
                .hs
                .get(*a)?
                .with_manager_shared(|m, e| {
                    let owned = m.clone_edge(e);
                    TDDFunction::not_edge_owned(m, owned).map(|r| TDDFunction::from_edge(m, r))
                })
                .map_err(|_| ()),
            ["op", _, o, a, b] => {
                let (f, g) = (self.hs.get(*a)?, self.hs.get(*b)?);
                match *o {
                    "and" => f.and(g),
                    "or" => f.or(g),
                    "nand" => f.nand(g),
                    "nor" => f.nor(g),
                    "xor" => f.xor(g),
                    "equiv" => f.equiv(g),
                    "imp" => f.imp(g),
                    "imp_strict" => f.imp_strict(g),
                    _ => return None,
                }
                .map_err(|_| ())
            }
            ["ite", _, c, a, b] => {
                let (fc, fa, fb) = (self.hs.get(*c)?, self.hs.get(*a)?, self.hs.get(*b)?);
                fc.ite(fa, fb).map_err(|_| ())
            }
            _ => return None,
        })
    }

    /// the value table the property demands for the result of `w` (from the operands' tables,
    /// computed by the independent walk *before* the operation)
    fn expected_table(&self, w: &[&str]) -> Option<Vec<V>> {
        let total = 3usize.pow(self.n);
        Some(match w {
            ["const", _, v] => vec![match *v { "t" => 2, "u" => 1, _ => 0 }; total],
            ["var", _, v] => {
                let v: u32 = v.parse().ok()?;
                (0..total).map(|k| ((k / 3usize.pow(v)) % 3) as V).collect()
            }
            ["not", _, a] | ["notowned", _, a] => self.table_of(self.hs.get(*a)?).iter().map(|&x| v_not(x)).collect(),
            ["op", _, o, a, b] => {
                let (ta, tb) = (self.table_of(self.hs.get(*a)?), self.table_of(self.hs.get(*b)?));
                ta.iter().zip(tb.iter()).map(|(&x, &y)| v_bin(o, x, y)).collect()
            }
            ["ite", _, c, a, b] => {
                let (tc, ta, tb) = (self.table_of(self.hs.get(*c)?), self.table_of(self.hs.get(*a)?), self.table_of(self.hs.get(*b)?));
                (0..total).map(|k| v_ite(tc[k], ta[k], tb[k])).collect()
            }
            ["clone", _, a] => self.table_of(self.hs.get(*a)?),
            _ => return None,
        })
    }
}

impl Scenario for Sc {
    fn reset(&mut self) {
        self.hs.clear();
        self.mref = None;
        self.n = 0;
    }

    fn step(&mut self, line: &str, ctx: &mut Ctx) -> String {
        let w = words(line);
        if w.is_empty() {
            return "bad-op".into();
        }
        if w[0] == "mgr" {
            let get = |k: &str, d: usize| w.iter().find_map(|x| x.strip_prefix(k)).and_then(|s| s.parse().ok()).unwrap_or(d);
            self.hs.clear();
            self.mref = None;
            self.n = get("vars=", 0) as u32;
            self.cap = get("nodes=", 1 << 16);
            let cache = get("cache=", 1024);
            let mref = oxidd::tdd::new_manager(self.cap, cache, 1);
            let n = self.n;
            mref.with_manager_exclusive(|m| {
                m.add_vars(n);
            });
            self.mref = Some(mref);
            return "ok".into();
        }
        if self.mref.is_none() {
            return "err nomgr".into();
        }
        match w.as_slice() {
            ["const", h, ..] | ["var", h, ..] | ["not", h, ..] | ["notowned", h, ..] | ["op", h, ..] | ["ite", h, ..] | ["clone", h, ..] => {
                // static rejections (same answers as the model)
                match w.as_slice() {
                    ["const", _, v] if !CONSTS.contains(v) => return "bad-op".into(),
                    ["const", _, _] => {}
                    ["var", _, v] => match v.parse::<u32>() {
                        Ok(v) if v < self.n => {}
                        Ok(_) => return "err range".into(),
                        Err(_) => return "bad-op".into(),
                    },
                    ["not", _, a] | ["notowned", _, a] | ["clone", _, a] => {
                        if !self.hs.contains_key(*a) {
                            return "err handle".into();
                        }
                    }
                    ["op", _, o, a, b] => {
                        if !OPS.contains(o) {
                            return "bad-op".into();
                        }
                        if !self.hs.contains_key(*a) || !self.hs.contains_key(*b) {
                            return "err handle".into();
                        }
                    }
                    ["ite", _, c, a, b] => {
                        if !self.hs.contains_key(*c) || !self.hs.contains_key(*a) || !self.hs.contains_key(*b) {
                            return "err handle".into();
                        }
                    }
                    _ => return "bad-op".into(),
                }
                let pre = self.snap();
                let pre_ext = pre.external(ctx);
                let pre_handles = self.handle_trees();
                let old_root = self.root_tree(h);
                let want = self.expected_table(&w);
                let kind = if w[0] == "op" { "bin" } else { w[0] };
                if w[0] == "ite" {
                    // which part of the prologue of apply_ite_rec is taken
                    let (c, a, b) = (&pre_handles[w[2]], &pre_handles[w[3]], &pre_handles[w[4]]);
                    let inner = |t: &String| t.starts_with('(');
                    ctx.count(if a == b {
                        "ite.g==h"
                    } else if c == a {
                        "ite.f==g"
                    } else if c == b {
                        "ite.f==h"
                    } else if !inner(c) && c != "U" {
                        "ite.cond-T/F"
                    } else if !inner(c) && !inner(a) && !inner(b) {
                        "ite.cond-U.terminal-branches"
                    } else if !inner(a) && inner(b) {
                        match a.as_str() { "T" => "ite.g=T:or", "F" => "ite.g=F:imp_strict", _ => "ite.g=U:recurse" }
                    } else if inner(a) && !inner(b) {
                        match b.as_str() { "T" => "ite.h=T:imp", "F" => "ite.h=F:and", _ => "ite.h=U:recurse" }
                    } else if !inner(a) && !inner(b) {
                        match (a.as_str(), b.as_str()) { ("F", "T") => "ite.FT:not", ("T", "F") => "ite.TF:f", _ => "ite.terminals:recurse" }
                    } else if !inner(c) {
                        "ite.cond-U:recurse"
                    } else {
                        "ite.inner:recurse"
                    });
                }
                let res: Result<TDDFunction, ()> = if w[0] == "clone" {
                    Ok(self.hs[w[2]].clone())
                } else {
                    match self.exec(&w) {
                        Some(r) => r,
                        None => return "bad-op".into(),
                    }
                };
                let out = match res {
                    Ok(f) => {
                        let t = f.with_manager_shared(|m, e| tree_of(m, e));
                        // the property: the result's value table is the truth table applied pointwise
                        if let Some(want) = &want {
                            let got = self.table_of(&f);
                            if got != *want {
                                let strs = |t: &Vec<V>| t.iter().map(|&v| v_str(v)).collect::<String>();
                                ctx.fail("value-table", &format!("`{}` returned {} with value table {} but the three-valued truth table applied to the operands gives {}", line, t, strs(&got), strs(want)));
                            }
                        }
                        // `insert` drops the old handle of that name after the operation
                        self.hs.insert(h.to_string(), f);
                        if w[0] == "clone" { "ok".to_string() } else { t }
                    }
                    Err(()) => "OOM".to_string(),
                };
                let post = self.snap();
                let post_ext = post.external(ctx);
                // nothing disappears without a collection
                for t in pre.nodes.keys() {
                    if !post.nodes.contains_key(t) {
                        ctx.fail("node-vanished", &format!("`{}`: node {} is no longer stored although no collection ran", line, t));
                    }
                }
                let created = post.nodes.len() - post.nodes.keys().filter(|t| pre.nodes.contains_key(*t)).count();
                if out == "OOM" {
                    ctx.count(&format!("oom_{}_after_{}_nodes", kind, created.min(12)));
                    if post.ninner != self.cap {
                        ctx.fail("spurious-oom", &format!("`{}` reports OutOfMemory but {} of {} node slots are used", line, post.ninner, self.cap));
                    }
                    // nothing acquired is still held, nothing released twice
                    for (t, x) in &post_ext {
                        let before = *pre_ext.get(t).unwrap_or(&0);
                        if *x != before {
                            ctx.fail("oom-changed-refcount", &format!("`{}` failed with OutOfMemory; node {} had {} external references (ref_count − stored parent edges) before and has {} after", line, t, before, x));
                        }
                    }
                    if self.handle_trees() != pre_handles {
                        ctx.fail("oom-changed-handle", &format!("`{}` failed but a handle changed", line));
                    }
                } else {
                    ctx.count(&format!("ok_{}_with_{}_nodes", kind, created.min(8)));
                    let mut delta: HashMap<String, i64> = HashMap::new();
                    if let Some(t) = self.root_tree(h) {
                        if t.starts_with('(') {
                            *delta.entry(t).or_insert(0) += 1;
                        }
                    }
                    if let Some(t) = old_root {
                        if t.starts_with('(') {
                            *delta.entry(t).or_insert(0) -= 1;
                        }
                    }
                    for (t, x) in &post_ext {
                        let want = *pre_ext.get(t).unwrap_or(&0) + *delta.get(t).unwrap_or(&0);
                        if *x != want {
                            ctx.fail("op-changed-refcount", &format!("`{}` succeeded; node {} should have {} external references afterwards but has {}", line, t, want, x));
                        }
                    }
                }
                self.check_always(&post, ctx, &format!("after `{}`", line));
                out
            }
            ["drop", a] => {
                if self.hs.remove(*a).is_none() {
                    return "err handle".into();
                }
                "ok".into()
            }
            ["dropall"] => {
                self.hs.clear();
                "ok".into()
            }
            ["gc"] => {
                let pre = self.snap();
                let pre_handles = self.handle_trees();
                let c = self.mref.as_ref().unwrap().with_manager_shared(|m| m.gc());
                let post = self.snap();
                if pre.ninner < post.ninner || c != pre.ninner - post.ninner {
                    ctx.fail("gc-return", &format!("gc() returned {} but inner nodes went {} -> {}", c, pre.ninner, post.ninner));
                }
                // exactly what the handles reach remains (computed on the store *before* the sweep)
                let mut inner = BTreeSet::new();
                for t in pre_handles.values() {
                    collect(&pre, t, &mut inner);
                }
                let stored: BTreeSet<String> = post.nodes.keys().cloned().collect();
                if stored != inner {
                    let extra: Vec<&String> = stored.difference(&inner).collect();
                    let miss: Vec<&String> = inner.difference(&stored).collect();
                    ctx.fail("gc-not-exact", &format!("after gc the stored inner nodes differ from the nodes reachable from the {} live handles: stored but unreachable {:?}, reachable but not stored {:?}", self.hs.len(), extra, miss));
                }
                if self.handle_trees() != pre_handles {
                    ctx.fail("gc-changed-function", "a handle denotes a different diagram after gc");
                }
                self.check_always(&post, ctx, "after gc");
                ctx.count("gc");
                if pre.ninner > post.ninner {
                    ctx.count("gc.collected-something");
                }
                if self.hs.is_empty() {
                    ctx.count("gc.no-handles");
                }
                format!("{}", post.ninner)
            }
            ["dump"] => {
                let s = self.snap();
                self.check_always(&s, ctx, "dump");
                s.show()
            }
            ["rc", a] => match self.hs.get(*a) {
                None => "err handle".into(),
                Some(f) => f.with_manager_shared(|m, e| match m.get_node(e) {
                    Node::Inner(n) => n.ref_count().to_string(),
                    Node::Terminal(_) => "-".into(),
                }),
            },
            ["ninner"] => self.mref.as_ref().unwrap().with_manager_shared(|m| m.num_inner_nodes()).to_string(),
            ["show", a] => match self.root_tree(a) {
                Some(t) => t,
                None => "err handle".into(),
            },
            ["eq", a, b] => match (self.hs.get(*a), self.hs.get(*b)) {
                (Some(f), Some(g)) => {
                    let same = f == g;
                    if same != (self.root_tree(a) == self.root_tree(b)) {
                        ctx.fail("canonicity", &format!("{} == {} is {} but the unfolded trees say otherwise", a, b, same));
                    }
                    if same != (self.table_of(f) == self.table_of(g)) {
                        ctx.fail("canonicity", &format!("{} == {} is {} but the value tables say otherwise", a, b, same));
                    }
                    (if same { "1" } else { "0" }).into()
                }
                _ => "err handle".into(),
            },
            _ => "bad-op".into(),
        }
    }
}

fn make(_f: &BTreeMap<String, String>) -> Box<dyn Scenario> {
    Box::new(Sc { hs: HashMap::new(), mref: None, n: 0, cap: 0 })
}

fn main() {
    harness_main(generate, make)
}
