//! C05/C14/C09: the complete ZBDD store with reference counts at *every* step — garbage and the
//! tautology chain (internal roots) included — against the counter model.
//!
//! `c05_rcstore_zbdd gen --tier .. --seed ..` writes histories over 2–5 variables (`var`,
//! `singleton`, `const`, `zconst`, `union`/`intsec`/`diff`, `op … and|or|xor|not`,
//! `subset0`/`subset1`/`change`, `clone`, `drop`, `dropall`, `gc`, `addvars`, `reorder-nop`, `rc`,
//! `ninner`, `eq`) for managers with small node capacities (`mgr nodes=<cap>`): the same script is
//! replayed for every capacity from the length of the chain up to `cmax`, so that the first
//! OutOfMemory moves through the allocation points of the script one by one; a `dump` follows
//! every line.  `run` executes the lines on a real ZBDD manager through the shared `Bf<KZbdd>`
//! scenario (same line syntax and `dump` format as `bf --kind zbdd`: every stored node, garbage
//! and chain included, as canonical tree with `ref_count()`, sorted).  The Lean protocol
//! `zbdd-rc` (the counter model `OxiddModel/Zbdd/RcS.lean`) must print the identical stream.
//!
//! `add_vars` aborts the process when the new chain does not fit (`KF-zbdd-addvars-oom`); the
//! scenario does not call it then and prints `abort` (all `n + k` nodes of the new chain are
//! fresh when `k > 0`, none when `k = 0`: the test is `free < n + k`).  `gen --suite kf` writes
//! the one case that does call it.
//!
//! Oracles evaluated on the implementation, independent of the model:
//! * (in `Bf::step("dump")`) `ref_count(n)` = live handles on `n` + stored parent edges of `n`
//!   (garbage parents included) + one per level for the chain node of that level — after every line;
//! * a failed operation (`OOM`) removes no node, leaves the *external* part `ref_count − parents`
//!   of every node unchanged, and the store is really full;
//! * a successful operation changes the external part only at the result's root (+1) and at the
//!   root of the overwritten handle (−1);
//! * `addvars`: no node disappears; the old chain nodes lose exactly their internal reference,
//!   the new chain is stored; every handle denotes the same family (in `Bf`);
//! * `reorder-nop`: store and counters are the same as before;
//! * after `gc` the stored nodes are exactly those reachable from the handles **and the chain**;
//!   with no handles exactly the chain nodes (one per level) remain.
use oxidd::{Function, InnerNode, Manager, ManagerRef};
use oxv::bf::{Bf, Kind, child_trees};
use oxv::kinds::KZbdd;
use oxv::*;
use std::collections::{BTreeMap, HashMap, HashSet};
use std::io::Write;

// ------------------------------------------------------------------------------------------------
// generator

fn script(rng: &mut Rng, n0: u32, steps: usize) -> Vec<String> {
    let mut out: Vec<String> = Vec::new();
    let mut n = n0;
    let mut pool: Vec<String> = Vec::new();
    out.push("const cT T".into());
    out.push("const cF F".into());
    out.push("zconst cB base".into());
    let mut vs: Vec<u32> = (0..n).collect();
    rng.shuffle(&mut vs);
    for &v in &vs {
        if rng.chance(3, 5) {
            out.push(format!("var x{} {}", v, v));
            pool.push(format!("x{v}"));
        }
        if rng.chance(3, 5) {
            out.push(format!("singleton s{} {}", v, v));
            pool.push(format!("s{v}"));
        }
    }
    if pool.len() < 2 {
        out.push("var x0 0".into());
        out.push(format!("singleton s{} {}", n - 1, n - 1));
        pool.push("x0".into());
        pool.push(format!("s{}", n - 1));
    }
    pool.push("cT".into());
    pool.push("cF".into());
    pool.push("cB".into());
    let nreg = 9u64;
    let mut regs: Vec<String> = Vec::new();
    let mut addvars = 0;
    for _ in 0..steps {
        let k = rng.below(100);
        let reg = format!("r{}", rng.below(nreg));
        let pick = |rng: &mut Rng, regs: &Vec<String>| -> String {
            if !regs.is_empty() && rng.chance(2, 3) { rng.pick(regs).clone() } else { rng.pick(&pool).clone() }
        };
        let mut newreg = false;
        if k < 30 {
            let (a, b) = (pick(rng, &regs), pick(rng, &regs));
            let o = *rng.pick(&["union", "intsec", "diff", "diff", "op-and", "op-or", "op-xor", "op-xor"]);
            if let Some(b_op) = o.strip_prefix("op-") {
                out.push(format!("op {} {} {} {}", reg, b_op, a, b));
            } else {
                out.push(format!("{} {} {} {}", o, reg, a, b));
            }
            newreg = true;
        } else if k < 40 {
            out.push(format!("op {} not {}", reg, pick(rng, &regs)));
            newreg = true;
        } else if k < 56 {
            let o = *rng.pick(&["subset0", "subset1", "change", "change"]);
            out.push(format!("{} {} {} {}", o, reg, pick(rng, &regs), rng.below(n as u64)));
            newreg = true;
        } else if k < 61 {
            let v = rng.below(n as u64);
            out.push(format!("{} {} {}", if rng.chance(1, 2) { "var" } else { "singleton" }, reg, v));
            newreg = true;
        } else if k < 66 {
            out.push(format!("clone {} {}", reg, pick(rng, &regs)));
            newreg = true;
        } else if k < 78 {
            if !regs.is_empty() {
                let i = rng.below(regs.len() as u64) as usize;
                let d = regs.swap_remove(i);
                out.push(format!("drop {}", d));
            }
        } else if k < 85 {
            out.push("gc".into());
        } else if k < 89 {
            if addvars < 2 && n < 5 {
                let add = if rng.chance(1, 6) { 0 } else { rng.range(1, (5 - n).min(2) as u64) as u32 };
                out.push(format!("addvars {}", add));
                n += add;
                addvars += 1;
            } else {
                out.push("addvars 0".into());
            }
        } else if k < 93 {
            out.push("reorder-nop".into());
        } else if k < 96 {
            out.push(format!("rc {}", pick(rng, &regs)));
        } else if k < 98 {
            out.push("ninner".into());
        } else {
            out.push(format!("eq {} {}", pick(rng, &regs), pick(rng, &regs)));
        }
        if newreg && !regs.contains(&reg) {
            regs.push(reg);
        }
    }
    out.push("dropall".into());
    out.push("gc".into());
    out
}

fn generate(cfg: &GenCfg, rng: &mut Rng, w: &mut dyn Write) {
    if cfg.extra.get("suite").map(|s| s == "kf").unwrap_or(false) {
        // known finding: the chain of three variables does not fit into two slots
        writeln!(w, "case kf-zbdd-addvars-oom-rc").unwrap();
        writeln!(w, "mgr nodes=4 cache=16 threads=1 vars=2").unwrap();
        writeln!(w, "dump").unwrap();
        writeln!(w, "singleton s0 0").unwrap();
        writeln!(w, "dump").unwrap();
        writeln!(w, "addvars-unguarded 1").unwrap();
        return;
    }
    let scripts = if cfg.thorough { 300 } else { 40 } * cfg.scale;
    for sc in 0..scripts {
        let n = 2 + (sc % 3) as u32; // 2..4 variables at the start, up to 5 after `addvars`
        let steps = if cfg.thorough { 60 } else { 40 };
        let lines = script(rng, n, steps);
        let cmax = if cfg.thorough { 7 * n + 16 } else { 5 * n + 12 };
        for cap in n..=cmax {
            let cache = [1usize, 2, 16, 1024][((sc + cap as u64) % 4) as usize];
            writeln!(w, "case zrc-s{}-n{}-cap{}-c{}", sc, n, cap, cache).unwrap();
            writeln!(w, "mgr nodes={} cache={} threads=1 vars={}", cap, cache, n).unwrap();
            writeln!(w, "dump").unwrap();
            for l in &lines {
                writeln!(w, "{}", l).unwrap();
                writeln!(w, "dump").unwrap();
            }
        }
    }
}

// ------------------------------------------------------------------------------------------------
// scenario

struct RcStore {
    inner: Bf<KZbdd>,
    cap: usize,
}

/// `dump` output -> tree -> ref_count
fn parse_dump(s: &str) -> HashMap<String, usize> {
    let mut m = HashMap::new();
    let body = match s.split_once(' ') {
        Some((_, b)) => b,
        None => return m,
    };
    for it in body.split(" | ") {
        let it = it.trim();
        if it.is_empty() {
            continue;
        }
        let (t, rc) = it.rsplit_once(':').expect("dump item");
        m.insert(t.to_string(), rc.parse().unwrap());
    }
    m
}

/// stored parent edges per node (from the printed trees)
fn parents(d: &HashMap<String, usize>) -> HashMap<String, usize> {
    let mut p: HashMap<String, usize> = HashMap::new();
    for t in d.keys() {
        for c in child_trees(t) {
            if c.contains('(') {
                *p.entry(c).or_insert(0) += 1;
            }
        }
    }
    p
}

/// external part of every counter: ref_count - stored parent edges
fn external(d: &HashMap<String, usize>, ctx: &mut Ctx) -> HashMap<String, i64> {
    let p = parents(d);
    let mut e = HashMap::new();
    for (t, rc) in d {
        let x = *rc as i64 - *p.get(t).unwrap_or(&0) as i64;
        if x < 0 {
            ctx.fail("ref-count", &format!("node {} has ref_count {} but {} stored parent edges", t, rc, p[t]));
        }
        e.insert(t.clone(), x);
    }
    e
}

/// the printed trees of the chain of `n` levels under the identity order, top level last
fn chain_trees(n: u32) -> Vec<String> {
    let mut out = Vec::new();
    let mut cur = String::from("B");
    for l in (0..n).rev() {
        cur = format!("(v{} {} {})", l, cur, cur);
        out.push(cur.clone());
    }
    out
}

impl RcStore {
    fn root_tree(&self, name: &str) -> Option<String> {
        let f = self.inner.h.get(name)?;
        Some(self.inner.tree_of(f))
    }

    /// all printed inner nodes reachable from the handles and from the chain
    fn reachable(&self) -> HashSet<String> {
        let mut seen: HashSet<String> = HashSet::new();
        let mut stack: Vec<String> = self.inner.h.values().map(|f| self.inner.tree_of(f)).collect();
        stack.extend(chain_trees(self.inner.n));
        while let Some(t) = stack.pop() {
            if !t.contains('(') || !seen.insert(t.clone()) {
                continue;
            }
            for c in child_trees(&t) {
                stack.push(c);
            }
        }
        seen
    }
}

impl Scenario for RcStore {
    fn reset(&mut self) {
        self.inner.reset();
        self.cap = 0;
    }

    fn step(&mut self, line: &str, ctx: &mut Ctx) -> String {
        let w = words(line);
        match w[0] {
            "mgr" => {
                self.cap = w.iter().find_map(|x| x.strip_prefix("nodes=")).map(|s| s.parse().unwrap()).unwrap_or(1 << 16);
                let vars: usize = w.iter().find_map(|x| x.strip_prefix("vars=")).map(|s| s.parse().unwrap()).unwrap_or(0);
                if vars > self.cap {
                    return "abort".into();
                }
                self.inner.step(line, ctx)
            }
            "rc" => match self.inner.h.get(w[1]) {
                None => "bad-op".into(),
                Some(f) => f.with_manager_shared(|m, e| match m.get_node(e) {
                    oxidd::Node::Inner(n) => n.ref_count().to_string(),
                    oxidd::Node::Terminal(_) => "-".into(),
                }),
            },
            "ninner" => self.inner.mref().with_manager_shared(|m| m.num_inner_nodes()).to_string(),
            "gc" => {
                let out = self.inner.step(line, ctx);
                // exactly the nodes reachable from handles and chain remain
                let post = parse_dump(&self.inner.step("dump", ctx));
                let reach = self.reachable();
                for t in post.keys() {
                    if !reach.contains(t) {
                        ctx.fail("gc-not-exact", &format!("after gc node {} is stored but reachable neither from a handle nor from the tautology chain", t));
                        break;
                    }
                }
                for t in &reach {
                    if !post.contains_key(t) {
                        ctx.fail("gc-removed-live", &format!("after gc node {} is reachable from a handle or the chain but not stored", t));
                        break;
                    }
                }
                if self.inner.h.values().all(|f| f.with_manager_shared(|m, e| matches!(m.get_node(e), oxidd::Node::Terminal(_)))) {
                    ctx.count("gc_without_inner_handles");
                    if post.len() != self.inner.n as usize {
                        ctx.fail("gc-chain-only", &format!("no handle refers to an inner node, but after gc {} nodes are stored in a manager with {} levels (the chain has one node per level)", post.len(), self.inner.n));
                    }
                }
                out
            }
            "addvars" | "addvars-unguarded" => {
                let k: u32 = w[1].parse().unwrap();
                let n = self.inner.n;
                let pre = parse_dump(&self.inner.step("dump", ctx));
                let pre_ext = external(&pre, ctx);
                if w[0] == "addvars" && k > 0 && self.cap - pre.len() < (n + k) as usize {
                    ctx.count("addvars_would_abort");
                    return "abort".into();
                }
                let out = self.inner.step(&format!("addvars {}", k), ctx);
                let post = parse_dump(&self.inner.step("dump", ctx));
                let post_ext = external(&post, ctx);
                ctx.count(&format!("addvars_{}", k));
                for t in pre.keys() {
                    if !post.contains_key(t) {
                        ctx.fail("node-vanished", &format!("`{}`: node {} is no longer stored although no collection ran (add_vars outside a reordering removes nothing)", line, t));
                    }
                }
                // expected external parts: old chain -1, new chain +1
                let mut delta: HashMap<String, i64> = HashMap::new();
                for t in chain_trees(n) {
                    *delta.entry(t).or_insert(0) -= 1;
                }
                for t in chain_trees(n + k) {
                    if !post.contains_key(&t) {
                        ctx.fail("chain-missing", &format!("`{}`: chain node {} is not stored", line, t));
                    }
                    *delta.entry(t).or_insert(0) += 1;
                }
                for (t, x) in &post_ext {
                    let want = *pre_ext.get(t).unwrap_or(&0) + *delta.get(t).unwrap_or(&0);
                    if *x != want {
                        ctx.fail("addvars-changed-refcount", &format!("`{}`: node {} should have {} external references afterwards but has {}", line, t, want, x));
                    }
                }
                out
            }
            "reorder-nop" => {
                let pre = self.inner.step("dump", ctx);
                ctx.count("reorder_nop");
                self.inner.mref().with_manager_exclusive(|m| m.reorder(|_| ()));
                let post = self.inner.step("dump", ctx);
                if pre != post {
                    ctx.fail("reorder-nop-changed-store", &format!("an empty reordering changed the store: {} -> {}", pre, post));
                }
                "ok".into()
            }
            "var" | "singleton" | "subset0" | "subset1" | "change" if {
                let v: u32 = w[if w[0] == "var" || w[0] == "singleton" { 2 } else { 3 }].parse().unwrap_or(u32::MAX);
                v >= self.inner.n
            } =>
            {
                "bad-op".into()
            }
            "op" | "var" | "singleton" | "const" | "zconst" | "clone" | "union" | "intsec" | "diff" | "subset0" | "subset1" | "change" => {
                let pre = parse_dump(&self.inner.step("dump", ctx));
                let pre_ext = external(&pre, ctx);
                let name = w[1];
                let old_root = self.root_tree(name);
                let out = self.inner.step(line, ctx);
                let post = parse_dump(&self.inner.step("dump", ctx));
                let post_ext = external(&post, ctx);
                let kind = if w[0] == "op" { w[2] } else { w[0] };
                if out == "bad-op" {
                    if pre != post {
                        ctx.fail("badop-changed-store", &format!("`{}` is rejected but the store changed", line));
                    }
                    return out;
                }
                for t in pre.keys() {
                    if !post.contains_key(t) {
                        ctx.fail("node-vanished", &format!("`{}`: node {} is no longer stored although no collection ran", line, t));
                    }
                }
                let created = post.len() - post.keys().filter(|t| pre.contains_key(*t)).count();
                if out == "OOM" {
                    ctx.count(&format!("oom_{}_after_{}_allocs", kind, created));
                    ctx.count(&format!("oom_after_{}_allocs", created));
                    if post.len() != self.cap {
                        ctx.fail("spurious-oom", &format!("`{}` reports OutOfMemory but {} of {} slots are used", line, post.len(), self.cap));
                    }
                    for (t, x) in &post_ext {
                        let before = *pre_ext.get(t).unwrap_or(&0);
                        if *x != before {
                            ctx.fail("oom-changed-refcount", &format!("`{}` failed with OutOfMemory; node {} had {} external references (ref_count − stored parent edges) before and has {} after", line, t, before, x));
                        }
                    }
                    if self.root_tree(name) != old_root {
                        ctx.fail("oom-changed-handle", &format!("`{}` failed but handle {} changed", line, name));
                    }
                } else {
                    ctx.count(&format!("ok_{}_with_{}_allocs", kind, created.min(8)));
                    let mut delta: HashMap<String, i64> = HashMap::new();
                    if let Some(t) = self.root_tree(name) {
                        if t.contains('(') {
                            *delta.entry(t).or_insert(0) += 1;
                        }
                    }
                    if let Some(t) = old_root {
                        if t.contains('(') {
                            *delta.entry(t).or_insert(0) -= 1;
                        }
                    }
                    for (t, x) in &post_ext {
                        let want = *pre_ext.get(t).unwrap_or(&0) + *delta.get(t).unwrap_or(&0);
                        if *x != want {
                            ctx.fail("op-changed-refcount", &format!("`{}` succeeded; node {} should have {} external references afterwards but has {}", line, t, want, x));
                        }
                    }
                    if post.len() > self.cap {
                        ctx.fail("capacity-exceeded", &format!("{} nodes stored in a manager with capacity {}", post.len(), self.cap));
                    }
                }
                out
            }
            _ => self.inner.step(line, ctx),
        }
    }
}

fn make(f: &BTreeMap<String, String>) -> Box<dyn Scenario> {
    Box::new(RcStore { inner: Bf::<KZbdd>::new(f), cap: 0 })
}

fn main() {
    let _ = <KZbdd as Kind>::NAME;
    harness_main(generate, make)
}
