//! C06: the real direct-mapped apply cache driven directly through the `ApplyCache` trait.
//!
//! The scenario is a *monitor*: every observed hit must return a value that was added under
//! exactly the queried key (operator, every edge operand, every numeric operand, value arity) since
//! the last `clear`/`gc`; misses are always allowed (eviction, lock contention). This is the
//! executable reading of `Policy.OK` in `lean/OxiddModel/Bdd/CacheS.lean`, which the store-level
//! theorems quantify over. Oracle-only stream (no model column): outputs are `ok`.
use std::collections::{BTreeMap, HashMap, HashSet};
use std::io::Write;

use oxidd::bdd::BDDFunction;
use oxidd::{BooleanFunction, Edge, Function, Manager, ManagerRef};
use oxidd_core::{ApplyCache, HasApplyCache};
use oxidd_rules_bdd::simple::BDDOp;
use oxv::*;

struct Sc {
    mref: Option<oxidd::bdd::BDDManagerRef>,
    pool: Vec<BDDFunction>,
    /// key: (operator, edge operand ids, numeric operands, number of edge values, number of numeric values)
    added: HashMap<(u8, Vec<usize>, Vec<u32>, usize, usize), HashSet<(Vec<usize>, Vec<u32>)>>,
}

fn op_of(i: u64) -> BDDOp {
    [BDDOp::Not, BDDOp::And, BDDOp::Or, BDDOp::Xor, BDDOp::Imp, BDDOp::Ite, BDDOp::Substitute, BDDOp::Restrict, BDDOp::Exists, BDDOp::ExistsAnd][i as usize % 10]
}

impl Scenario for Sc {
    fn reset(&mut self) {
        self.pool.clear();
        self.added.clear();
        self.mref = None;
    }
    fn step(&mut self, line: &str, ctx: &mut Ctx) -> String {
        let w = words(line);
        match w[0] {
            "mgr" => {
                let cache: usize = w[1].parse().unwrap();
                let n: u32 = w[2].parse().unwrap();
                let mref = oxidd::bdd::new_manager(65536, cache, 1);
                mref.with_manager_exclusive(|m| {
                    m.add_vars(n);
                });
                // a pool of distinct functions (edges) to use as operands and values
                let mut pool: Vec<BDDFunction> = Vec::new();
                mref.with_manager_shared(|m| {
                    for v in 0..n {
                        pool.push(BDDFunction::var(m, v).unwrap());
                    }
                    pool.push(BDDFunction::t(m));
                    pool.push(BDDFunction::f(m));
                });
                let mut i = 0;
                while pool.len() < 40 {
                    let (a, b) = (pool[i % pool.len()].clone(), pool[(i * 7 + 3) % pool.len()].clone());
                    let r = match i % 3 {
                        0 => a.and(&b),
                        1 => a.xor(&b),
                        _ => a.or(&b),
                    }
                    .unwrap();
                    if !pool.contains(&r) {
                        pool.push(r);
                    }
                    i += 1;
                    if i > 2000 {
                        break;
                    }
                }
                // building the pool used the cache through the real operations: start from an empty one
                mref.with_manager_shared(|m| m.apply_cache().clear(m));
                self.pool = pool;
                self.mref = Some(mref);
                "ok".into()
            }
            "add" | "get" => {
                // add|get <op> <nedge> e.. <nnum> n.. <nval> v.. <nvnum> x..
                let mut it = w[1..].iter().map(|x| x.parse::<u64>().unwrap());
                let op = it.next().unwrap();
                let ne = it.next().unwrap() as usize;
                let es: Vec<usize> = (0..ne).map(|_| it.next().unwrap() as usize % self.pool.len()).collect();
                let nn = it.next().unwrap() as usize;
                let ns: Vec<u32> = (0..nn).map(|_| it.next().unwrap() as u32).collect();
                let nv = it.next().unwrap() as usize;
                let vs: Vec<usize> = (0..nv).map(|_| it.next().unwrap() as usize % self.pool.len()).collect();
                let nx = it.next().unwrap() as usize;
                let xs: Vec<u32> = (0..nx).map(|_| it.next().unwrap() as u32).collect();
                let pool = &self.pool;
                let mref = self.mref.as_ref().unwrap();
                let opv = op_of(op);
                let ids = |v: &Vec<usize>, m: &<BDDFunction as Function>::Manager<'_>| -> Vec<usize> { v.iter().map(|&i| pool[i].as_edge(m).node_id()).collect() };
                if w[0] == "add" {
                    let (eids, vids) = mref.with_manager_shared(|m| {
                        let eo: Vec<_> = es.iter().map(|&i| pool[i].as_edge(m).borrowed()).collect();
                        let vo: Vec<_> = vs.iter().map(|&i| pool[i].as_edge(m).borrowed()).collect();
                        m.apply_cache().add_extended(m, opv, (&eo, &ns), (&vo, &xs));
                        (ids(&es, m), ids(&vs, m))
                    });
                    self.added.entry((opv as u8, eids, ns, nv, nx)).or_default().insert((vids, xs));
                    ctx.count("adds");
                    "ok".into()
                } else {
                    // value arities are const generics: cover the shapes the rules crates use
                    let res: Option<(Vec<usize>, Vec<u32>)> = mref.with_manager_shared(|m| {
                        let eo: Vec<_> = es.iter().map(|&i| pool[i].as_edge(m).borrowed()).collect();
                        let c = m.apply_cache();
                        macro_rules! q {
                            ($e:literal, $n:literal) => {
                                c.get_extended::<$e, $n>(m, opv, (&eo, &ns)).map(|(ev, nvv)| {
                                    let ids: Vec<usize> = ev.iter().map(|e| e.node_id()).collect();
                                    for e in ev {
                                        m.drop_edge(e);
                                    }
                                    (ids, nvv.to_vec())
                                })
                            };
                        }
                        match (nv, nx) {
                            (1, 0) => q!(1, 0),
                            (0, 1) => q!(0, 1),
                            (1, 1) => q!(1, 1),
                            (2, 0) => q!(2, 0),
                            _ => None,
                        }
                    });
                    let eids = mref.with_manager_shared(|m| ids(&es, m));
                    match res {
                        None => {
                            ctx.count("misses");
                        }
                        Some(v) => {
                            ctx.count("hits");
                            let key = (opv as u8, eids.clone(), ns.clone(), nv, nx);
                            let ok = self.added.get(&key).map(|s| s.contains(&v)).unwrap_or(false);
                            if !ok {
                                ctx.fail(
                                    "cache-hit-not-added",
                                    &format!("get({:?}, edges {:?}, numeric {:?}, arity ({},{})) returned {:?}, which was never added under exactly this key since the last clear", opv, eids, ns, nv, nx, v),
                                );
                            }
                        }
                    }
                    "ok".into()
                }
            }
            "clear" => {
                let mref = self.mref.as_ref().unwrap();
                mref.with_manager_shared(|m| m.apply_cache().clear(m));
                self.added.clear();
                "ok".into()
            }
            "gc" => {
                let mref = self.mref.as_ref().unwrap();
                mref.with_manager_shared(|m| m.gc());
                self.added.clear();
                "ok".into()
            }
            _ => "bad-op".into(),
        }
    }
}

fn generate(cfg: &GenCfg, rng: &mut Rng, w: &mut dyn Write) {
    let cases = if cfg.thorough { 400 } else { 40 } * cfg.scale;
    for c in 0..cases {
        let cache = *rng.pick(&[1usize, 2, 3, 16, 64, 1024]);
        writeln!(w, "case cache-{}-cap{}", c, cache).unwrap();
        writeln!(w, "mgr {} {}", cache, rng.range(3, 6)).unwrap();
        // a small key universe so that the same key, keys differing in one component, and bucket
        // collisions all occur
        let keys: Vec<String> = (0..rng.range(4, 30))
            .map(|_| {
                let shape = rng.below(5);
                match shape {
                    0 => format!("{} 1 {} 0", rng.below(10), rng.below(8)),
                    1 => format!("{} 2 {} {} 0", rng.below(10), rng.below(8), rng.below(8)),
                    2 => format!("{} 3 {} {} {} 0", rng.below(10), rng.below(8), rng.below(8), rng.below(8)),
                    3 => format!("{} 1 {} 1 {}", rng.below(10), rng.below(8), rng.below(4)),
                    _ => format!("{} 2 {} {} 1 {}", rng.below(10), rng.below(8), rng.below(8), rng.below(4)),
                }
            })
            .collect();
        // every key has a "home" value shape; 1 in 6 operations uses another shape (the value arity
        // is part of the key)
        let home: Vec<u64> = keys.iter().map(|_| rng.below(4)).collect();
        for _ in 0..(if cfg.thorough { 600 } else { 300 }) {
            let ki = rng.below(keys.len() as u64) as usize;
            let k = &keys[ki];
            let shape = if rng.chance(1, 6) { rng.below(4) } else { home[ki] };
            match rng.below(20) {
                0 => writeln!(w, "clear").unwrap(),
                1 => writeln!(w, "gc").unwrap(),
                2..=8 => {
                    let val = match shape {
                        0 => format!("1 {} 0", rng.below(30)),
                        1 => format!("0 1 {}", rng.below(5)),
                        2 => format!("1 {} 1 {}", rng.below(30), rng.below(5)),
                        _ => format!("2 {} {} 0", rng.below(30), rng.below(30)),
                    };
                    writeln!(w, "add {} {}", k, val).unwrap()
                }
                _ => {
                    // value placeholders are ignored by `get` apart from the arities
                    let ar = match shape {
                        0 => "1 0 0",
                        1 => "0 1 0",
                        2 => "1 0 1 0",
                        _ => "2 0 0 0",
                    };
                    writeln!(w, "get {} {}", k, ar).unwrap()
                }
            }
        }
    }
}

fn make(_f: &BTreeMap<String, String>) -> Box<dyn Scenario> {
    Box::new(Sc { mref: None, pool: Vec::new(), added: HashMap::new() })
}

fn main() {
    harness_main(generate, make)
}
