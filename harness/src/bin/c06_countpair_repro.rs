//! Reproduction of the count-pair overflow of `DMApplyCache` for `ENTRY_CAP >= 17` on the real
//! code (release semantics: build with debug assertions off; with them on, `CountPair::new`
//! panics on the same calls).
use std::hash::BuildHasherDefault;

use oxidd::bdd::BDDFunction;
use oxidd::util::FxHasher;
use oxidd::{BooleanFunction, Edge, Function, Manager, ManagerRef};
use oxidd_cache::direct::DMApplyCache;
use oxidd_core::util::Borrowed;
use oxidd_core::{ApplyCache, ManagerEventSubscriber};

fn repro<M: Manager>(m: &M, pool: &[Borrowed<'_, M::Edge>])
where
    M::Edge: PartialEq,
{
    let _ = BuildHasherDefault::<FxHasher>::default();
    // SAFETY: no node is deleted while this cache lives
    let cache: DMApplyCache<M, u8, FxHasher, 17> = unsafe { DMApplyCache::with_capacity(1) };
    // --- (1) 16 edge operands, one numeric value -------------------------------------------
    let ops16: Vec<Borrowed<M::Edge>> = (0..16).map(|i| pool[i % pool.len()].borrowed()).collect();
    cache.add_extended(m, 7u8, (&ops16, &[]), (&[], &[42]));
    println!("size_of::<Edge>() = {}", std::mem::size_of::<M::Edge>());
    assert!(std::mem::size_of::<M::Edge>() >= 4);
    // raw words of the first two edge operands as stored in the `Datum` union
    let raw0: u32 = unsafe { std::mem::transmute_copy(&*ops16[0]) };
    let raw1: u32 = unsafe { std::mem::transmute_copy(&*ops16[1]) };
    let same = cache.get_extended::<0, 1>(m, 7u8, (&ops16, &[]));
    println!("get(op 7, the 16 edge operands)           -> {:?}   (added: numeric value 42)", same.map(|x| x.1));
    let foreign = cache.get_extended::<0, 1>(m, 7u8, (&[], &[raw0]));
    println!("get(op 7, NO edge operand, numeric {raw0:#x}) -> {:?}   (never added; word of the 2nd stored edge operand is {raw1:#x})", foreign.map(|x| x.1));
    // --- (2) 16 numeric operands: the entry survives clear() and pre_gc()/post_gc() ---------
    let cache2: DMApplyCache<M, u8, FxHasher, 17> = unsafe { DMApplyCache::with_capacity(1) };
    let nums16: Vec<u32> = (100..116).collect();
    cache2.add_extended(m, 7u8, (&[], &nums16), (&[pool[3].borrowed()], &[]));
    cache2.clear(m);
    let after_clear = cache2.get_extended::<1, 0>(m, 7u8, (&[], &nums16));
    println!("add(op 7, 16 numeric operands); clear(); get -> {}", if after_clear.is_some() { "HIT (entry survived clear)" } else { "miss" });
    if let Some(([e], [])) = after_clear {
        println!("  returned edge equals the added value: {}", e == *pool[3]);
        m.drop_edge(e);
    }
    cache2.pre_gc(m);
    unsafe { cache2.post_gc(m) };
    let after_gc = cache2.get_extended::<1, 0>(m, 7u8, (&[], &nums16));
    println!("pre_gc(); post_gc(); get                       -> {}", if after_gc.is_some() { "HIT (entry survived the collection hooks)" } else { "miss" });
    if let Some(([e], [])) = after_gc {
        m.drop_edge(e);
    }
}

fn main() {
    let mref = oxidd::bdd::new_manager(1024, 16, 1);
    mref.with_manager_exclusive(|m| {
        m.add_vars(6);
    });
    let fs: Vec<BDDFunction> = mref.with_manager_shared(|m| (0..6).map(|v| BDDFunction::var(m, v).unwrap()).collect());
    let g = fs[0].and(&fs[1]).unwrap();
    let mut all = fs.clone();
    all.push(g);
    mref.with_manager_shared(|m| {
        let pool: Vec<_> = all.iter().map(|f| f.as_edge(m).borrowed()).collect();
        repro(m, &pool);
    });
}
