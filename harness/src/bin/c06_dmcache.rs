//! C06: the real `DMApplyCache` (the BDD manager's own apply cache: `FxHasher`, `ENTRY_CAP = 4`)
//! driven through the `ApplyCache` trait and the `ManagerEventSubscriber` hooks, compared line by
//! line with the slot-level Lean model (`OxiddModel/Cache/DMModel.lean`, protocol `dmcache`).
//!
//! The bucket index of every access (`hasher.finish() & mask` with the same hasher type over
//! operator, edge operands, numeric operands) is computed by the generator on a manager built
//! exactly like the one of `run` and written into the operation line as `b=<i>`; `run` recomputes
//! it and refuses a line whose index differs (`bucket-mismatch`). So the model is told the bucket
//! and predicts hit/miss and the returned value *exactly*.
//!
//! Oracles independent of the model: a hit must return a value that was added under the full key
//! (operator, every edge operand, every numeric operand, value shape) since the last
//! clear/gc/reorder (`cache-hit-not-added`, the property itself; Lean: `dm_hit_sound`) and, since
//! there are no lock failures in one thread, the most recent such value (`cache-hit-not-latest`,
//! Lean: `dm_hit_latest`); no hit between `pre_gc` and `post_gc` (`cache-hit-during-gc`, Lean:
//! `dm_gc_empty`).
use std::collections::{BTreeMap, HashMap};
use std::hash::{Hash, Hasher};
use std::io::Write;

use oxidd::bdd::BDDFunction;
use oxidd::{BooleanFunction, Edge, Function, Manager, ManagerRef};
use oxidd_core::{ApplyCache, HasApplyCache, ManagerEventSubscriber};
use oxidd_rules_bdd::simple::BDDOp;
use oxv::*;

const ENTRY_CAP: usize = 4; // `cache_entry_capacity` of `BDDManagerData`

type FullKey = (u8, Vec<usize>, Vec<u32>, usize, usize);

struct Sc {
    mref: Option<oxidd::bdd::BDDManagerRef>,
    pool: Vec<BDDFunction>,
    buckets: usize,
    in_gc: bool,
    /// all values added under the full key since the last clear/gc, in order (the last one is the
    /// one the current implementation must return)
    last: HashMap<FullKey, Vec<(Vec<usize>, Vec<u32>)>>,
}

const OPS: [BDDOp; 10] = [
    BDDOp::Not,
    BDDOp::And,
    BDDOp::Or,
    BDDOp::Xor,
    BDDOp::Imp,
    BDDOp::Ite,
    BDDOp::Substitute,
    BDDOp::Restrict,
    BDDOp::Exists,
    BDDOp::ExistsAnd,
];

fn op_of(i: u64) -> BDDOp {
    OPS[i as usize % OPS.len()]
}

/// manager and a pool of pairwise distinct functions, built deterministically
fn build(cache: usize, n: u32) -> (oxidd::bdd::BDDManagerRef, Vec<BDDFunction>) {
    let mref = oxidd::bdd::new_manager(4096, cache, 1);
    mref.with_manager_exclusive(|m| {
        m.add_vars(n);
    });
    let mut pool: Vec<BDDFunction> = Vec::new();
    mref.with_manager_shared(|m| {
        for v in 0..n {
            pool.push(BDDFunction::var(m, v).unwrap());
        }
        pool.push(BDDFunction::t(m));
        pool.push(BDDFunction::f(m));
    });
    let mut i = 0;
    while pool.len() < 24 {
        let (a, b) = (pool[i % pool.len()].clone(), pool[(i * 7 + 3) % pool.len()].clone());
        let r = match i % 3 {
            0 => a.and(&b),
            1 => a.xor(&b),
            _ => a.or(&b),
        }
        .unwrap();
        if !pool.contains(&r) {
            pool.push(r);
        }
        i += 1;
        if i > 2000 {
            break;
        }
    }
    // building the pool used the cache through the real operations: start from an empty one
    mref.with_manager_shared(|m| m.apply_cache().clear(m));
    (mref, pool)
}

/// `DMApplyCache::bucket`: same hasher type, same feeding order, same mask
fn bucket_of(mref: &oxidd::bdd::BDDManagerRef, pool: &[BDDFunction], buckets: usize, op: BDDOp, es: &[usize], ns: &[u32]) -> usize {
    mref.with_manager_shared(|m| {
        let mut h = oxidd::util::FxHasher::default();
        op.hash(&mut h);
        for &i in es {
            let o = pool[i].as_edge(m).borrowed();
            o.hash(&mut h);
        }
        for o in ns {
            o.hash(&mut h);
        }
        (h.finish() & (buckets as u64 - 1)) as usize
    })
}

struct Parsed {
    b: usize,
    op: u64,
    es: Vec<usize>,
    ns: Vec<u32>,
    a: Vec<u64>,
    c: Vec<u64>,
}

/// `b=<i> <op> <ne> e.. <nn> n.. ` then for add: `<nve> v.. <nvn> x..`, for get: `<E> <N>`
fn parse(w: &[&str], add: bool, pool_len: usize) -> Option<Parsed> {
    let b: usize = w.first()?.strip_prefix("b=")?.parse().ok()?;
    let mut it = w[1..].iter().map(|x| x.parse::<u64>());
    let mut next = || -> Option<u64> { it.next()?.ok() };
    let op = next()?;
    let ne = next()? as usize;
    let mut es = Vec::new();
    for _ in 0..ne {
        let e = next()? as usize;
        if e >= pool_len {
            return None;
        }
        es.push(e);
    }
    let nn = next()? as usize;
    let mut ns = Vec::new();
    for _ in 0..nn {
        ns.push(next()? as u32);
    }
    let (mut a, mut c) = (Vec::new(), Vec::new());
    if add {
        let nv = next()? as usize;
        for _ in 0..nv {
            let e = next()?;
            if e as usize >= pool_len {
                return None;
            }
            a.push(e);
        }
        let nx = next()? as usize;
        for _ in 0..nx {
            c.push(next()?);
        }
    } else {
        a.push(next()?);
        c.push(next()?);
    }
    if next().is_some() {
        return None;
    }
    Some(Parsed { b, op, es, ns, a, c })
}

impl Scenario for Sc {
    fn reset(&mut self) {
        self.pool.clear();
        self.last.clear();
        self.mref = None;
        self.in_gc = false;
        self.buckets = 0;
    }
    fn step(&mut self, line: &str, ctx: &mut Ctx) -> String {
        let w = words(line);
        if w.is_empty() {
            return "bad-op".into();
        }
        if w[0] != "mgr" && self.mref.is_none() {
            return "bad-op".into();
        }
        match w[0] {
            "mgr" => {
                if w.len() != 3 {
                    return "bad-op".into();
                }
                let (Ok(cache), Ok(n)) = (w[1].parse::<usize>(), w[2].parse::<u32>()) else { return "bad-op".into() };
                let (mref, pool) = build(cache, n);
                self.buckets = cache.checked_next_power_of_two().unwrap();
                self.pool = pool;
                self.mref = Some(mref);
                self.in_gc = false;
                self.last.clear();
                format!("ok buckets={}", self.buckets)
            }
            "add" | "get" => {
                let is_add = w[0] == "add";
                let Some(p) = parse(&w[1..], is_add, self.pool.len()) else { return "bad-op".into() };
                let mref = self.mref.as_ref().unwrap();
                let pool = &self.pool;
                let opv = op_of(p.op);
                if p.op as usize >= OPS.len() {
                    return "bad-op".into();
                }
                let b = bucket_of(mref, pool, self.buckets, opv, &p.es, &p.ns);
                if b != p.b {
                    return format!("bucket-mismatch {}", b);
                }
                let ids = |v: &[usize], m: &<BDDFunction as Function>::Manager<'_>| -> Vec<usize> { v.iter().map(|&i| pool[i].as_edge(m).node_id()).collect() };
                if is_add {
                    let vs: Vec<usize> = p.a.iter().map(|&x| x as usize).collect();
                    let xs: Vec<u32> = p.c.iter().map(|&x| x as u32).collect();
                    let eids = mref.with_manager_shared(|m| {
                        let eo: Vec<_> = p.es.iter().map(|&i| pool[i].as_edge(m).borrowed()).collect();
                        let vo: Vec<_> = vs.iter().map(|&i| pool[i].as_edge(m).borrowed()).collect();
                        m.apply_cache().add_extended(m, opv, (&eo, &p.ns), (&vo, &xs));
                        ids(&p.es, m)
                    });
                    self.last.entry((opv as u8, eids, p.ns.clone(), vs.len(), xs.len())).or_default().push((vs, xs));
                    ctx.count("adds");
                    if self.in_gc {
                        ctx.count("adds-during-gc");
                    }
                    "ok".into()
                } else {
                    let (e_cnt, n_cnt) = (p.a[0] as usize, p.c[0] as usize);
                    // only the shapes instantiated below can be executed
                    if e_cnt + n_cnt > 4 || (e_cnt + n_cnt == 4 && !matches!((e_cnt, n_cnt), (4, 0) | (2, 2) | (0, 4))) {
                        return "bad-op".into();
                    }
                    // value arities are const generics
                    let res: Option<(Vec<usize>, Vec<u32>)> = mref.with_manager_shared(|m| {
                        let eo: Vec<_> = p.es.iter().map(|&i| pool[i].as_edge(m).borrowed()).collect();
                        let c = m.apply_cache();
                        macro_rules! q {
                            ($e:literal, $n:literal) => {
                                c.get_extended::<$e, $n>(m, opv, (&eo, &p.ns)).map(|(ev, nvv)| {
                                    let mut idx: Vec<usize> = Vec::new();
                                    for e in ev {
                                        idx.push(pool.iter().position(|f| f.as_edge(m) == &e).unwrap_or(usize::MAX));
                                        m.drop_edge(e);
                                    }
                                    (idx, nvv.to_vec())
                                })
                            };
                        }
                        match (e_cnt, n_cnt) {
                            (0, 0) => q!(0, 0),
                            (1, 0) => q!(1, 0),
                            (0, 1) => q!(0, 1),
                            (2, 0) => q!(2, 0),
                            (1, 1) => q!(1, 1),
                            (0, 2) => q!(0, 2),
                            (3, 0) => q!(3, 0),
                            (2, 1) => q!(2, 1),
                            (1, 2) => q!(1, 2),
                            (0, 3) => q!(0, 3),
                            (4, 0) => q!(4, 0),
                            (2, 2) => q!(2, 2),
                            (0, 4) => q!(0, 4),
                            _ => None,
                        }
                    });
                    match res {
                        None => {
                            ctx.count("misses");
                            let eids = mref.with_manager_shared(|m| ids(&p.es, m));
                            if self.last.contains_key(&(opv as u8, eids, p.ns.clone(), e_cnt, n_cnt)) && !self.in_gc {
                                // added since the last clear, but evicted by a colliding key or rejected by the gate
                                ctx.count("misses-of-added-key");
                            }
                            "miss".into()
                        }
                        Some((vi, vx)) => {
                            ctx.count("hits");
                            let eids = mref.with_manager_shared(|m| ids(&p.es, m));
                            let key = (opv as u8, eids.clone(), p.ns.clone(), e_cnt, n_cnt);
                            if self.in_gc {
                                ctx.fail("cache-hit-during-gc", &format!("get({:?}, edges {:?}, numeric {:?}) hit between pre_gc and post_gc", opv, eids, p.ns));
                            }
                            let got = (vi.clone(), vx.clone());
                            match self.last.get(&key) {
                                Some(v) if *v.last().unwrap() == got => {}
                                // C06 itself: the value was never added under exactly this key
                                Some(v) if !v.contains(&got) => ctx.fail(
                                    "cache-hit-not-added",
                                    &format!("get({:?}, edges {:?}, numeric {:?}, shape ({},{})) returned {:?}; the values added under exactly this key since the last clear/gc are {:?}", opv, eids, p.ns, e_cnt, n_cnt, got, v),
                                ),
                                // implementation level (`dm_hit_latest`): `add_extended` always overwrites, so without lock
                                // failures a hit returns the latest value (the `ApplyCache` contract alone would allow an older one)
                                Some(v) => ctx.fail(
                                    "cache-hit-not-latest",
                                    &format!("get({:?}, edges {:?}, numeric {:?}, shape ({},{})) returned {:?}, an older value of this key; the latest is {:?}", opv, eids, p.ns, e_cnt, n_cnt, got, v.last().unwrap()),
                                ),
                                None => ctx.fail(
                                    "cache-hit-not-added",
                                    &format!("get({:?}, edges {:?}, numeric {:?}, shape ({},{})) returned {:?}, nothing was added under exactly this key since the last clear/gc", opv, eids, p.ns, e_cnt, n_cnt, got),
                                ),
                            }
                            let j = |v: &[String]| v.join(",");
                            format!("hit e={} n={}", j(&vi.iter().map(|x| x.to_string()).collect::<Vec<_>>()), j(&vx.iter().map(|x| x.to_string()).collect::<Vec<_>>()))
                        }
                    }
                }
            }
            "clear" => {
                if w.len() != 1 {
                    return "bad-op".into();
                }
                if self.in_gc {
                    // the real call would never return (blocking lock on a bucket held by pre_gc)
                    return "blocked".into();
                }
                let mref = self.mref.as_ref().unwrap();
                mref.with_manager_shared(|m| m.apply_cache().clear(m));
                self.last.clear();
                "ok".into()
            }
            "pregc" => {
                if w.len() != 1 {
                    return "bad-op".into();
                }
                if self.in_gc {
                    return "blocked".into();
                }
                let mref = self.mref.as_ref().unwrap();
                mref.with_manager_shared(|m| m.apply_cache().pre_gc(m));
                self.in_gc = true;
                self.last.clear();
                ctx.count("pregc");
                "ok".into()
            }
            "postgc" => {
                if w.len() != 1 {
                    return "bad-op".into();
                }
                if !self.in_gc {
                    // undefined behaviour in the real code (unlock of an unlocked mutex): never generated
                    return "ok".into();
                }
                let mref = self.mref.as_ref().unwrap();
                // SAFETY: paired with the `pre_gc` above, no node was removed in between
                mref.with_manager_shared(|m| unsafe { m.apply_cache().post_gc(m) });
                self.in_gc = false;
                // adds between pre_gc and post_gc must have been dropped
                self.last.clear();
                "ok".into()
            }
            "gc" | "reorder" => {
                if w.len() != 1 {
                    return "bad-op".into();
                }
                if self.in_gc {
                    return "blocked".into();
                }
                let mref = self.mref.as_ref().unwrap();
                if w[0] == "gc" {
                    mref.with_manager_shared(|m| {
                        m.gc();
                    });
                } else {
                    mref.with_manager_exclusive(|m| m.reorder(|_| ()));
                }
                self.last.clear();
                ctx.count(w[0]);
                "ok".into()
            }
            "addvars" => {
                if w.len() != 2 || self.in_gc {
                    return "bad-op".into();
                }
                let Ok(k) = w[1].parse::<u32>() else { return "bad-op".into() };
                let mref = self.mref.as_ref().unwrap();
                mref.with_manager_exclusive(|m| {
                    m.add_vars(k);
                });
                // BDD: entries stay valid (`cacheok_addvars`), the manager data leaves the cache alone
                "ok".into()
            }
            _ => "bad-op".into(),
        }
    }
}

#[derive(Clone)]
struct GKey {
    op: u64,
    es: Vec<usize>,
    ns: Vec<u32>,
    shape: (usize, usize),
}

fn generate(cfg: &GenCfg, rng: &mut Rng, w: &mut dyn Write) {
    let cases = if cfg.thorough { 400 } else { 60 } * cfg.scale;
    for c in 0..cases {
        let cache = *rng.pick(&[1usize, 1, 2, 2, 3, 4, 4, 5, 16, 16, 64]);
        let nvars = rng.range(3, 5) as u32;
        writeln!(w, "case dm-{}-cap{}", c, cache).unwrap();
        writeln!(w, "mgr {} {}", cache, nvars).unwrap();
        let (mref, pool) = build(cache, nvars);
        let buckets = cache.next_power_of_two();
        // key universe: a few base keys and single-component variations of them
        let shapes: [(usize, usize); 8] = [(1, 0), (1, 0), (1, 0), (0, 1), (1, 1), (2, 0), (0, 0), (0, 2)];
        let mut keys: Vec<GKey> = Vec::new();
        for _ in 0..rng.range(2, 6) {
            let ne = rng.range(0, 3) as usize;
            let nn = if ne == 0 { rng.range(1, 2) as usize } else { rng.below(3) as usize };
            let k = GKey {
                op: rng.below(OPS.len() as u64),
                es: (0..ne).map(|_| rng.below(6) as usize).collect(),
                ns: (0..nn).map(|_| rng.below(3) as u32).collect(),
                shape: *rng.pick(&shapes),
            };
            keys.push(k.clone());
            for _ in 0..rng.range(1, 5) {
                let mut v = k.clone();
                match rng.below(7) {
                    0 => v.op = (v.op + 1 + rng.below(3)) % OPS.len() as u64,
                    1 if !v.es.is_empty() => {
                        let i = rng.below(v.es.len() as u64) as usize;
                        v.es[i] = (v.es[i] + 1 + rng.below(4) as usize) % 6;
                    }
                    2 if !v.ns.is_empty() => {
                        let i = rng.below(v.ns.len() as u64) as usize;
                        v.ns[i] = (v.ns[i] + 1) % 3;
                    }
                    3 if !v.ns.is_empty() => {
                        // arity: move a numeric operand to the edge operands
                        let x = v.ns.pop().unwrap();
                        v.es.push(x as usize);
                    }
                    4 => v.shape = *rng.pick(&shapes),
                    5 if v.es.len() >= 2 => v.es.swap(0, 1),
                    _ => v.ns.push(rng.below(3) as u32),
                }
                keys.push(v);
            }
        }
        // keys the argument-count gate must reject: no operand; too many words for ENTRY_CAP = 4
        keys.push(GKey { op: rng.below(10), es: vec![], ns: vec![], shape: (1, 0) });
        keys.push(GKey { op: rng.below(10), es: vec![0, 1, 2, 3], ns: vec![], shape: (1, 0) });
        keys.push(GKey { op: rng.below(10), es: vec![0, 1], ns: vec![1], shape: (2, 0) });
        let line_of = |k: &GKey, mref: &oxidd::bdd::BDDManagerRef| -> String {
            let b = bucket_of(mref, &pool, buckets, op_of(k.op), &k.es, &k.ns);
            let mut s = format!("b={} {} {}", b, k.op, k.es.len());
            for e in &k.es {
                s += &format!(" {}", e);
            }
            s += &format!(" {}", k.ns.len());
            for n in &k.ns {
                s += &format!(" {}", n);
            }
            s
        };
        // half of the accesses go to one of the four most recently added keys (so that hits,
        // overwrites of the same key and evictions by colliding keys are all frequent)
        let mut recent: Vec<(usize, (usize, usize))> = Vec::new();
        let mut access = |rng: &mut Rng, w: &mut dyn Write, keys: &Vec<GKey>, p_add: u64| {
            let (ki, home) = if !recent.is_empty() && rng.chance(1, 2) {
                recent[recent.len() - 1 - rng.below(recent.len().min(4) as u64) as usize]
            } else {
                let ki = rng.below(keys.len() as u64) as usize;
                (ki, keys[ki].shape)
            };
            let k = &keys[ki];
            let shape = if rng.chance(1, 8) { *rng.pick(&shapes) } else { home };
            // occasionally a shape the gate rejects (operands + values > ENTRY_CAP)
            let shape = if rng.chance(1, 40) { *rng.pick(&[(4usize, 0usize), (2, 2), (0, 4), (3, 0), (1, 2)]) } else { shape };
            if rng.below(100) < p_add {
                let mut s = format!("add {} {}", line_of(k, &mref), shape.0);
                for _ in 0..shape.0 {
                    s += &format!(" {}", rng.below(pool.len() as u64));
                }
                s += &format!(" {}", shape.1);
                for _ in 0..shape.1 {
                    s += &format!(" {}", rng.below(5));
                }
                writeln!(w, "{}", s).unwrap();
                recent.push((ki, shape));
            } else {
                writeln!(w, "get {} {} {}", line_of(k, &mref), shape.0, shape.1).unwrap();
            }
        };
        let _ = ENTRY_CAP;
        for _ in 0..(if cfg.thorough { 400 } else { 250 }) {
            match rng.below(100) {
                0 => writeln!(w, "clear").unwrap(),
                1 => writeln!(w, "gc").unwrap(),
                2 if rng.chance(1, 2) => writeln!(w, "reorder").unwrap(),
                2 => writeln!(w, "addvars 1").unwrap(),
                3 => {
                    writeln!(w, "pregc").unwrap();
                    for _ in 0..rng.range(1, 6) {
                        access(rng, w, &keys, 50);
                    }
                    if rng.chance(1, 10) {
                        // would block for ever in the real code; both sides answer `blocked`
                        writeln!(w, "clear").unwrap();
                    }
                    writeln!(w, "postgc").unwrap();
                }
                _ => access(rng, w, &keys, 40),
            }
        }
    }
}

fn make(_f: &BTreeMap<String, String>) -> Box<dyn Scenario> {
    Box::new(Sc { mref: None, pool: Vec::new(), buckets: 0, in_gc: false, last: HashMap::new() })
}

fn main() {
    harness_main(generate, make)
}
