//! C07 for MTBDDs and TDDs: operations called into ONE manager by several OS threads at the same
//! moment ≡ the single-threaded run, on the real code, against the store-level counter models.
//!
//! MTBDD and TDD have no `ParallelRecursor` (their `apply` never forks); concurrency there means
//! several OS threads calling operations into the same manager (shared lock held by each).
//!
//! `c07_kinds_conc gen --kind mtbdd|tdd --tier .. --seed ..` writes histories over 4–8 variables in
//! the line syntax of the existing protocols `mtbdd-rc` / `tdd-rc` (scripts of
//! `c05_rcstore_mtbdd` / `c05_rcstore_tdd`, whose generators `script()` are reused, with roomy
//! capacities `nodes=65536` — no OutOfMemory here — and a `dump` after every 6th line).
//!
//! `c07_kinds_conc run --kind mtbdd|tdd` keeps TWO real managers, each inside the scenario of the
//! `c05_rcstore_*` bin (module `mt` / `td` below is that bin's code, copied verbatim up to
//! `exec(&self)` and two `pub`; all of its oracles — reference counts = handles + stored parents, exact `gc`,
//! terminal table, value tables — run in both):
//! * manager A executes every line single-threaded; ITS line is printed (default; `--print conc`
//!   prints manager B's) and must be identical to the Lean protocol's;
//! * manager B: every operation line (`op`, `ite`, TDD also `not`) is FIRST computed by 3 OS threads
//!   at the same moment (spin barrier; cold cache for this operation, the three race on the unique
//!   table, the terminal table and the apply cache), the results dropped, then the line is executed
//!   through the scenario (recomputation), then computed by 3 OS threads again (warm; skipped when
//!   the line overwrote one of its own operands).
//!
//! Oracles (on the implementation, independent of the model):
//! * `conc-vs-seq-diagram`  every line's canonical output (result tree, full store dump with
//!   reference counts and terminals, `gc`/`ninner`/`nterms`/`rc`/`eq` answers) of B = of A; the tree
//!   of every concurrently computed result = A's output;
//! * `conc-vs-seq-store-size` `num_inner_nodes()` of B = of A after every operation line;
//! * `concurrent-recompute-differs` the three racing results are pairwise the identical edge (`==`);
//!   the three warm results are identical to the stored handle;
//! * `concurrent-changed-store` the recomputation after the race and the warm round store no
//!   further node (the race stored exactly the nodes of the operation, nothing twice);
//! * `concurrent-oom` a concurrent computation reports OutOfMemory (capacities are roomy).
#![allow(dead_code, unused_imports, unexpected_cfgs)]
use oxv::{Ctx, GenCfg, Rng, Scenario, harness_main, words};
use std::collections::BTreeMap;
use std::io::Write;
use std::sync::atomic::{AtomicUsize, Ordering};

/// what the wrapper needs from the scenario of a `c05_rcstore_*` bin
trait Inner: Scenario + Sync + Sized + 'static {
    type Fun: Send + Sync + PartialEq;
    const KIND: &'static str;
    fn fresh() -> Self;
    /// the operation of an operation line once more (None: not an operation line / missing handle)
    fn conc_exec(&self, w: &[&str]) -> Option<Result<Self::Fun, ()>>;
    fn handle(&self, name: &str) -> Option<&Self::Fun>;
    fn tree(&self, f: &Self::Fun) -> String;
    fn ninner(&self) -> usize;
}

struct Conc<S: Inner> {
    a: S,
    b: S,
    print_conc: bool,
}

const T: usize = 3;

fn race<S: Inner>(b: &S, w: &[&str]) -> Vec<Option<Result<S::Fun, ()>>> {
    let gate = AtomicUsize::new(0);
    std::thread::scope(|s| {
        let hs: Vec<_> = (0..T)
            .map(|_| {
                let gate = &gate;
                s.spawn(move || {
                    gate.fetch_add(1, Ordering::SeqCst);
                    while gate.load(Ordering::SeqCst) < T {
                        std::hint::spin_loop();
                    }
                    b.conc_exec(w)
                })
            })
            .collect();
        hs.into_iter().map(|h| h.join().expect("thread")).collect()
    })
}

fn clip(s: &str) -> String {
    if s.len() > 400 { format!("{}… ({} bytes)", &s[..s.char_indices().map(|x| x.0).take_while(|i| *i <= 400).last().unwrap_or(0)], s.len()) } else { s.to_string() }
}

impl<S: Inner> Scenario for Conc<S> {
    fn reset(&mut self) {
        self.a.reset();
        self.b.reset();
    }

    fn step(&mut self, line: &str, ctx: &mut Ctx) -> String {
        let w = words(line);
        let out_a = self.a.step(line, ctx);
        let is_op = matches!(w[0], "op" | "ite" | "not") && !(out_a.starts_with("err") || out_a == "bad-op" || out_a == "OOM" || out_a == "abort");
        if !is_op {
            let out_b = self.b.step(line, ctx);
            if out_b != out_a {
                ctx.fail("conc-vs-seq-diagram", &format!("`{}`: the manager used concurrently prints {} but the single-threaded one {}", line, clip(&out_b), clip(&out_a)));
            }
            ctx.count("outputs_compared");
            if w[0] == "dump" {
                ctx.count("dumps_compared");
            }
            return if self.print_conc { out_b } else { out_a };
        }
        // round 1: three OS threads, cold
        let before = self.b.ninner();
        {
            let rs = race(&self.b, &w);
            let mut oks: Vec<&S::Fun> = Vec::new();
            for r in &rs {
                match r {
                    Some(Ok(f)) => {
                        ctx.count("concurrent_first_computations");
                        let t = self.b.tree(f);
                        if t != out_a {
                            ctx.fail("conc-vs-seq-diagram", &format!("`{}`: one of {} OS threads computing it at the same moment got {} but the single-threaded manager {}", line, T, clip(&t), clip(&out_a)));
                        }
                        oks.push(f);
                    }
                    Some(Err(())) => ctx.fail("concurrent-oom", &format!("`{}`: a concurrent computation reports OutOfMemory", line)),
                    None => {}
                }
            }
            for i in 1..oks.len() {
                if oks[i] != oks[0] {
                    ctx.fail("concurrent-recompute-differs", &format!("`{}`: two of {} OS threads computing it at the same moment got different edges ({} / {})", line, T, clip(&self.b.tree(oks[i])), clip(&self.b.tree(oks[0]))));
                }
            }
        } // results dropped: the nodes stay stored (garbage until the line is executed)
        let mid = self.b.ninner();
        if mid > before {
            ctx.count("ops_whose_race_created_nodes");
            ctx.add("nodes_created_in_races", (mid - before) as u64);
        }
        // the line itself (recomputation, with all oracles of the scenario)
        let out_b = self.b.step(line, ctx);
        ctx.count("outputs_compared");
        if out_b != out_a {
            ctx.fail("conc-vs-seq-diagram", &format!("`{}`: the manager used concurrently prints {} but the single-threaded one {}", line, clip(&out_b), clip(&out_a)));
        }
        let after = self.b.ninner();
        if after != mid {
            ctx.fail("concurrent-changed-store", &format!("`{}`: after {} OS threads computed it ({} -> {} stored nodes) the recomputation changed the number of stored nodes to {}", line, T, before, mid, after));
        }
        if after != self.a.ninner() {
            ctx.fail("conc-vs-seq-store-size", &format!("`{}`: the manager used concurrently stores {} inner nodes afterwards, the single-threaded one {}", line, after, self.a.ninner()));
        }
        let e = ctx.stats.entry("max_stored_nodes".into()).or_insert(0);
        *e = (*e).max(after as u64);
        // round 2: three OS threads, warm; identical to the stored handle (not when the line
        // overwrote one of its own operands: the operation is a different one now)
        if w[2..].contains(&w[1]) {
            ctx.count("ops_overwriting_an_operand_no_warm_round");
        } else {
            let rs = race(&self.b, &w);
            let res = self.b.handle(w[1]);
            for r in &rs {
                match (r, res) {
                    (Some(Ok(f)), Some(res)) => {
                        ctx.count("concurrent_recomputations");
                        if f != res {
                            ctx.fail("concurrent-recompute-differs", &format!("`{}`: one of {} OS threads recomputing it got a different edge: {} instead of {}", line, T, clip(&self.b.tree(f)), clip(&out_b)));
                        }
                    }
                    (Some(Err(())), _) => ctx.fail("concurrent-oom", &format!("`{}`: a concurrent recomputation reports OutOfMemory", line)),
                    _ => {}
                }
            }
        }
        if self.b.ninner() != after {
            ctx.fail("concurrent-changed-store", &format!("`{}`: recomputing it from {} OS threads changed the number of stored nodes from {} to {}", line, T, after, self.b.ninner()));
        }
        if self.print_conc { out_b } else { out_a }
    }
}

fn emit(w: &mut dyn Write, kind: &str, idx: u64, n: u32, lines: &[String]) {
    let cache = [1usize, 2, 16, 1024, 4096][(idx % 5) as usize];
    writeln!(w, "case c07kc-{}-{}-n{}-c{}", kind, idx, n, cache).unwrap();
    if kind == "mtbdd" {
        writeln!(w, "mgr vars={} nodes=65536 terms=65536 cache={}", n, cache).unwrap();
    } else {
        writeln!(w, "mgr vars={} nodes=65536 cache={}", n, cache).unwrap();
    }
    for (i, l) in lines.iter().enumerate() {
        writeln!(w, "{}", l).unwrap();
        if i % 6 == 5 {
            writeln!(w, "dump").unwrap();
        }
    }
    writeln!(w, "dump").unwrap();
}

fn generate(cfg: &GenCfg, rng: &mut Rng, w: &mut dyn Write) {
    let kind = cfg.extra.get("kind").cloned().unwrap_or_else(|| "mtbdd".into());
    let cases = if cfg.thorough { 250 } else { 60 } * cfg.scale;
    for c in 0..cases {
        let n = 4 + (c % 5) as u32; // 4..8 variables
        let steps = if cfg.thorough { 160 } else { 120 };
        let lines = if kind == "tdd" { td::script(rng, n, steps) } else { mt::script(rng, n, steps) };
        emit(w, &kind, c, n, &lines);
    }
}

fn make(f: &BTreeMap<String, String>) -> Box<dyn Scenario> {
    let print_conc = f.get("print").map(|p| p == "conc").unwrap_or(false);
    match f.get("kind").map(|s| s.as_str()) {
        Some("tdd") => Box::new(Conc { a: td::Sc::fresh(), b: td::Sc::fresh(), print_conc }),
        _ => Box::new(Conc { a: mt::Sc::fresh(), b: mt::Sc::fresh(), print_conc }),
    }
}

fn main() {
    harness_main(generate, make)
}

// ------------------------------------------------------------------------------------------------
// the scenario of c05_rcstore_mtbdd.rs (verbatim; `exec` takes `&self`, `script` and `Sc` are `pub`)
#[allow(clippy::all)]
pub(crate) mod mt {
    // C05/C14/C10: the complete MTBDD store — inner nodes with reference counts *and* the terminal
    // table — at *every* step, against the counter model `OxiddModel/Mtbdd/RcS.lean`.
    //
    // `c05_rcstore_mtbdd gen --tier .. --seed ..` writes histories over 2–4 variables with `I64`
    // terminals (`const` from a small pool plus fresh values, `var`, `op … add|sub|mul|div|min|max`,
    // `ite`, `clone`, `drop`, `dropall`, `gc`, `rc`, `ninner`, `nterms`, `eq`) for managers with small
    // capacities (`mgr vars=<n> nodes=<k> terms=<k> cache=<k>`): the same script is replayed for
    // every node capacity `0..=cmax` (terminal store roomy), for every terminal capacity `2..=12`
    // (node store roomy) and for pairs where both are tight (thorough: the full cross product for a
    // part of the scripts), so that the first OutOfMemory moves through the allocation points of
    // both kinds one by one; a `dump` follows every line.  `run` executes the lines on a real MTBDD
    // index manager (single worker thread, background collection disabled by the small capacity) and
    // prints after `dump` every stored inner node — garbage included — as canonical tree with
    // `ref_count()`, sorted, the set of stored terminal values (through `terminals()`), sorted, and
    // `num_inner_nodes()` / `num_terminals()`.  The Lean protocol `mtbdd-rc` must print the
    // identical stream.
    //
    // Oracles evaluated on the implementation, independent of the model:
    // * after every line: `ref_count(n)` = live handles on `n` + stored parent edges of `n` (parents
    //   that are garbage included); every terminal referenced by a stored node or a handle is stored;
    //   `num_inner_nodes()` / `num_terminals()` agree with the iterators and respect the capacities;
    // * a failed operation (`OOM`) removes no node and no terminal, leaves the *external* part
    //   `ref_count − parents` of every node unchanged, creates only nodes without external reference,
    //   changes no handle, and one of the two stores is really full;
    // * a successful operation changes the external part only at the result's root (+1) and at the
    //   root of the overwritten handle (−1);
    // * after `gc`: stored inner nodes = nodes reachable from the handles, stored terminals =
    //   terminals reachable from the handles (a leaked terminal reference survives the sweep, a lost
    //   one makes a referenced terminal disappear), `gc()` returns the difference, every handle's tree
    //   is unchanged.
    use oxidd::mtbdd::terminal::I64;
    use oxidd::mtbdd::{MTBDDFunction, MTBDDManagerRef};
    use oxidd::{Function, HasLevel, InnerNode, Manager, ManagerRef, Node, PseudoBooleanFunction};
    use oxidd_core::LevelView;
    use oxv::*;
    use std::borrow::Borrow;
    use std::collections::{BTreeMap, BTreeSet, HashMap};
    use std::io::Write;

    // ------------------------------------------------------------------------------------------------
    // generator

    const POOL: [&str; 10] = ["0", "1", "2", "3", "-1", "5", "nan", "+inf", "-inf", "7"];
    const OPS: [&str; 6] = ["add", "sub", "mul", "div", "min", "max"];

    pub fn script(rng: &mut Rng, n: u32, steps: usize) -> Vec<String> {
        let mut out: Vec<String> = Vec::new();
        let mut pool: Vec<String> = Vec::new();
        let mut vars: Vec<String> = Vec::new();
        let mut vs: Vec<u32> = (0..n).collect();
        rng.shuffle(&mut vs);
        for &v in &vs {
            if rng.chance(5, 6) || vars.is_empty() {
                out.push(format!("var x{} {}", v, v));
                pool.push(format!("x{v}"));
                vars.push(format!("x{v}"));
            }
        }
        let mut fresh = 10u64 + rng.below(5);
        let nconst = 1 + rng.below(3);
        for k in 0..nconst {
            out.push(format!("const c{} {}", k, rng.pick(&POOL)));
            pool.push(format!("c{k}"));
        }
        let nreg = 8u64;
        let mut regs: Vec<String> = Vec::new();
        for _ in 0..steps {
            let k = rng.below(100);
            let reg = format!("r{}", rng.below(nreg));
            let pick = |rng: &mut Rng, regs: &Vec<String>| -> String {
                if !regs.is_empty() && rng.chance(3, 5) { rng.pick(regs).clone() } else { rng.pick(&pool).clone() }
            };
            let bind = |regs: &mut Vec<String>, reg: &String| {
                if !regs.contains(reg) {
                    regs.push(reg.clone());
                }
            };
            if k < 44 {
                let (a, b) = (pick(rng, &regs), pick(rng, &regs));
                out.push(format!("op {} {} {} {}", reg, rng.pick(&OPS), a, b));
                bind(&mut regs, &reg);
            } else if k < 56 {
                let c = if rng.chance(3, 4) { rng.pick(&vars).clone() } else { pick(rng, &regs) };
                let (a, b) = (pick(rng, &regs), pick(rng, &regs));
                out.push(format!("ite {} {} {} {}", reg, c, a, b));
                bind(&mut regs, &reg);
            } else if k < 66 {
                let v = if rng.chance(1, 2) {
                    fresh += 1 + rng.below(3);
                    fresh.to_string()
                } else {
                    rng.pick(&POOL).to_string()
                };
                out.push(format!("const {} {}", reg, v));
                bind(&mut regs, &reg);
            } else if k < 71 {
                let a = pick(rng, &regs);
                out.push(format!("clone {} {}", reg, a));
                bind(&mut regs, &reg);
            } else if k < 83 {
                if !regs.is_empty() {
                    let i = rng.below(regs.len() as u64) as usize;
                    let d = regs.swap_remove(i);
                    out.push(format!("drop {}", d));
                }
            } else if k < 91 {
                out.push("gc".into());
            } else if k < 94 {
                out.push(format!("rc {}", pick(rng, &regs)));
            } else if k < 96 {
                out.push("ninner".into());
            } else if k < 98 {
                out.push("nterms".into());
            } else {
                out.push(format!("eq {} {}", pick(rng, &regs), pick(rng, &regs)));
            }
        }
        out.push("dropall".into());
        out.push("gc".into());
        out
    }

    fn emit(w: &mut dyn Write, sc: u64, n: u32, ncap: u32, tcap: u32, lines: &[String]) {
        let cache = [1usize, 2, 16, 1024][((sc + ncap as u64 + tcap as u64) % 4) as usize];
        writeln!(w, "case mrc-s{}-n{}-N{}-T{}-c{}", sc, n, ncap, tcap, cache).unwrap();
        writeln!(w, "mgr vars={} nodes={} terms={} cache={}", n, ncap, tcap, cache).unwrap();
        for l in lines {
            writeln!(w, "{}", l).unwrap();
            writeln!(w, "dump").unwrap();
        }
    }

    fn generate(cfg: &GenCfg, rng: &mut Rng, w: &mut dyn Write) {
        let scripts = if cfg.thorough { 150 } else { 60 } * cfg.scale;
        for sc in 0..scripts {
            let n = 2 + (sc % 3) as u32; // 2..4 variables
            let steps = if cfg.thorough { 60 } else { 40 };
            let lines = script(rng, n, steps);
            let cmax = 5 * n + 8;
            // every node capacity, roomy terminal store
            for ncap in 0..=cmax {
                emit(w, sc, n, ncap, 12, &lines);
            }
            // every terminal capacity, roomy node store
            for tcap in 2..=11 {
                emit(w, sc, n, cmax + 8, tcap, &lines);
            }
            // both tight
            if cfg.thorough && sc % 5 == 0 {
                for ncap in 1..=cmax {
                    for tcap in 2..=11 {
                        emit(w, sc, n, ncap, tcap, &lines);
                    }
                }
            } else {
                for _ in 0..8 {
                    let ncap = rng.range(1, cmax as u64) as u32;
                    let tcap = rng.range(2, 8) as u32;
                    emit(w, sc, n, ncap, tcap, &lines);
                }
            }
        }
    }

    // ------------------------------------------------------------------------------------------------
    // scenario

    fn tok(t: &I64) -> String {
        match t {
            I64::NaN => "nan".into(),
            I64::MinusInf => "-inf".into(),
            I64::PlusInf => "+inf".into(),
            I64::Num(n) => n.to_string(),
        }
    }

    fn parse_tok(s: &str) -> Option<I64> {
        match s {
            "nan" => Some(I64::NaN),
            "-inf" => Some(I64::MinusInf),
            "+inf" => Some(I64::PlusInf),
            _ if s.starts_with('+') => None,
            _ => s.parse::<i64>().ok().map(I64::Num),
        }
    }

    fn tree_rec<M>(m: &M, e: &M::Edge, out: &mut String)
    where
        M: Manager<Terminal = I64>,
        M::InnerNode: HasLevel,
    {
        match m.get_node(e) {
            Node::Inner(n) => {
                out.push_str(&format!("(v{} ", m.level_to_var(n.level())));
                tree_rec(m, &n.child(0), out);
                out.push(' ');
                tree_rec(m, &n.child(1), out);
                out.push(')');
            }
            Node::Terminal(t) => {
                out.push('#');
                out.push_str(&tok(t.borrow()));
            }
        }
    }

    fn tree_of<M>(m: &M, e: &M::Edge) -> String
    where
        M: Manager<Terminal = I64>,
        M::InnerNode: HasLevel,
    {
        let mut s = String::new();
        tree_rec(m, e, &mut s);
        s
    }

    fn zero_one<M>(m: &M, e: &M::Edge) -> bool
    where
        M: Manager<Terminal = I64>,
        M::InnerNode: HasLevel,
    {
        match m.get_node(e) {
            Node::Inner(n) => zero_one(m, &n.child(0)) && zero_one(m, &n.child(1)),
            Node::Terminal(t) => matches!(t.borrow(), I64::Num(0) | I64::Num(1)),
        }
    }

    /// the complete store as seen through the public API
    #[derive(Clone, PartialEq, Default)]
    struct Snap {
        /// tree -> (ref_count, child trees)
        nodes: BTreeMap<String, (usize, [String; 2])>,
        terms: BTreeSet<String>,
        ninner: usize,
        nterms: usize,
        err: Option<String>,
    }

    fn snap_rec<M>(m: &M) -> Snap
    where
        M: Manager<Terminal = I64>,
        M::InnerNode: HasLevel,
    {
        let mut s = Snap::default();
        let mut listed = 0usize;
        for view in m.levels() {
            for e in view.iter() {
                listed += 1;
                let node = match m.get_node(e) {
                    Node::Inner(n) => n,
                    Node::Terminal(_) => {
                        s.err = Some("a level lists a terminal".into());
                        continue;
                    }
                };
                let t = tree_of(m, e);
                let c = [tree_of(m, &node.child(0)), tree_of(m, &node.child(1))];
                if s.nodes.insert(t.clone(), (node.ref_count(), c)).is_some() {
                    s.err = Some(format!("node {} is stored twice", t));
                }
            }
        }
        s.ninner = m.num_inner_nodes();
        if listed != s.ninner {
            s.err = Some(format!("num_inner_nodes() = {} but the levels list {} nodes", s.ninner, listed));
        }
        // terminals: the iterator hands out owned edges which have to be given back
        let edges: Vec<M::Edge> = m.terminals().collect();
        let mut count = 0usize;
        for e in edges {
            count += 1;
            match m.get_node(&e) {
                Node::Terminal(t) => {
                    let tk = format!("#{}", tok(t.borrow()));
                    if !s.terms.insert(tk.clone()) {
                        s.err = Some(format!("terminals() lists {} twice", tk));
                    }
                }
                Node::Inner(_) => s.err = Some("terminals() lists an inner node".into()),
            }
            m.drop_edge(e);
        }
        s.nterms = m.num_terminals();
        if count != s.nterms {
            s.err = Some(format!("num_terminals() = {} but the iterator yields {}", s.nterms, count));
        }
        s
    }

    impl Snap {
        fn parents(&self) -> HashMap<&str, usize> {
            let mut p: HashMap<&str, usize> = HashMap::new();
            for (_, (_, c)) in &self.nodes {
                for x in c {
                    if x.starts_with('(') {
                        *p.entry(x.as_str()).or_insert(0) += 1;
                    }
                }
            }
            p
        }
        /// external part of every counter: ref_count − stored parent edges
        fn external(&self, ctx: &mut Ctx) -> HashMap<String, i64> {
            let p = self.parents();
            let mut e = HashMap::new();
            for (t, (rc, _)) in &self.nodes {
                let par = *p.get(t.as_str()).unwrap_or(&0);
                let x = *rc as i64 - par as i64;
                if x < 0 {
                    ctx.fail("ref-count", &format!("node {} has ref_count {} but {} stored parent edges", t, rc, par));
                }
                e.insert(t.clone(), x);
            }
            e
        }
        fn show(&self) -> String {
            let items: Vec<String> = self.nodes.iter().map(|(t, (rc, _))| format!("{}:{}", t, rc)).collect();
            let terms: Vec<String> = self.terms.iter().cloned().collect();
            let a = if items.is_empty() { "-".to_string() } else { items.join(" | ") };
            let b = if terms.is_empty() { "-".to_string() } else { terms.join(" ") };
            format!("I={} T={} ; {} ; {}", self.nodes.len(), self.terms.len(), a, b)
        }
    }

    /// inner sub-diagrams and terminals reachable from a printed tree (trees are canonical names)
    fn collect(snap: &Snap, t: &str, inner: &mut BTreeSet<String>, terms: &mut BTreeSet<String>) {
        if t.starts_with('#') {
            terms.insert(t.to_string());
            return;
        }
        if !inner.insert(t.to_string()) {
            return;
        }
        if let Some((_, c)) = snap.nodes.get(t) {
            let c = c.clone();
            collect(snap, &c[0], inner, terms);
            collect(snap, &c[1], inner, terms);
        }
    }

    pub struct Sc {
        // field order: handles are dropped before the manager
        hs: HashMap<String, MTBDDFunction<I64>>,
        mref: Option<MTBDDManagerRef<I64>>,
        n: u32,
        ncap: usize,
        tcap: usize,
    }

    impl Sc {
        fn snap(&self) -> Snap {
            self.mref.as_ref().unwrap().with_manager_shared(|m| snap_rec(m))
        }
        fn root_tree(&self, name: &str) -> Option<String> {
            let f = self.hs.get(name)?;
            Some(f.with_manager_shared(|m, e| tree_of(m, e)))
        }
        fn handle_trees(&self) -> BTreeMap<String, String> {
            self.hs.iter().map(|(k, f)| (k.clone(), f.with_manager_shared(|m, e| tree_of(m, e)))).collect()
        }

        /// the oracles that hold after every line
        fn check_always(&self, s: &Snap, ctx: &mut Ctx, when: &str) {
            if let Some(e) = &s.err {
                ctx.fail("audit", &format!("{}: {}", when, e));
            }
            if s.ninner > self.ncap {
                ctx.fail("capacity-exceeded", &format!("{}: {} inner nodes stored in a manager with node capacity {}", when, s.ninner, self.ncap));
            }
            if s.nterms > self.tcap {
                ctx.fail("capacity-exceeded", &format!("{}: {} terminals stored in a manager with terminal capacity {}", when, s.nterms, self.tcap));
            }
            // counter = handles + stored parent edges
            let mut expected: HashMap<String, usize> = HashMap::new();
            let mut need: BTreeSet<String> = BTreeSet::new();
            for t in self.handle_trees().values() {
                if t.starts_with('(') {
                    *expected.entry(t.clone()).or_insert(0) += 1;
                } else {
                    need.insert(t.clone());
                }
            }
            for (_, (_, c)) in &s.nodes {
                for x in c {
                    if x.starts_with('(') {
                        *expected.entry(x.clone()).or_insert(0) += 1;
                    } else {
                        need.insert(x.clone());
                    }
                }
            }
            for (t, (rc, _)) in &s.nodes {
                let e = *expected.get(t).unwrap_or(&0);
                if e != *rc {
                    ctx.fail("ref-count", &format!("{}: node {} reports ref_count {} but {} references exist (live handles + stored parent edges)", when, t, rc, e));
                    break;
                }
            }
            for t in expected.keys() {
                if !s.nodes.contains_key(t) {
                    ctx.fail("dangling-edge", &format!("{}: node {} is referenced but not stored", when, t));
                    break;
                }
            }
            // every referenced terminal is stored
            for t in &need {
                if !s.terms.contains(t) {
                    ctx.fail("terminal-missing", &format!("{}: terminal {} is referenced by a handle or a stored node but terminals() does not list it", when, t));
                    break;
                }
            }
        }

        fn exec(&self, w: &[&str]) -> Option<Result<MTBDDFunction<I64>, ()>> {
            let mref = self.mref.as_ref()?;
            Some(match w {
                ["const", _, v] => {
                    let t = parse_tok(v)?;
                    mref.with_manager_shared(|m| MTBDDFunction::constant(m, t)).map_err(|_| ())
                }
                ["var", _, v] => {
                    let v: u32 = v.parse().ok()?;
                    mref.with_manager_shared(|m| MTBDDFunction::<I64>::var(m, v)).map_err(|_| ())
                }
                ["op", _, o, a, b] => {
                    let (f, g) = (self.hs.get(*a)?, self.hs.get(*b)?);
                    match *o {
                        "add" => f.add(g),
                        "sub" => f.sub(g),
                        "mul" => f.mul(g),
                        "div" => f.div(g),
                        "min" => PseudoBooleanFunction::min(f, g),
                        "max" => PseudoBooleanFunction::max(f, g),
                        _ => return None,
                    }
                    .map_err(|_| ())
                }
                ["ite", _, c, a, b] => {
                    let (fc, fa, fb) = (self.hs.get(*c)?, self.hs.get(*a)?, self.hs.get(*b)?);
                    fc.ite(fa, fb).map_err(|_| ())
                }
                _ => return None,
            })
        }
    }

    impl Scenario for Sc {
        fn reset(&mut self) {
            self.hs.clear();
            self.mref = None;
            self.n = 0;
        }

        fn step(&mut self, line: &str, ctx: &mut Ctx) -> String {
            let w = words(line);
            if w[0] == "mgr" {
                let get = |k: &str, d: usize| w.iter().find_map(|x| x.strip_prefix(k)).and_then(|s| s.parse().ok()).unwrap_or(d);
                self.hs.clear();
                self.mref = None;
                self.n = get("vars=", 0) as u32;
                self.ncap = get("nodes=", 1 << 16);
                self.tcap = get("terms=", 1 << 16);
                let cache = get("cache=", 1024);
                let mref = oxidd::mtbdd::new_manager::<I64>(self.ncap, self.tcap, cache, 1);
                let n = self.n;
                mref.with_manager_exclusive(|m| {
                    m.add_vars(n);
                });
                self.mref = Some(mref);
                return "ok".into();
            }
            if self.mref.is_none() {
                return "err nomgr".into();
            }
            match w.as_slice() {
                ["const", h, ..] | ["var", h, ..] | ["op", h, ..] | ["ite", h, ..] | ["clone", h, ..] => {
                    // static rejections (same answers as the model)
                    match w.as_slice() {
                        ["const", _, v] if parse_tok(v).is_none() => return "bad-op".into(),
                        ["const", _, _] => {}
                        ["var", _, v] => match v.parse::<u32>() {
                            Ok(v) if v < self.n => {}
                            Ok(_) => return "err range".into(),
                            Err(_) => return "bad-op".into(),
                        },
                        ["op", _, o, a, b] => {
                            if !OPS.contains(o) {
                                return "bad-op".into();
                            }
                            if !self.hs.contains_key(*a) || !self.hs.contains_key(*b) {
                                return "err handle".into();
                            }
                        }
                        ["ite", _, c, a, b] => {
                            if !self.hs.contains_key(*c) || !self.hs.contains_key(*a) || !self.hs.contains_key(*b) {
                                return "err handle".into();
                            }
                            if !self.hs[*c].with_manager_shared(|m, e| zero_one(m, e)) {
                                ctx.count("ite.precond-violated");
                                return "err precond".into();
                            }
                        }
                        ["clone", _, a] => {
                            if !self.hs.contains_key(*a) {
                                return "err handle".into();
                            }
                        }
                        _ => return "bad-op".into(),
                    }
                    let pre = self.snap();
                    let pre_ext = pre.external(ctx);
                    let pre_handles = self.handle_trees();
                    let old_root = self.root_tree(h);
                    let kind = if w[0] == "op" { "bin" } else { w[0] };
                    let res: Result<MTBDDFunction<I64>, ()> = if w[0] == "clone" {
                        Ok(self.hs[w[2]].clone())
                    } else {
                        match self.exec(&w) {
                            Some(r) => r,
                            None => return "bad-op".into(),
                        }
                    };
                    let out = match res {
                        Ok(f) => {
                            let t = f.with_manager_shared(|m, e| tree_of(m, e));
                            // `insert` drops the old handle of that name after the operation
                            self.hs.insert(h.to_string(), f);
                            if w[0] == "clone" { "ok".to_string() } else { t }
                        }
                        Err(()) => "OOM".to_string(),
                    };
                    let post = self.snap();
                    let post_ext = post.external(ctx);
                    // nothing disappears without a collection
                    for t in pre.nodes.keys() {
                        if !post.nodes.contains_key(t) {
                            ctx.fail("node-vanished", &format!("`{}`: node {} is no longer stored although no collection ran", line, t));
                        }
                    }
                    for t in &pre.terms {
                        if !post.terms.contains(t) {
                            ctx.fail("terminal-vanished", &format!("`{}`: terminal {} is no longer stored although no collection ran", line, t));
                        }
                    }
                    let created = post.nodes.len() - post.nodes.keys().filter(|t| pre.nodes.contains_key(*t)).count();
                    let tcreated = post.terms.len() - post.terms.iter().filter(|t| pre.terms.contains(*t)).count();
                    if out == "OOM" {
                        ctx.count(&format!("oom_{}_after_{}_nodes_{}_terms", kind, created.min(9), tcreated.min(5)));
                        let nfull = post.ninner == self.ncap;
                        let tfull = post.nterms == self.tcap;
                        ctx.count(match (nfull, tfull) {
                            (true, true) => "oom.both-full",
                            (true, false) => "oom.nodes-full",
                            (false, true) => "oom.terms-full",
                            (false, false) => "oom.spurious",
                        });
                        if !nfull && !tfull {
                            ctx.fail("spurious-oom", &format!("`{}` reports OutOfMemory but {} of {} node slots and {} of {} terminal slots are used", line, post.ninner, self.ncap, post.nterms, self.tcap));
                        }
                        // nothing acquired is still held, nothing released twice
                        for (t, x) in &post_ext {
                            let before = *pre_ext.get(t).unwrap_or(&0);
                            if *x != before {
                                ctx.fail("oom-changed-refcount", &format!("`{}` failed with OutOfMemory; node {} had {} external references (ref_count − stored parent edges) before and has {} after", line, t, before, x));
                            }
                        }
                        if self.handle_trees() != pre_handles {
                            ctx.fail("oom-changed-handle", &format!("`{}` failed but a handle changed", line));
                        }
                    } else {
                        ctx.count(&format!("ok_{}_with_{}_nodes_{}_terms", kind, created.min(6), tcreated.min(3)));
                        let mut delta: HashMap<String, i64> = HashMap::new();
                        if let Some(t) = self.root_tree(h) {
                            if t.starts_with('(') {
                                *delta.entry(t).or_insert(0) += 1;
                            }
                        }
                        if let Some(t) = old_root {
                            if t.starts_with('(') {
                                *delta.entry(t).or_insert(0) -= 1;
                            }
                        }
                        for (t, x) in &post_ext {
                            let want = *pre_ext.get(t).unwrap_or(&0) + *delta.get(t).unwrap_or(&0);
                            if *x != want {
                                ctx.fail("op-changed-refcount", &format!("`{}` succeeded; node {} should have {} external references afterwards but has {}", line, t, want, x));
                            }
                        }
                    }
                    self.check_always(&post, ctx, &format!("after `{}`", line));
                    out
                }
                ["drop", a] => {
                    if self.hs.remove(*a).is_none() {
                        return "err handle".into();
                    }
                    "ok".into()
                }
                ["dropall"] => {
                    self.hs.clear();
                    "ok".into()
                }
                ["gc"] => {
                    let pre = self.snap();
                    let pre_handles = self.handle_trees();
                    let c = self.mref.as_ref().unwrap().with_manager_shared(|m| m.gc());
                    let post = self.snap();
                    if pre.ninner < post.ninner || pre.nterms < post.nterms || c != (pre.ninner - post.ninner) + (pre.nterms - post.nterms) {
                        ctx.fail("gc-return", &format!("gc() returned {} but inner nodes went {} -> {} and terminals {} -> {}", c, pre.ninner, post.ninner, pre.nterms, post.nterms));
                    }
                    // exactly what the handles reach remains (computed on the store *before* the sweep)
                    let (mut inner, mut terms) = (BTreeSet::new(), BTreeSet::new());
                    for t in pre_handles.values() {
                        collect(&pre, t, &mut inner, &mut terms);
                    }
                    let stored: BTreeSet<String> = post.nodes.keys().cloned().collect();
                    if stored != inner {
                        let extra: Vec<&String> = stored.difference(&inner).collect();
                        let miss: Vec<&String> = inner.difference(&stored).collect();
                        ctx.fail("gc-not-exact", &format!("after gc the stored inner nodes differ from the nodes reachable from the {} live handles: stored but unreachable {:?}, reachable but not stored {:?}", self.hs.len(), extra, miss));
                    }
                    if post.terms != terms {
                        let extra: Vec<&String> = post.terms.difference(&terms).collect();
                        let miss: Vec<&String> = terms.difference(&post.terms).collect();
                        ctx.fail("gc-terminals-not-exact", &format!("after gc the stored terminals differ from the terminals reachable from the {} live handles: stored but unreachable {:?}, reachable but not stored {:?}", self.hs.len(), extra, miss));
                    }
                    if self.handle_trees() != pre_handles {
                        ctx.fail("gc-changed-function", "a handle denotes a different diagram after gc");
                    }
                    self.check_always(&post, ctx, "after gc");
                    ctx.count("gc");
                    if pre.ninner == post.ninner && pre.nterms > post.nterms {
                        ctx.count("gc.only-terminals-collected");
                    }
                    if self.hs.is_empty() {
                        ctx.count("gc.no-handles");
                    }
                    format!("{} {}", post.ninner, post.nterms)
                }
                ["dump"] => {
                    let s = self.snap();
                    self.check_always(&s, ctx, "dump");
                    s.show()
                }
                ["rc", a] => match self.hs.get(*a) {
                    None => "err handle".into(),
                    Some(f) => f.with_manager_shared(|m, e| match m.get_node(e) {
                        Node::Inner(n) => n.ref_count().to_string(),
                        Node::Terminal(_) => "-".into(),
                    }),
                },
                ["ninner"] => self.mref.as_ref().unwrap().with_manager_shared(|m| m.num_inner_nodes()).to_string(),
                ["nterms"] => self.mref.as_ref().unwrap().with_manager_shared(|m| m.num_terminals()).to_string(),
                ["show", a] => match self.root_tree(a) {
                    Some(t) => t,
                    None => "err handle".into(),
                },
                ["eq", a, b] => match (self.hs.get(*a), self.hs.get(*b)) {
                    (Some(f), Some(g)) => {
                        let same = f == g;
                        if same != (self.root_tree(a) == self.root_tree(b)) {
                            ctx.fail("canonicity", &format!("{} == {} is {} but the unfolded trees say otherwise", a, b, same));
                        }
                        (if same { "1" } else { "0" }).into()
                    }
                    _ => "err handle".into(),
                },
                _ => "bad-op".into(),
            }
        }
    }

    fn make(_f: &BTreeMap<String, String>) -> Box<dyn Scenario> {
        Box::new(Sc { hs: HashMap::new(), mref: None, n: 0, ncap: 0, tcap: 0 })
    }


    impl super::Inner for Sc {
        type Fun = MTBDDFunction<I64>;
        const KIND: &'static str = "mtbdd";
        fn fresh() -> Self {
            Sc { hs: HashMap::new(), mref: None, n: 0, ncap: 0, tcap: 0 }
        }
        fn conc_exec(&self, w: &[&str]) -> Option<Result<Self::Fun, ()>> {
            self.exec(w)
        }
        fn handle(&self, name: &str) -> Option<&Self::Fun> {
            self.hs.get(name)
        }
        fn tree(&self, f: &Self::Fun) -> String {
            f.with_manager_shared(|m, e| tree_of(m, e))
        }
        fn ninner(&self) -> usize {
            self.mref.as_ref().map(|r| r.with_manager_shared(|m| m.num_inner_nodes())).unwrap_or(0)
        }
    }
}

// ------------------------------------------------------------------------------------------------
// the scenario of c05_rcstore_tdd.rs (verbatim; `exec` takes `&self`, `script` and `Sc` are `pub`)
#[allow(clippy::all)]
pub(crate) mod td {
    // C05/C14/C11/C06: the complete TDD store — ternary inner nodes with reference counts — at
    // *every* step, against the counter model `OxiddModel/Tdd/RcS.lean`.
    //
    // `c05_rcstore_tdd gen --tier .. --seed ..` writes histories over 2–4 variables (`const t|u|f`,
    // `var`, `not`, `notowned`, `op … and|or|nand|nor|xor|equiv|imp|imp_strict`, `ite`, `clone`,
    // `drop`, `dropall`, `gc`, `rc`, `ninner`, `eq`) for managers with small node capacities
    // (`mgr vars=<n> nodes=<k> cache=<k>`): the same script is replayed for every capacity
    // `0..=cmax`, so that the first OutOfMemory moves through the allocation points one by one (in
    // particular through the first, second and third recursive call of a ternary expansion); a
    // `dump` follows every line.  `run` executes the lines on a real TDD index manager (single worker
    // thread, background collection disabled by the small capacity) and prints after `dump` every
    // stored inner node — garbage included — as canonical tree `(v<k> <t> <u> <e>)` with
    // `ref_count()`, sorted.  The Lean protocol `tdd-rc` must print the identical stream.
    //
    // Oracles evaluated on the implementation, independent of the model:
    // * after every line: `ref_count(n)` = live handles on `n` + stored parent edges of `n` (parents
    //   that are garbage included); every referenced node is stored; no stored node has three equal
    //   children, children lie on strictly lower levels, no node is stored twice;
    //   `num_inner_nodes()` agrees with the level iterators and respects the capacity;
    // * a failed operation (`OOM`) removes no node, leaves the *external* part
    //   `ref_count − parents` of every node unchanged, changes no handle, and the store is really full;
    // * a successful operation changes the external part only at the result's root (+1) and at the
    //   root of the overwritten handle (−1); its **value table** over all 3^n three-valued
    //   assignments is the property's truth table (Kleene not/and/or, Łukasiewicz imp/equiv,
    //   xor = ¬equiv, imp_strict(a,b) = ¬imp(b,a), the stated ite) applied pointwise to the operands'
    //   value tables (computed by an independent walk before the operation);
    // * after `gc`: stored inner nodes = nodes reachable from the handles, `gc()` returns the
    //   difference, every handle's tree is unchanged.
    use oxidd::tdd::{TDDFunction, TDDManagerRef};
    use oxidd::{Function, HasLevel, InnerNode, Manager, ManagerRef, Node, TVLFunction};
    use oxidd_core::LevelView;
    use oxidd_rules_tdd::TDDTerminal;
    use oxv::*;
    use std::borrow::Borrow;
    use std::collections::{BTreeMap, BTreeSet, HashMap};
    use std::io::Write;

    // ------------------------------------------------------------------------------------------------
    // the three-valued logic of the property text, values 0 = false, 1 = unknown, 2 = true

    type V = u8;

    fn v_not(a: V) -> V {
        2 - a
    }
    fn v_and(a: V, b: V) -> V {
        a.min(b)
    }
    fn v_or(a: V, b: V) -> V {
        a.max(b)
    }
    /// Łukasiewicz implication: min(1, 1 - a + b) on {0, 1/2, 1}
    fn v_imp(a: V, b: V) -> V {
        (2 + b as i32 - a as i32).min(2) as V
    }
    /// Łukasiewicz equivalence: 1 - |a - b|
    fn v_equiv(a: V, b: V) -> V {
        (2 - (a as i32 - b as i32).abs()) as V
    }
    fn v_bin(op: &str, a: V, b: V) -> V {
        match op {
            "and" => v_and(a, b),
            "or" => v_or(a, b),
            "nand" => v_not(v_and(a, b)),
            "nor" => v_not(v_or(a, b)),
            "xor" => v_not(v_equiv(a, b)),
            "equiv" => v_equiv(a, b),
            "imp" => v_imp(a, b),
            "imp_strict" => v_not(v_imp(b, a)),
            _ => unreachable!(),
        }
    }
    /// "ite(a,b,c) is b if b = c or a is true, c if a is false, and for unknown a: or(a,c) if a = b,
    /// and(a,b) if a = c, unknown otherwise"
    fn v_ite(a: V, b: V, c: V) -> V {
        if b == c || a == 2 {
            b
        } else if a == 0 {
            c
        } else if a == b {
            v_or(a, c)
        } else if a == c {
            v_and(a, b)
        } else {
            1
        }
    }
    fn v_str(v: V) -> &'static str {
        match v {
            0 => "F",
            1 => "U",
            _ => "T",
        }
    }

    // ------------------------------------------------------------------------------------------------
    // generator

    const OPS: [&str; 8] = ["and", "or", "nand", "nor", "xor", "equiv", "imp", "imp_strict"];
    const CONSTS: [&str; 3] = ["t", "u", "f"];

    pub fn script(rng: &mut Rng, n: u32, steps: usize) -> Vec<String> {
        let mut out: Vec<String> = Vec::new();
        let mut pool: Vec<String> = Vec::new();
        let mut vs: Vec<u32> = (0..n).collect();
        rng.shuffle(&mut vs);
        for &v in &vs {
            if rng.chance(5, 6) || pool.is_empty() {
                out.push(format!("var x{} {}", v, v));
                pool.push(format!("x{v}"));
            }
        }
        // the three constants (always created, in a random order; operands pick them less often than
        // variables and registers)
        let mut cs = CONSTS.to_vec();
        rng.shuffle(&mut cs);
        for c in cs {
            out.push(format!("const c{} {}", c, c));
            if rng.chance(1, 2) {
                pool.push(format!("c{c}"));
            }
        }
        let nreg = 8u64;
        let mut regs: Vec<String> = Vec::new();
        for _ in 0..steps {
            let k = rng.below(100);
            let reg = format!("r{}", rng.below(nreg));
            let pick = |rng: &mut Rng, regs: &Vec<String>| -> String {
                if !regs.is_empty() && rng.chance(7, 10) { rng.pick(regs).clone() } else { rng.pick(&pool).clone() }
            };
            let bind = |regs: &mut Vec<String>, reg: &String| {
                if !regs.contains(reg) {
                    regs.push(reg.clone());
                }
            };
            if k < 36 {
                let (a, b) = (pick(rng, &regs), pick(rng, &regs));
                out.push(format!("op {} {} {} {}", reg, rng.pick(&OPS), a, b));
                bind(&mut regs, &reg);
            } else if k < 58 {
                // ite: all shapes of the prologue — equal operands, constant operands, arbitrary ones
                let c = pick(rng, &regs);
                let mut a = pick(rng, &regs);
                let mut b = pick(rng, &regs);
                match rng.below(16) {
                    0 => a = c.clone(),
                    1 => b = c.clone(),
                    2 => b = a.clone(),
                    3 | 4 => a = format!("c{}", rng.pick(&CONSTS)),
                    5 | 6 => b = format!("c{}", rng.pick(&CONSTS)),
                    7 => {
                        a = "cf".into();
                        b = "ct".into();
                    }
                    8 => {
                        a = "ct".into();
                        b = "cf".into();
                    }
                    9 => {
                        a = format!("c{}", rng.pick(&CONSTS));
                        b = format!("c{}", rng.pick(&CONSTS));
                    }
                    _ => {}
                }
                out.push(format!("ite {} {} {} {}", reg, c, a, b));
                bind(&mut regs, &reg);
            } else if k < 64 {
                out.push(format!("not {} {}", reg, pick(rng, &regs)));
                bind(&mut regs, &reg);
            } else if k < 68 {
                out.push(format!("notowned {} {}", reg, pick(rng, &regs)));
                bind(&mut regs, &reg);
            } else if k < 70 {
                out.push(format!("const {} {}", reg, rng.pick(&CONSTS)));
                bind(&mut regs, &reg);
            } else if k < 74 {
                let a = pick(rng, &regs);
                out.push(format!("clone {} {}", reg, a));
                bind(&mut regs, &reg);
            } else if k < 85 {
                if !regs.is_empty() {
                    let i = rng.below(regs.len() as u64) as usize;
                    let d = regs.swap_remove(i);
                    out.push(format!("drop {}", d));
                }
            } else if k < 93 {
                out.push("gc".into());
            } else if k < 96 {
                out.push(format!("rc {}", pick(rng, &regs)));
            } else if k < 98 {
                out.push("ninner".into());
            } else {
                out.push(format!("eq {} {}", pick(rng, &regs), pick(rng, &regs)));
            }
        }
        out.push("dropall".into());
        out.push("gc".into());
        out
    }

    fn emit(w: &mut dyn Write, sc: u64, n: u32, cap: u32, lines: &[String]) {
        let cache = [1usize, 2, 16, 1024][((sc + cap as u64) % 4) as usize];
        writeln!(w, "case trc-s{}-n{}-N{}-c{}", sc, n, cap, cache).unwrap();
        writeln!(w, "mgr vars={} nodes={} cache={}", n, cap, cache).unwrap();
        for l in lines {
            writeln!(w, "{}", l).unwrap();
            writeln!(w, "dump").unwrap();
        }
    }

    fn generate(cfg: &GenCfg, rng: &mut Rng, w: &mut dyn Write) {
        let scripts = if cfg.thorough { 120 } else { 45 } * cfg.scale;
        for sc in 0..scripts {
            let n = 2 + (sc % 3) as u32; // 2..4 variables
            let steps = if cfg.thorough { 50 } else { 32 };
            let lines = script(rng, n, steps);
            let cmax = 10 * n + 8;
            for cap in 0..=cmax {
                emit(w, sc, n, cap, &lines);
            }
        }
    }

    // ------------------------------------------------------------------------------------------------
    // scenario

    fn term_val(t: &TDDTerminal) -> V {
        match t {
            TDDTerminal::False => 0,
            TDDTerminal::Unknown => 1,
            TDDTerminal::True => 2,
        }
    }

    fn tree_rec<M>(m: &M, e: &M::Edge, out: &mut String)
    where
        M: Manager<Terminal = TDDTerminal>,
        M::InnerNode: HasLevel,
    {
        match m.get_node(e) {
            Node::Inner(n) => {
                out.push_str(&format!("(v{} ", m.level_to_var(n.level())));
                tree_rec(m, &n.child(0), out);
                out.push(' ');
                tree_rec(m, &n.child(1), out);
                out.push(' ');
                tree_rec(m, &n.child(2), out);
                out.push(')');
            }
            Node::Terminal(t) => out.push_str(v_str(term_val(t.borrow()))),
        }
    }

    fn tree_of<M>(m: &M, e: &M::Edge) -> String
    where
        M: Manager<Terminal = TDDTerminal>,
        M::InnerNode: HasLevel,
    {
        let mut s = String::new();
        tree_rec(m, e, &mut s);
        s
    }

    /// independent evaluation: follow the true/unknown/false child according to the value of the
    /// node's variable
    fn walk<M>(m: &M, e: &M::Edge, sigma: &[V]) -> V
    where
        M: Manager<Terminal = TDDTerminal>,
        M::InnerNode: HasLevel,
    {
        match m.get_node(e) {
            Node::Inner(n) => {
                let v = m.level_to_var(n.level()) as usize;
                let k = match sigma[v] {
                    2 => 0,
                    1 => 1,
                    _ => 2,
                };
                walk(m, &n.child(k), sigma)
            }
            Node::Terminal(t) => term_val(t.borrow()),
        }
    }

    /// value table over all 3^n assignments (digit v of the index = value of variable v)
    fn table<M>(m: &M, e: &M::Edge, n: u32) -> Vec<V>
    where
        M: Manager<Terminal = TDDTerminal>,
        M::InnerNode: HasLevel,
    {
        let total = 3usize.pow(n);
        let mut res = Vec::with_capacity(total);
        let mut sigma = vec![0 as V; n as usize];
        for mut k in 0..total {
            for v in 0..n as usize {
                sigma[v] = (k % 3) as V;
                k /= 3;
            }
            res.push(walk(m, e, &sigma));
        }
        res
    }

    /// the complete store as seen through the public API
    #[derive(Clone, PartialEq, Default)]
    struct Snap {
        /// tree -> (ref_count, child trees)
        nodes: BTreeMap<String, (usize, [String; 3])>,
        ninner: usize,
        err: Option<String>,
    }

    fn snap_rec<M>(m: &M) -> Snap
    where
        M: Manager<Terminal = TDDTerminal>,
        M::InnerNode: HasLevel,
    {
        let mut s = Snap::default();
        let mut listed = 0usize;
        for view in m.levels() {
            let lno = view.level_no();
            for e in view.iter() {
                listed += 1;
                let node = match m.get_node(e) {
                    Node::Inner(n) => n,
                    Node::Terminal(_) => {
                        s.err = Some("a level lists a terminal".into());
                        continue;
                    }
                };
                if node.level() != lno {
                    s.err = Some(format!("a node of level {} is listed on level {}", node.level(), lno));
                }
                let t = tree_of(m, e);
                let c = [tree_of(m, &node.child(0)), tree_of(m, &node.child(1)), tree_of(m, &node.child(2))];
                if c[0] == c[1] && c[1] == c[2] {
                    s.err = Some(format!("stored node {} has three equal children (not reduced)", t));
                }
                for k in 0..3 {
                    if let Node::Inner(cn) = m.get_node(&node.child(k)) {
                        if cn.level() <= node.level() {
                            s.err = Some(format!("stored node {} has a child that is not on a lower level", t));
                        }
                    }
                }
                if s.nodes.insert(t.clone(), (node.ref_count(), c)).is_some() {
                    s.err = Some(format!("node {} is stored twice", t));
                }
            }
        }
        s.ninner = m.num_inner_nodes();
        if listed != s.ninner {
            s.err = Some(format!("num_inner_nodes() = {} but the levels list {} nodes", s.ninner, listed));
        }
        s
    }

    impl Snap {
        fn parents(&self) -> HashMap<&str, usize> {
            let mut p: HashMap<&str, usize> = HashMap::new();
            for (_, (_, c)) in &self.nodes {
                for x in c {
                    if x.starts_with('(') {
                        *p.entry(x.as_str()).or_insert(0) += 1;
                    }
                }
            }
            p
        }
        /// external part of every counter: ref_count − stored parent edges
        fn external(&self, ctx: &mut Ctx) -> HashMap<String, i64> {
            let p = self.parents();
            let mut e = HashMap::new();
            for (t, (rc, _)) in &self.nodes {
                let par = *p.get(t.as_str()).unwrap_or(&0);
                let x = *rc as i64 - par as i64;
                if x < 0 {
                    ctx.fail("ref-count", &format!("node {} has ref_count {} but {} stored parent edges", t, rc, par));
                }
                e.insert(t.clone(), x);
            }
            e
        }
        fn show(&self) -> String {
            let items: Vec<String> = self.nodes.iter().map(|(t, (rc, _))| format!("{}:{}", t, rc)).collect();
            let a = if items.is_empty() { "-".to_string() } else { items.join(" | ") };
            format!("I={} ; {}", self.nodes.len(), a)
        }
    }

    /// inner sub-diagrams reachable from a printed tree (trees are canonical names)
    fn collect(snap: &Snap, t: &str, inner: &mut BTreeSet<String>) {
        if !t.starts_with('(') {
            return;
        }
        if !inner.insert(t.to_string()) {
            return;
        }
        if let Some((_, c)) = snap.nodes.get(t) {
            let c = c.clone();
            for x in &c {
                collect(snap, x, inner);
            }
        }
    }

    pub struct Sc {
        // field order: handles are dropped before the manager
        hs: HashMap<String, TDDFunction>,
        mref: Option<TDDManagerRef>,
        n: u32,
        cap: usize,
    }

    impl Sc {
        fn snap(&self) -> Snap {
            self.mref.as_ref().unwrap().with_manager_shared(|m| snap_rec(m))
        }
        fn root_tree(&self, name: &str) -> Option<String> {
            let f = self.hs.get(name)?;
            Some(f.with_manager_shared(|m, e| tree_of(m, e)))
        }
        fn handle_trees(&self) -> BTreeMap<String, String> {
            self.hs.iter().map(|(k, f)| (k.clone(), f.with_manager_shared(|m, e| tree_of(m, e)))).collect()
        }
        fn table_of(&self, f: &TDDFunction) -> Vec<V> {
            let n = self.n;
            f.with_manager_shared(|m, e| table(m, e, n))
        }

        /// the oracles that hold after every line
        fn check_always(&self, s: &Snap, ctx: &mut Ctx, when: &str) {
            if let Some(e) = &s.err {
                ctx.fail("audit", &format!("{}: {}", when, e));
            }
            if s.ninner > self.cap {
                ctx.fail("capacity-exceeded", &format!("{}: {} inner nodes stored in a manager with node capacity {}", when, s.ninner, self.cap));
            }
            // counter = handles + stored parent edges
            let mut expected: HashMap<String, usize> = HashMap::new();
            for t in self.handle_trees().values() {
                if t.starts_with('(') {
                    *expected.entry(t.clone()).or_insert(0) += 1;
                }
            }
            for (_, (_, c)) in &s.nodes {
                for x in c {
                    if x.starts_with('(') {
                        *expected.entry(x.clone()).or_insert(0) += 1;
                    }
                }
            }
            for (t, (rc, _)) in &s.nodes {
                let e = *expected.get(t).unwrap_or(&0);
                if e != *rc {
                    ctx.fail("ref-count", &format!("{}: node {} reports ref_count {} but {} references exist (live handles + stored parent edges)", when, t, rc, e));
                    break;
                }
            }
            for t in expected.keys() {
                if !s.nodes.contains_key(t) {
                    ctx.fail("dangling-edge", &format!("{}: node {} is referenced but not stored", when, t));
                    break;
                }
            }
        }

        fn exec(&self, w: &[&str]) -> Option<Result<TDDFunction, ()>> {
            let mref = self.mref.as_ref()?;
            Some(match w {
                ["const", _, v] => Ok(mref.with_manager_shared(|m| match *v {
                    "t" => TDDFunction::t(m),
                    "u" => TDDFunction::u(m),
                    _ => TDDFunction::f(m),
                })),
                ["var", _, v] => {
                    let v: u32 = v.parse().ok()?;
                    mref.with_manager_shared(|m| TDDFunction::var(m, v)).map_err(|_| ())
                }
                ["not", _, a] => self.hs.get(*a)?.not().map_err(|_| ()),
                ["notowned", _, a] => self
                    .hs
                    .get(*a)?
                    .with_manager_shared(|m, e| {
                        let owned = m.clone_edge(e);
                        TDDFunction::not_edge_owned(m, owned).map(|r| TDDFunction::from_edge(m, r))
                    })
                    .map_err(|_| ()),
                ["op", _, o, a, b] => {
                    let (f, g) = (self.hs.get(*a)?, self.hs.get(*b)?);
                    match *o {
                        "and" => f.and(g),
                        "or" => f.or(g),
                        "nand" => f.nand(g),
                        "nor" => f.nor(g),
                        "xor" => f.xor(g),
                        "equiv" => f.equiv(g),
                        "imp" => f.imp(g),
                        "imp_strict" => f.imp_strict(g),
                        _ => return None,
                    }
                    .map_err(|_| ())
                }
                ["ite", _, c, a, b] => {
                    let (fc, fa, fb) = (self.hs.get(*c)?, self.hs.get(*a)?, self.hs.get(*b)?);
                    fc.ite(fa, fb).map_err(|_| ())
                }
                _ => return None,
            })
        }

        /// the value table the property demands for the result of `w` (from the operands' tables,
        /// computed by the independent walk *before* the operation)
        fn expected_table(&self, w: &[&str]) -> Option<Vec<V>> {
            let total = 3usize.pow(self.n);
            Some(match w {
                ["const", _, v] => vec![match *v { "t" => 2, "u" => 1, _ => 0 }; total],
                ["var", _, v] => {
                    let v: u32 = v.parse().ok()?;
                    (0..total).map(|k| ((k / 3usize.pow(v)) % 3) as V).collect()
                }
                ["not", _, a] | ["notowned", _, a] => self.table_of(self.hs.get(*a)?).iter().map(|&x| v_not(x)).collect(),
                ["op", _, o, a, b] => {
                    let (ta, tb) = (self.table_of(self.hs.get(*a)?), self.table_of(self.hs.get(*b)?));
                    ta.iter().zip(tb.iter()).map(|(&x, &y)| v_bin(o, x, y)).collect()
                }
                ["ite", _, c, a, b] => {
                    let (tc, ta, tb) = (self.table_of(self.hs.get(*c)?), self.table_of(self.hs.get(*a)?), self.table_of(self.hs.get(*b)?));
                    (0..total).map(|k| v_ite(tc[k], ta[k], tb[k])).collect()
                }
                ["clone", _, a] => self.table_of(self.hs.get(*a)?),
                _ => return None,
            })
        }
    }

    impl Scenario for Sc {
        fn reset(&mut self) {
            self.hs.clear();
            self.mref = None;
            self.n = 0;
        }

        fn step(&mut self, line: &str, ctx: &mut Ctx) -> String {
            let w = words(line);
            if w.is_empty() {
                return "bad-op".into();
            }
            if w[0] == "mgr" {
                let get = |k: &str, d: usize| w.iter().find_map(|x| x.strip_prefix(k)).and_then(|s| s.parse().ok()).unwrap_or(d);
                self.hs.clear();
                self.mref = None;
                self.n = get("vars=", 0) as u32;
                self.cap = get("nodes=", 1 << 16);
                let cache = get("cache=", 1024);
                let mref = oxidd::tdd::new_manager(self.cap, cache, 1);
                let n = self.n;
                mref.with_manager_exclusive(|m| {
                    m.add_vars(n);
                });
                self.mref = Some(mref);
                return "ok".into();
            }
            if self.mref.is_none() {
                return "err nomgr".into();
            }
            match w.as_slice() {
                ["const", h, ..] | ["var", h, ..] | ["not", h, ..] | ["notowned", h, ..] | ["op", h, ..] | ["ite", h, ..] | ["clone", h, ..] => {
                    // static rejections (same answers as the model)
                    match w.as_slice() {
                        ["const", _, v] if !CONSTS.contains(v) => return "bad-op".into(),
                        ["const", _, _] => {}
                        ["var", _, v] => match v.parse::<u32>() {
                            Ok(v) if v < self.n => {}
                            Ok(_) => return "err range".into(),
                            Err(_) => return "bad-op".into(),
                        },
                        ["not", _, a] | ["notowned", _, a] | ["clone", _, a] => {
                            if !self.hs.contains_key(*a) {
                                return "err handle".into();
                            }
                        }
                        ["op", _, o, a, b] => {
                            if !OPS.contains(o) {
                                return "bad-op".into();
                            }
                            if !self.hs.contains_key(*a) || !self.hs.contains_key(*b) {
                                return "err handle".into();
                            }
                        }
                        ["ite", _, c, a, b] => {
                            if !self.hs.contains_key(*c) || !self.hs.contains_key(*a) || !self.hs.contains_key(*b) {
                                return "err handle".into();
                            }
                        }
                        _ => return "bad-op".into(),
                    }
                    let pre = self.snap();
                    let pre_ext = pre.external(ctx);
                    let pre_handles = self.handle_trees();
                    let old_root = self.root_tree(h);
                    let want = self.expected_table(&w);
                    let kind = if w[0] == "op" { "bin" } else { w[0] };
                    if w[0] == "ite" {
                        // which part of the prologue of apply_ite_rec is taken
                        let (c, a, b) = (&pre_handles[w[2]], &pre_handles[w[3]], &pre_handles[w[4]]);
                        let inner = |t: &String| t.starts_with('(');
                        ctx.count(if a == b {
                            "ite.g==h"
                        } else if c == a {
                            "ite.f==g"
                        } else if c == b {
                            "ite.f==h"
                        } else if !inner(c) && c != "U" {
                            "ite.cond-T/F"
                        } else if !inner(c) && !inner(a) && !inner(b) {
                            "ite.cond-U.terminal-branches"
                        } else if !inner(a) && inner(b) {
                            match a.as_str() { "T" => "ite.g=T:or", "F" => "ite.g=F:imp_strict", _ => "ite.g=U:recurse" }
                        } else if inner(a) && !inner(b) {
                            match b.as_str() { "T" => "ite.h=T:imp", "F" => "ite.h=F:and", _ => "ite.h=U:recurse" }
                        } else if !inner(a) && !inner(b) {
                            match (a.as_str(), b.as_str()) { ("F", "T") => "ite.FT:not", ("T", "F") => "ite.TF:f", _ => "ite.terminals:recurse" }
                        } else if !inner(c) {
                            "ite.cond-U:recurse"
                        } else {
                            "ite.inner:recurse"
                        });
                    }
                    let res: Result<TDDFunction, ()> = if w[0] == "clone" {
                        Ok(self.hs[w[2]].clone())
                    } else {
                        match self.exec(&w) {
                            Some(r) => r,
                            None => return "bad-op".into(),
                        }
                    };
                    let out = match res {
                        Ok(f) => {
                            let t = f.with_manager_shared(|m, e| tree_of(m, e));
                            // the property: the result's value table is the truth table applied pointwise
                            if let Some(want) = &want {
                                let got = self.table_of(&f);
                                if got != *want {
                                    let strs = |t: &Vec<V>| t.iter().map(|&v| v_str(v)).collect::<String>();
                                    ctx.fail("value-table", &format!("`{}` returned {} with value table {} but the three-valued truth table applied to the operands gives {}", line, t, strs(&got), strs(want)));
                                }
                            }
                            // `insert` drops the old handle of that name after the operation
                            self.hs.insert(h.to_string(), f);
                            if w[0] == "clone" { "ok".to_string() } else { t }
                        }
                        Err(()) => "OOM".to_string(),
                    };
                    let post = self.snap();
                    let post_ext = post.external(ctx);
                    // nothing disappears without a collection
                    for t in pre.nodes.keys() {
                        if !post.nodes.contains_key(t) {
                            ctx.fail("node-vanished", &format!("`{}`: node {} is no longer stored although no collection ran", line, t));
                        }
                    }
                    let created = post.nodes.len() - post.nodes.keys().filter(|t| pre.nodes.contains_key(*t)).count();
                    if out == "OOM" {
                        ctx.count(&format!("oom_{}_after_{}_nodes", kind, created.min(12)));
                        if post.ninner != self.cap {
                            ctx.fail("spurious-oom", &format!("`{}` reports OutOfMemory but {} of {} node slots are used", line, post.ninner, self.cap));
                        }
                        // nothing acquired is still held, nothing released twice
                        for (t, x) in &post_ext {
                            let before = *pre_ext.get(t).unwrap_or(&0);
                            if *x != before {
                                ctx.fail("oom-changed-refcount", &format!("`{}` failed with OutOfMemory; node {} had {} external references (ref_count − stored parent edges) before and has {} after", line, t, before, x));
                            }
                        }
                        if self.handle_trees() != pre_handles {
                            ctx.fail("oom-changed-handle", &format!("`{}` failed but a handle changed", line));
                        }
                    } else {
                        ctx.count(&format!("ok_{}_with_{}_nodes", kind, created.min(8)));
                        let mut delta: HashMap<String, i64> = HashMap::new();
                        if let Some(t) = self.root_tree(h) {
                            if t.starts_with('(') {
                                *delta.entry(t).or_insert(0) += 1;
                            }
                        }
                        if let Some(t) = old_root {
                            if t.starts_with('(') {
                                *delta.entry(t).or_insert(0) -= 1;
                            }
                        }
                        for (t, x) in &post_ext {
                            let want = *pre_ext.get(t).unwrap_or(&0) + *delta.get(t).unwrap_or(&0);
                            if *x != want {
                                ctx.fail("op-changed-refcount", &format!("`{}` succeeded; node {} should have {} external references afterwards but has {}", line, t, want, x));
                            }
                        }
                    }
                    self.check_always(&post, ctx, &format!("after `{}`", line));
                    out
                }
                ["drop", a] => {
                    if self.hs.remove(*a).is_none() {
                        return "err handle".into();
                    }
                    "ok".into()
                }
                ["dropall"] => {
                    self.hs.clear();
                    "ok".into()
                }
                ["gc"] => {
                    let pre = self.snap();
                    let pre_handles = self.handle_trees();
                    let c = self.mref.as_ref().unwrap().with_manager_shared(|m| m.gc());
                    let post = self.snap();
                    if pre.ninner < post.ninner || c != pre.ninner - post.ninner {
                        ctx.fail("gc-return", &format!("gc() returned {} but inner nodes went {} -> {}", c, pre.ninner, post.ninner));
                    }
                    // exactly what the handles reach remains (computed on the store *before* the sweep)
                    let mut inner = BTreeSet::new();
                    for t in pre_handles.values() {
                        collect(&pre, t, &mut inner);
                    }
                    let stored: BTreeSet<String> = post.nodes.keys().cloned().collect();
                    if stored != inner {
                        let extra: Vec<&String> = stored.difference(&inner).collect();
                        let miss: Vec<&String> = inner.difference(&stored).collect();
                        ctx.fail("gc-not-exact", &format!("after gc the stored inner nodes differ from the nodes reachable from the {} live handles: stored but unreachable {:?}, reachable but not stored {:?}", self.hs.len(), extra, miss));
                    }
                    if self.handle_trees() != pre_handles {
                        ctx.fail("gc-changed-function", "a handle denotes a different diagram after gc");
                    }
                    self.check_always(&post, ctx, "after gc");
                    ctx.count("gc");
                    if pre.ninner > post.ninner {
                        ctx.count("gc.collected-something");
                    }
                    if self.hs.is_empty() {
                        ctx.count("gc.no-handles");
                    }
                    format!("{}", post.ninner)
                }
                ["dump"] => {
                    let s = self.snap();
                    self.check_always(&s, ctx, "dump");
                    s.show()
                }
                ["rc", a] => match self.hs.get(*a) {
                    None => "err handle".into(),
                    Some(f) => f.with_manager_shared(|m, e| match m.get_node(e) {
                        Node::Inner(n) => n.ref_count().to_string(),
                        Node::Terminal(_) => "-".into(),
                    }),
                },
                ["ninner"] => self.mref.as_ref().unwrap().with_manager_shared(|m| m.num_inner_nodes()).to_string(),
                ["show", a] => match self.root_tree(a) {
                    Some(t) => t,
                    None => "err handle".into(),
                },
                ["eq", a, b] => match (self.hs.get(*a), self.hs.get(*b)) {
                    (Some(f), Some(g)) => {
                        let same = f == g;
                        if same != (self.root_tree(a) == self.root_tree(b)) {
                            ctx.fail("canonicity", &format!("{} == {} is {} but the unfolded trees say otherwise", a, b, same));
                        }
                        if same != (self.table_of(f) == self.table_of(g)) {
                            ctx.fail("canonicity", &format!("{} == {} is {} but the value tables say otherwise", a, b, same));
                        }
                        (if same { "1" } else { "0" }).into()
                    }
                    _ => "err handle".into(),
                },
                _ => "bad-op".into(),
            }
        }
    }

    fn make(_f: &BTreeMap<String, String>) -> Box<dyn Scenario> {
        Box::new(Sc { hs: HashMap::new(), mref: None, n: 0, cap: 0 })
    }


    impl super::Inner for Sc {
        type Fun = TDDFunction;
        const KIND: &'static str = "tdd";
        fn fresh() -> Self {
            Sc { hs: HashMap::new(), mref: None, n: 0, cap: 0 }
        }
        fn conc_exec(&self, w: &[&str]) -> Option<Result<Self::Fun, ()>> {
            self.exec(w)
        }
        fn handle(&self, name: &str) -> Option<&Self::Fun> {
            self.hs.get(name)
        }
        fn tree(&self, f: &Self::Fun) -> String {
            f.with_manager_shared(|m, e| tree_of(m, e))
        }
        fn ninner(&self) -> usize {
            self.mref.as_ref().map(|r| r.with_manager_shared(|m| m.num_inner_nodes())).unwrap_or(0)
        }
    }
}
