//! C07 (locking protocol): runtime lock-trace correspondence.
//!
//! The library is compiled with `--cfg oxidd_verif`, which enables the hooks of
//! `oxidd_core::util::verif_locks`: every lock operation of the index manager (manager `RwLock`,
//! `gc_ongoing`, apply-cache buckets, level mutexes, store state, terminal table, `gc_signal`,
//! the sort state of `set_var_order`, plus `install`/`join`/`broadcast` of the worker pool) is
//! logged with the thread, the `sub` flag and the locks held before.
//!
//! Two modes (two streams in `checks/C07.json`):
//!
//! * **run mode** (default; stream `locks-run`, oracle only): `gen` writes *scripts* (`mgr`, `par`,
//!   `reorder`, `addvars`, `gc`, `fin` lines); `run` executes them on the real code with 1..4
//!   application threads and 1..8 pool workers, takes the logged events after every line and
//!   judges them **natively**:
//!   1. `rank-inversion`: at every blocking acquisition all locks held before (as reported by the
//!      hook's own thread-local stack) have a strictly smaller rank (rank table duplicated below);
//!   2. `hang`: the watchdog of `harness_main` (no line may take longer than 60 s);
//!   3. `held-after-op`: after every line every application/pool thread holds nothing;
//!      `gc-thread-stuck`: after the last `ManagerRef` is gone the gc thread leaves its loop;
//!   4. `mutual-exclusion`: in the global order of the log no mutex has two holders, the `RwLock`
//!      no writer next to another holder;
//!   5. `lock-discipline`: the complete replay (the same clauses as the Lean checker
//!      `Locks/Trace.lean: evOK`, re-implemented here in `Replay`) accepts every event;
//!   and appends the events in the line format of the Lean driver `locks` to a side file
//!   (`--trace-out F`, default `<oracle-out>.trace`).
//! * **trace mode** (`--mode trace`; stream `locks-trace`, protocol `locks`): `gen --trace-from F`
//!   copies the side file written by the previous stream (plus a few synthetic negative cases
//!   `case neg-…`), `run` replays the lines with the Rust `Replay` and prints its verdicts; the
//!   Lean driver does the same with `evOK (disc d)`: the two columns must agree line by line, and
//!   outside the `neg-` cases every verdict must be `ok`. The `rank`/`submin`/`prot` lines
//!   cross-check the duplicated rank table against the model's `rank`.
//!
//! `ctx` lines: the distinct *contexts* (sub-task?, kind of operation, class of the lock, classes of
//! the locks held) observed in a case; the model answers `in-table` iff some row of `opProg` has
//! that context (`Locks/Contexts.lean`) — a difference means the table misses a lock site.
//!
//! Coverage: per row of the model's table `opProg` (`row.*`) and per micro-operation (`micro.*`).
#![allow(unexpected_cfgs)]
use std::collections::BTreeMap;
use std::io::Write;

use oxv::*;

// ------------------------------------------------------------------------------------------------
// rank table and replay judge (independent of the hook module)

#[derive(Clone, Copy, PartialEq, Eq, Debug, Hash, PartialOrd, Ord)]
enum Cl {
    Mgr,
    GcOngoing,
    Bucket,
    Level,
    StoreState,
    TermState,
    GcSignal,
    ReorderState,
}

const CLASSES: [Cl; 8] = [Cl::Mgr, Cl::GcOngoing, Cl::Bucket, Cl::Level, Cl::StoreState, Cl::TermState, Cl::GcSignal, Cl::ReorderState];

type Lk = (Cl, u64);

fn cl_name(c: Cl) -> &'static str {
    match c {
        Cl::Mgr => "mgr",
        Cl::GcOngoing => "gcOngoing",
        Cl::Bucket => "bucket",
        Cl::Level => "level",
        Cl::StoreState => "storeState",
        Cl::TermState => "termState",
        Cl::GcSignal => "gcSignal",
        Cl::ReorderState => "reorderState",
    }
}

fn parse_lock(c: &str, i: &str) -> Option<Lk> {
    if i.is_empty() || !i.bytes().all(|b| b.is_ascii_digit()) {
        return None;
    }
    let i: u64 = i.parse().ok()?;
    let c = *CLASSES.iter().find(|k| cl_name(**k) == c)?;
    if !matches!(c, Cl::Bucket | Cl::Level) && i != 0 {
        return None;
    }
    Some((c, i))
}

/// THE LOCK ORDER (duplicate of `Locks/Model.lean: rank`; cross-checked through the protocol)
fn rank(nb: u64, nl: u64, l: Lk) -> u64 {
    match l.0 {
        Cl::Mgr => 0,
        Cl::GcOngoing => 1,
        Cl::Bucket => 2 + l.1,
        Cl::Level => 2 + nb + l.1,
        Cl::StoreState => 2 + nb + nl,
        Cl::TermState => 3 + nb + nl,
        Cl::GcSignal => 4 + nb + nl,
        Cl::ReorderState => 5 + nb + nl,
    }
}

/// locks living inside the manager (duplicate of `Model.lean: prot`)
fn prot(c: Cl) -> bool {
    matches!(c, Cl::GcOngoing | Cl::Bucket | Cl::Level | Cl::TermState | Cl::ReorderState)
}

#[derive(Clone, Copy, PartialEq, Eq, Debug)]
enum Ev {
    Acq { shared: bool },
    TryOk,
    TryFail,
    Rel,
    Wait,
    Join,
}

#[derive(Default, Clone)]
struct Th {
    sub: bool,
    /// oldest first
    held: Vec<Lk>,
}

/// Replay of per-thread held lists + the clauses of the static discipline (mirror of
/// `Trace.lean: evNext / evWhy`)
#[derive(Default)]
struct Replay {
    nb: u64,
    nl: u64,
    th: BTreeMap<u64, Th>,
}

impl Replay {
    fn prot_inv(sub: bool, held: &[Lk]) -> bool {
        sub || held.iter().all(|l| !prot(l.0)) || held.iter().any(|l| l.0 == Cl::Mgr)
    }
    fn all_below(&self, held: &[Lk], n: u64) -> bool {
        held.iter().all(|&l| rank(self.nb, self.nl, l) < n)
    }
    fn submin(&self) -> u64 {
        2 + self.nb
    }
    fn acq_why(&self, sub: bool, held: &[Lk], l: Lk, shared: bool) -> Option<&'static str> {
        if !self.all_below(held, rank(self.nb, self.nl, l)) {
            Some("rank")
        } else if shared && l.0 != Cl::Mgr {
            Some("mode")
        } else if sub && l.0 == Cl::Mgr {
            Some("sub-mgr")
        } else if sub && self.submin() > rank(self.nb, self.nl, l) {
            Some("sub-rank")
        } else {
            None
        }
    }
    fn drop_lock(held: &[Lk], l: Lk) -> Vec<Lk> {
        held.iter().copied().filter(|&h| h != l).collect()
    }
    fn why(&self, sub: bool, held: &[Lk], ev: Ev, l: Lk) -> Option<&'static str> {
        if !Self::prot_inv(sub, held) {
            return Some("prot");
        }
        match ev {
            Ev::Acq { shared } => self.acq_why(sub, held, l, shared),
            Ev::TryOk => (l.0 == Cl::Mgr).then_some("try-rw"),
            Ev::TryFail => {
                if l.0 == Cl::Mgr {
                    Some("try-rw")
                } else {
                    let mut h2 = held.to_vec();
                    h2.push(l);
                    (!Self::prot_inv(sub, &h2)).then_some("prot-after")
                }
            }
            Ev::Rel => (!held.contains(&l)).then_some("unheld"),
            Ev::Wait => {
                if !held.contains(&l) {
                    Some("unheld")
                } else {
                    let d = Self::drop_lock(held, l);
                    if !Self::prot_inv(sub, &d) { Some("prot-after") } else { self.acq_why(sub, &d, l, false) }
                }
            }
            Ev::Join => (!self.all_below(held, self.submin())).then_some("join-rank"),
        }
    }
    /// judge one event and update the thread's held list; `rep` = the held list reported by the hook
    fn judge(&mut self, tid: u64, ev: Ev, l: Option<Lk>, rep: Option<&[Lk]>) -> String {
        let t = self.th.entry(tid).or_default().clone();
        let lk = l.unwrap_or((Cl::Mgr, 0));
        let next = match ev {
            Ev::Acq { .. } | Ev::TryOk => {
                let mut h = t.held.clone();
                h.push(lk);
                h
            }
            Ev::TryFail | Ev::Join => t.held.clone(),
            Ev::Rel => Self::drop_lock(&t.held, lk),
            Ev::Wait => {
                let mut h = Self::drop_lock(&t.held, lk);
                h.push(lk);
                h
            }
        };
        self.th.get_mut(&tid).unwrap().held = next;
        if let Some(r) = rep {
            if r != &t.held[..] {
                return "held-mismatch".into();
            }
        }
        if let Some(l) = l {
            let in_dims = match l.0 {
                Cl::Bucket => l.1 < self.nb,
                Cl::Level => l.1 < self.nl,
                _ => true,
            };
            if !in_dims {
                return "bad-index".into();
            }
        }
        match self.why(t.sub, &t.held, ev, lk) {
            None => "ok".into(),
            Some("unheld") if ev == Ev::Rel => "release-unheld".into(),
            Some(c) => format!("violates-discipline {c}"),
        }
    }
    fn set_sub(&mut self, tid: u64, b: bool) -> String {
        let t = self.th.entry(tid).or_default();
        t.sub = b;
        if t.held.is_empty() { "ok".into() } else { "violates-discipline sub-change".into() }
    }
    fn end(&mut self, tid: u64) -> String {
        let t = self.th.entry(tid).or_default();
        if t.held.is_empty() {
            "ok".into()
        } else {
            let mut s = String::from("held-at-end");
            for l in &t.held {
                s.push_str(&format!(" {}:{}", cl_name(l.0), l.1));
            }
            s
        }
    }

    /// one line of the `locks` protocol (mirror of `Locks/Driver.lean: stepWords`)
    fn step_line(&mut self, line: &str) -> String {
        fn nat(s: &str) -> Option<u64> {
            if s.is_empty() || !s.bytes().all(|b| b.is_ascii_digit()) { None } else { s.parse().ok() }
        }
        fn parse_held(ws: &[&str]) -> Option<Option<Vec<Lk>>> {
            match ws.split_first() {
                None => Some(None),
                Some((&"|", rest)) => {
                    let mut v = Vec::new();
                    for w in rest {
                        let parts: Vec<&str> = w.split(':').collect();
                        if parts.len() != 2 {
                            return None;
                        }
                        v.push(parse_lock(parts[0], parts[1])?);
                    }
                    Some(Some(v))
                }
                _ => None,
            }
        }
        let w = words(line);
        let bad = || "bad-op".to_string();
        match w.as_slice() {
            ["dims", nb, nl] => match (nat(nb), nat(nl)) {
                (Some(nb), Some(nl)) => {
                    self.nb = nb;
                    self.nl = nl;
                    format!("dims {nb} {nl}")
                }
                _ => bad(),
            },
            ["rank", c, i] => match parse_lock(c, i) {
                Some(l) => format!("rank {}", rank(self.nb, self.nl, l)),
                None => bad(),
            },
            ["submin"] => format!("submin {}", self.submin()),
            ["prot", c] => match parse_lock(c, "0") {
                Some(l) => format!("prot {}", prot(l.0) as u8),
                None => bad(),
            },
            ["acq", tid, c, i, m, b, rest @ ..] => match (nat(tid), parse_lock(c, i), parse_held(rest)) {
                (Some(tid), Some(l), Some(rep)) => {
                    let ev = match (*m, *b) {
                        ("s", "1") => Ev::Acq { shared: true },
                        ("x", "1") => Ev::Acq { shared: false },
                        ("x", "0") => Ev::TryOk,
                        _ => return bad(),
                    };
                    self.judge(tid, ev, Some(l), rep.as_deref())
                }
                _ => bad(),
            },
            [op @ ("tryfail" | "rel" | "wait"), tid, c, i, rest @ ..] => match (nat(tid), parse_lock(c, i), parse_held(rest)) {
                (Some(tid), Some(l), Some(rep)) => {
                    let ev = match *op {
                        "tryfail" => Ev::TryFail,
                        "rel" => Ev::Rel,
                        _ => Ev::Wait,
                    };
                    self.judge(tid, ev, Some(l), rep.as_deref())
                }
                _ => bad(),
            },
            ["join", tid, rest @ ..] => match (nat(tid), parse_held(rest)) {
                (Some(tid), Some(rep)) => self.judge(tid, Ev::Join, None, rep.as_deref()),
                _ => bad(),
            },
            ["sub", tid, b] => match nat(tid) {
                Some(tid) if *b == "0" || *b == "1" => self.set_sub(tid, *b == "1"),
                _ => bad(),
            },
            ["end", tid] => match nat(tid) {
                Some(tid) => self.end(tid),
                None => bad(),
            },
            // a context observed on the real code: "the code does this" (the model column says
            // whether some row of its table does it too)
            ["ctx", sub, kind, cls, mode, "|", held @ ..] => {
                let is_cl = |c: &str| CLASSES.iter().any(|k| cl_name(*k) == c);
                if (*sub == "0" || *sub == "1") && ["acq", "try", "wait", "join"].contains(kind) && (is_cl(cls) || *cls == "-") && (*mode == "s" || *mode == "x") && held.iter().all(|h| is_cl(h)) {
                    "in-table".into()
                } else {
                    bad()
                }
            }
            _ => bad(),
        }
    }
}

// ------------------------------------------------------------------------------------------------
// trace mode: replay of a recorded trace (real-side column of stream `locks-trace`)

struct TraceSc {
    rp: Replay,
}

impl Scenario for TraceSc {
    fn reset(&mut self) {
        self.rp = Replay::default();
    }
    fn step(&mut self, line: &str, ctx: &mut Ctx) -> String {
        let out = self.rp.step_line(line);
        let w0 = line.split_ascii_whitespace().next().unwrap_or("");
        ctx.count(&format!("trace.{w0}"));
        let neg = ctx.case.starts_with("case neg-");
        let judged = matches!(w0, "acq" | "tryfail" | "rel" | "wait" | "join" | "sub" | "end");
        if judged && out != "ok" {
            if neg {
                ctx.count("trace.neg-rejected");
            } else {
                ctx.fail("lock-discipline", &format!("recorded event `{line}` is rejected by the replay of the lock discipline: {out}"));
            }
        }
        out
    }
}

/// synthetic cases: both columns must reject (or accept) the same way
fn neg_cases(w: &mut dyn Write) {
    let cases: &[(&str, &[&str])] = &[
        ("neg-inverted-store-level", &["dims 2 3", "acq 1 mgr 0 s 1", "acq 1 storeState 0 x 1 | mgr:0", "acq 1 level 0 x 1 | mgr:0 storeState:0", "rel 1 level 0", "rel 1 storeState 0", "rel 1 mgr 0", "end 1"]),
        ("neg-levels-descending", &["dims 2 3", "sub 2 1", "acq 2 level 2 x 1", "acq 2 level 0 x 1", "rel 2 level 0", "rel 2 level 2", "end 2"]),
        ("neg-sub-blocks-on-bucket", &["dims 2 3", "sub 2 1", "acq 2 bucket 1 x 1", "acq 2 bucket 0 x 0", "acq 2 mgr 0 s 1", "end 2"]),
        ("neg-join-under-level", &["dims 2 3", "acq 1 mgr 0 s 1", "acq 1 level 1 x 1", "join 1 | mgr:0 level:1", "rel 1 level 1", "join 1", "rel 1 mgr 0", "end 1"]),
        ("neg-no-manager-lock", &["dims 2 3", "acq 1 level 0 x 1", "rel 1 level 0", "tryfail 1 bucket 0", "acq 1 gcSignal 0 x 1", "rel 1 gcSignal 0"]),
        ("neg-reentrant-shared", &["dims 2 3", "acq 1 mgr 0 s 1", "acq 1 mgr 0 s 1 | mgr:0", "acq 1 mgr 0 x 0", "tryfail 1 mgr 0"]),
        ("neg-release-unheld", &["dims 2 3", "acq 1 mgr 0 s 1", "rel 1 level 0", "wait 1 gcSignal 0", "rel 1 mgr 0", "rel 1 mgr 0", "sub 1 1"]),
        ("neg-held-mismatch-index", &["dims 2 3", "acq 1 mgr 0 x 1 | level:0", "acq 1 level 3 x 1", "acq 1 bucket 2 x 0", "sub 1 1", "end 1"]),
        ("neg-wait", &["dims 1 1", "acq 3 gcSignal 0 x 1", "wait 3 gcSignal 0 | gcSignal:0", "rel 3 gcSignal 0", "acq 3 mgr 0 s 1", "acq 3 storeState 0 x 1", "acq 3 gcSignal 0 x 1", "wait 3 storeState 0", "end 3"]),
        ("neg-malformed", &["dims 2", "acq 1 mgr 1 x 1", "acq 1 level 0 s 0", "acq 1 level x x 1", "acq 1 level 0 x 1 mgr:0", "acq 1 level 0 x 1 | mgr", "rel 1", "frob", "rank bucket 7", "rank nolock 0", "prot level", "prot mgr", "submin", "end x", "sub 1 2"]),
    ];
    for (name, lines) in cases {
        writeln!(w, "case {name}").unwrap();
        for l in *lines {
            writeln!(w, "{l}").unwrap();
        }
    }
}

fn generate(cfg: &GenCfg, rng: &mut Rng, w: &mut dyn Write) {
    if cfg.extra.get("mode").map(|s| s.as_str()) == Some("trace") {
        let p = cfg.extra.get("trace-from").expect("--trace-from FILE");
        let data = match std::fs::read_to_string(p) {
            Ok(d) => d,
            Err(e) => {
                eprintln!("c07_locks gen --mode trace: cannot read {p}: {e} (the stream `locks-run` must run first)");
                std::process::exit(1);
            }
        };
        w.write_all(data.as_bytes()).unwrap();
        neg_cases(w);
        return;
    }
    gen_scripts(cfg, rng, w);
}

/// Scripts. All randomness of the *scripts* is here; the `par` lines carry a seed from which the
/// application threads derive their operations.
fn gen_scripts(cfg: &GenCfg, rng: &mut Rng, w: &mut dyn Write) {
    let cases = if cfg.thorough { 240 } else { 60 } * cfg.scale;
    let kinds = ["bdd", "bcdd", "zbdd", "mtbdd"];
    for c in 0..cases {
        let kind = kinds[(c % 4) as usize];
        let workers = *rng.pick(&[1u32, 2, 2, 3, 4, 4, 8]);
        let sd = *rng.pick(&["auto", "0", "1", "2", "64"]);
        let cache = *rng.pick(&[1usize, 2, 4, 4, 8, 16, 64]);
        // shapes: small capacity (background gc, OOM), medium, above one allocation chunk
        let shape = rng.below(4);
        let mut nvars = rng.range(3, 7) as u32;
        let first_nvars = nvars;
        let mut nodes = match shape {
            0 => rng.range(60, 300) as usize,
            1 => 4096,
            2 => 65536,
            _ => 200_000,
        };
        // reordering needs room (open finding: `set_var_order` aborts on a full store) and is
        // not done on ZBDDs with live diagrams (open finding KF-zbdd-reorder)
        let reorder_ok = shape >= 2 && kind != "zbdd";
        // ZBDD `add_vars` rebuilds the tautology chain and aborts if it does not fit (open finding
        // KF-zbdd-addvars-oom): only with a roomy store
        let addvars_ok = kind != "zbdd" || shape != 0;
        if kind == "zbdd" && shape == 0 {
            nodes = nodes.max(nvars as usize * 4 + 40);
        }
        let mut lines: Vec<String> = Vec::new();
        let mut maxvars = nvars;
        let nlines = rng.range(3, 6);
        for _ in 0..nlines {
            match rng.below(10) {
                0 if reorder_ok => lines.push(format!("reorder {}", rng.next() % 1_000_000)),
                1 => {
                    let n = rng.range(1, 2) as u32;
                    if addvars_ok && nvars + n <= 10 {
                        nvars += n;
                        lines.push(format!("addvars {n}"));
                    }
                }
                2 => lines.push("gc".into()),
                _ => {
                    let threads = rng.range(1, 4);
                    let nops = if cfg.thorough { rng.range(10, 40) } else { rng.range(8, 24) };
                    // writer script run by an extra thread while the others run shared operations
                    let mut wr = String::new();
                    if rng.chance(1, 2) {
                        for _ in 0..rng.range(1, 3) {
                            if reorder_ok && rng.chance(2, 3) {
                                wr.push('r');
                            } else if addvars_ok && nvars < 10 {
                                nvars += 1;
                                wr.push('a');
                            }
                        }
                    }
                    lines.push(format!("par {threads} {nops} {} w={}", rng.next() % 1_000_000, if wr.is_empty() { "-" } else { &wr }));
                }
            }
            maxvars = maxvars.max(nvars);
        }
        if kind == "zbdd" && c % 8 == 2 {
            // ZBDD reordering with no live diagram besides the manager's own chain
            lines.insert(0, format!("reorder {}", rng.next() % 1_000_000));
        }
        writeln!(w, "case locks-{c}-{kind}-w{workers}-sd{sd}-c{cache}-n{nodes}").unwrap();
        writeln!(w, "mgr {kind} {nodes} {cache} {workers} {sd} {first_nvars} {maxvars}").unwrap();
        for l in lines {
            writeln!(w, "{l}").unwrap();
        }
        writeln!(w, "fin").unwrap();
    }
    // concurrent sort of `set_var_order` (needs > 1 worker and >= 65536 nodes): sortWorker/levelWorker rows
    for c in 0..(if cfg.thorough { 6 } else { 2 }) {
        let kind = if c % 2 == 0 { "bdd" } else { "bcdd" };
        let workers = [4, 2, 8, 3, 5, 6][c as usize % 6];
        let pairs = 15 + (c / 2) % 2;
        writeln!(w, "case locks-big-{c}-{kind}-w{workers}-c64").unwrap();
        // split depth 0: the construction runs on the calling thread, whose node count is
        // flushed to the store after every operation (`approx_num_inner_nodes` decides about the
        // concurrent sort)
        writeln!(w, "mgr {kind} 600000 64 {workers} 0 {} {}", 2 * pairs, 2 * pairs).unwrap();
        writeln!(w, "big {pairs}").unwrap();
        writeln!(w, "reorder-interleaved").unwrap();
        writeln!(w, "par 2 8 {} w=-", rng.next() % 1_000_000).unwrap();
        writeln!(w, "fin").unwrap();
    }
    // the last-two-references race of `ManagerRef::drop` (gc thread must still quit)
    for c in 0..(if cfg.thorough { 40 } else { 8 }) {
        writeln!(w, "case locks-dropmref-{c}").unwrap();
        writeln!(w, "mgr bdd 4096 4 {} auto 3 3", 1 + c % 3).unwrap();
        writeln!(w, "par 2 6 {} w=-", rng.next() % 1_000_000).unwrap();
        writeln!(w, "fin2").unwrap();
    }
    // the same with the two drops released by a spin barrier, many times
    writeln!(w, "case locks-droprace").unwrap();
    writeln!(w, "droprace {}", if cfg.thorough { 3000 } else { 500 }).unwrap();
}

// ------------------------------------------------------------------------------------------------
// run mode without the hooks: a clear failure

#[cfg(not(oxidd_verif))]
mod real {
    use super::*;
    pub struct Real;
    impl Scenario for Real {
        fn reset(&mut self) {}
        fn step(&mut self, _line: &str, ctx: &mut Ctx) -> String {
            ctx.fail("hooks-missing", "c07_locks was built without `--cfg oxidd_verif` (or /repo lacks the lock-trace hooks `oxidd_core::util::verif_locks`): no lock events can be observed");
            "hooks-missing".into()
        }
    }
    pub fn make(_f: &BTreeMap<String, String>) -> Box<dyn Scenario> {
        Box::new(Real)
    }
}

// ------------------------------------------------------------------------------------------------
// run mode with the hooks

#[cfg(oxidd_verif)]
mod real {
    use super::*;
    use std::collections::HashMap;
    use std::sync::Mutex;
    use std::time::{Duration, Instant};

    use oxidd::bcdd::BCDDFunction;
    use oxidd::bdd::BDDFunction;
    use oxidd::mtbdd::MTBDDFunction;
    use oxidd::mtbdd::terminal::I64;
    use oxidd::zbdd::ZBDDFunction;
    use oxidd::{BooleanFunction, BooleanFunctionQuant, Function, FunctionSubst, HasWorkers, Manager, ManagerRef, PseudoBooleanFunction, Subst, WorkerPool};
    use oxidd_core::{ApplyCache, HasApplyCache};
    use oxidd_core::util::verif_locks as vl;

    type MR<K> = <<K as LK>::F as Function>::ManagerRef;

    fn cl_of(c: vl::Class) -> Cl {
        match c {
            vl::Class::Mgr => Cl::Mgr,
            vl::Class::GcOngoing => Cl::GcOngoing,
            vl::Class::Bucket => Cl::Bucket,
            vl::Class::Level => Cl::Level,
            vl::Class::StoreState => Cl::StoreState,
            vl::Class::TermState => Cl::TermState,
            vl::Class::GcSignal => Cl::GcSignal,
            vl::Class::ReorderState => Cl::ReorderState,
        }
    }

    /// what the scenario needs from a diagram kind
    pub trait LK: 'static {
        type F: Function<ManagerRef: Send + Sync> + Clone + Send + Sync + 'static;
        fn new_manager(nodes: usize, cache: usize, threads: u32) -> MR<Self>;
        fn vars(mref: &MR<Self>, from: u32, to: u32) -> Vec<Self::F>;
        /// one random operation on functions; `None`: out of memory
        fn op(rng: &mut Rng, pool: &[Self::F], vars: &[Self::F], st: &mut BTreeMap<&'static str, u64>) -> Option<Self::F>;
        /// manager-level operations under the shared lock: 0 gc, 1 num_inner_nodes, 2 approx, 3 cache clear
        fn misc(mref: &MR<Self>, which: u64);
        fn add_vars(mref: &MR<Self>, n: u32);
        fn num_vars(mref: &MR<Self>) -> u32;
        fn reorder(mref: &MR<Self>, order: &[u32]);
        fn set_split_depth(mref: &MR<Self>, d: Option<u32>);
        /// a function whose diagram has about `2^(pairs+1)` nodes under the initial order
        fn big(_vars: &[Self::F], _pairs: usize) -> Option<Self::F> {
            None
        }
    }

    /// `(x0 ∧ xn) ∨ (x1 ∧ x(n+1)) ∨ …`: exponential under the order x0 < x1 < …, linear when interleaved
    fn big_bool<F: BooleanFunction>(vars: &[F], pairs: usize) -> Option<F> {
        let mut acc: Option<F> = None;
        for i in 0..pairs {
            let t = vars[i].and(&vars[i + pairs]).ok()?;
            acc = Some(match acc {
                None => t,
                Some(a) => a.or(&t).ok()?,
            });
        }
        acc
    }

    macro_rules! manager_part {
        ($F:ty) => {
            fn misc(mref: &MR<Self>, which: u64) {
                mref.with_manager_shared(|m| match which {
                    0 => {
                        m.gc();
                    }
                    1 => {
                        std::hint::black_box(m.num_inner_nodes());
                    }
                    2 => {
                        std::hint::black_box(m.approx_num_inner_nodes());
                    }
                    _ => m.apply_cache().clear(m),
                })
            }
            fn add_vars(mref: &MR<Self>, n: u32) {
                mref.with_manager_exclusive(|m| {
                    m.add_vars(n);
                })
            }
            fn num_vars(mref: &MR<Self>) -> u32 {
                mref.with_manager_shared(|m| m.num_vars())
            }
            fn reorder(mref: &MR<Self>, order: &[u32]) {
                mref.with_manager_exclusive(|m| oxidd_reorder::set_var_order(m, order))
            }
            fn set_split_depth(mref: &MR<Self>, d: Option<u32>) {
                mref.with_manager_shared(|m| m.workers().set_split_depth(d))
            }
        };
    }

    fn pick<'a, T>(rng: &mut Rng, xs: &'a [T]) -> &'a T {
        &xs[rng.below(xs.len() as u64) as usize]
    }

    fn bool_op<F: BooleanFunction>(rng: &mut Rng, pool: &[F], which: u64, st: &mut BTreeMap<&'static str, u64>) -> Option<F> {
        let (a, b, c) = (pick(rng, pool), pick(rng, pool), pick(rng, pool));
        let (name, r) = match which {
            0 => ("op.and", a.and(b)),
            1 => ("op.or", a.or(b)),
            2 => ("op.xor", a.xor(b)),
            3 => ("op.not", a.not()),
            4 => ("op.equiv", a.equiv(b)),
            5 => ("op.imp", a.imp(b)),
            6 => ("op.nand", a.nand(b)),
            _ => ("op.ite", a.ite(b, c)),
        };
        *st.entry(name).or_insert(0) += 1;
        r.ok()
    }

    fn quant_subst_op<F: BooleanFunction + BooleanFunctionQuant + FunctionSubst>(rng: &mut Rng, pool: &[F], vars: &[F], which: u64, st: &mut BTreeMap<&'static str, u64>) -> Option<F> {
        let a = pick(rng, pool);
        // a cube of 1-2 variables
        let v1 = pick(rng, vars);
        let cube = if rng.chance(1, 2) { v1.and(pick(rng, vars)).ok()? } else { v1.clone() };
        let (name, r) = match which {
            0 => ("op.exists", a.exists(&cube)),
            1 => ("op.forall", a.forall(&cube)),
            2 => ("op.unique", a.unique(&cube)),
            _ => {
                let i = rng.below(vars.len() as u64) as u32;
                let j = rng.below(vars.len() as u64) as u32;
                let (vs, rs) = if i == j { (vec![i], vec![pick(rng, pool).clone()]) } else { (vec![i, j], vec![pick(rng, pool).clone(), pick(rng, pool).clone()]) };
                let s = Subst::new(vs, rs);
                ("op.substitute", a.substitute(&s))
            }
        };
        *st.entry(name).or_insert(0) += 1;
        r.ok()
    }

    pub struct KBdd;
    impl LK for KBdd {
        type F = BDDFunction;
        fn new_manager(nodes: usize, cache: usize, threads: u32) -> MR<Self> {
            oxidd::bdd::new_manager(nodes, cache, threads)
        }
        fn vars(mref: &MR<Self>, from: u32, to: u32) -> Vec<Self::F> {
            mref.with_manager_shared(|m| (from..to).map(|v| BDDFunction::var(m, v).unwrap()).collect())
        }
        fn op(rng: &mut Rng, pool: &[Self::F], vars: &[Self::F], st: &mut BTreeMap<&'static str, u64>) -> Option<Self::F> {
            let w = rng.below(12);
            if w < 8 { bool_op(rng, pool, w, st) } else { quant_subst_op(rng, pool, vars, w - 8, st) }
        }
        fn big(vars: &[Self::F], pairs: usize) -> Option<Self::F> {
            big_bool(vars, pairs)
        }
        manager_part!(BDDFunction);
    }
    pub struct KBcdd;
    impl LK for KBcdd {
        type F = BCDDFunction;
        fn new_manager(nodes: usize, cache: usize, threads: u32) -> MR<Self> {
            oxidd::bcdd::new_manager(nodes, cache, threads)
        }
        fn vars(mref: &MR<Self>, from: u32, to: u32) -> Vec<Self::F> {
            mref.with_manager_shared(|m| (from..to).map(|v| BCDDFunction::var(m, v).unwrap()).collect())
        }
        fn op(rng: &mut Rng, pool: &[Self::F], vars: &[Self::F], st: &mut BTreeMap<&'static str, u64>) -> Option<Self::F> {
            let w = rng.below(12);
            if w < 8 { bool_op(rng, pool, w, st) } else { quant_subst_op(rng, pool, vars, w - 8, st) }
        }
        fn big(vars: &[Self::F], pairs: usize) -> Option<Self::F> {
            big_bool(vars, pairs)
        }
        manager_part!(BCDDFunction);
    }
    pub struct KZbdd;
    impl LK for KZbdd {
        type F = ZBDDFunction;
        fn new_manager(nodes: usize, cache: usize, threads: u32) -> MR<Self> {
            oxidd::zbdd::new_manager(nodes, cache, threads)
        }
        fn vars(mref: &MR<Self>, from: u32, to: u32) -> Vec<Self::F> {
            mref.with_manager_shared(|m| (from..to).filter_map(|v| ZBDDFunction::var(m, v).ok()).collect())
        }
        fn op(rng: &mut Rng, pool: &[Self::F], _vars: &[Self::F], st: &mut BTreeMap<&'static str, u64>) -> Option<Self::F> {
            let w = rng.below(8);
            bool_op(rng, pool, w, st)
        }
        manager_part!(ZBDDFunction);
    }
    pub struct KMtbdd;
    impl LK for KMtbdd {
        type F = MTBDDFunction<I64>;
        fn new_manager(nodes: usize, cache: usize, threads: u32) -> MR<Self> {
            // few terminal slots: `get_terminal` runs into the full table now and then
            oxidd::mtbdd::new_manager::<I64>(nodes, 24, cache, threads)
        }
        fn vars(mref: &MR<Self>, from: u32, to: u32) -> Vec<Self::F> {
            mref.with_manager_shared(|m| (from..to).filter_map(|v| MTBDDFunction::<I64>::var(m, v).ok()).collect())
        }
        fn op(rng: &mut Rng, pool: &[Self::F], _vars: &[Self::F], st: &mut BTreeMap<&'static str, u64>) -> Option<Self::F> {
            let (a, b, c) = (pick(rng, pool), pick(rng, pool), pick(rng, pool));
            let (name, r) = match rng.below(7) {
                0 => ("op.add", a.add(b)),
                1 => ("op.sub", a.sub(b)),
                2 => ("op.mul", a.mul(b)),
                3 => ("op.min", PseudoBooleanFunction::min(a, b)),
                4 => ("op.max", PseudoBooleanFunction::max(a, b)),
                5 => {
                    let k = I64::Num(rng.below(5) as i64 - 2);
                    ("op.constant", a.with_manager_shared(|m, _| MTBDDFunction::<I64>::constant(m, k)))
                }
                _ => ("op.add3", a.add(b).and_then(|x| PseudoBooleanFunction::max(&x, c))),
            };
            *st.entry(name).or_insert(0) += 1;
            r.ok()
        }
        manager_part!(MTBDDFunction<I64>);
    }

    /// object-safe face of `Eng<K>`
    trait Engine {
        fn par(&mut self, threads: u64, nops: u64, seed: u64, writer: &str, st: &mut BTreeMap<&'static str, u64>);
        fn reorder(&mut self, seed: u64, clear_pools: bool);
        fn add_vars(&mut self, n: u32);
        fn gc(&mut self);
        /// build the large diagram (kept in pool 0); false if the kind has none / out of memory
        fn big(&mut self, pairs: usize) -> bool;
        /// `set_var_order` to the order that interleaves the two halves of the variables
        fn reorder_interleaved(&mut self);
        /// drop every handle and the manager reference; `racy`: drop the last two `ManagerRef`s on two threads at once
        fn fin(&mut self, racy: bool);
    }

    struct Eng<K: LK> {
        mref: Option<MR<K>>,
        vars: Vec<K::F>,
        pools: Vec<Vec<K::F>>,
    }

    impl<K: LK> Eng<K> {
        fn new(nodes: usize, cache: usize, workers: u32, sd: Option<u32>, nvars: u32) -> Self {
            let mref = K::new_manager(nodes, cache, workers);
            K::add_vars(&mref, nvars);
            K::set_split_depth(&mref, sd);
            let vars = K::vars(&mref, 0, nvars);
            Eng { mref: Some(mref), vars, pools: (0..4).map(|_| Vec::new()).collect() }
        }
    }

    fn random_order(rng: &mut Rng, n: u32) -> Vec<u32> {
        let mut o: Vec<u32> = (0..n).collect();
        rng.shuffle(&mut o);
        // sometimes only a partial order
        if n > 2 && rng.chance(1, 4) {
            o.truncate(rng.range(2, n as u64) as usize);
        }
        o
    }

    impl<K: LK> Engine for Eng<K> {
        fn par(&mut self, threads: u64, nops: u64, seed: u64, writer: &str, st: &mut BTreeMap<&'static str, u64>) {
            let mref = self.mref.as_ref().unwrap();
            let vars = &self.vars;
            let xchg: Mutex<Vec<K::F>> = Mutex::new(Vec::new());
            let stats: Mutex<BTreeMap<&'static str, u64>> = Mutex::new(BTreeMap::new());
            let mut pools: Vec<Vec<K::F>> = self.pools.iter_mut().map(std::mem::take).collect();
            std::thread::scope(|s| {
                let mut hs = Vec::new();
                for (t, pool) in pools.iter_mut().enumerate().take(threads as usize) {
                    let (xchg, stats) = (&xchg, &stats);
                    let h = std::thread::Builder::new()
                        .name(format!("app{t}"))
                        .spawn_scoped(s, move || {
                            let mut rng = Rng::new(seed.wrapping_mul(1009).wrapping_add(t as u64));
                            let mut st: BTreeMap<&'static str, u64> = BTreeMap::new();
                            if pool.is_empty() {
                                pool.extend(vars.iter().cloned());
                                *st.entry("op.clone").or_insert(0) += vars.len() as u64;
                            }
                            if pool.is_empty() {
                                return; // no variable could be created (tiny store)
                            }
                            for _ in 0..nops {
                                match rng.below(100) {
                                    0..=59 => {
                                        let r = if vars.is_empty() { None } else { K::op(&mut rng, pool, vars, &mut st) };
                                        match r {
                                            Some(f) => {
                                                if pool.len() < 14 {
                                                    pool.push(f)
                                                } else {
                                                    let i = rng.below(pool.len() as u64) as usize;
                                                    pool[i] = f; // drops the old handle
                                                    *st.entry("op.drop").or_insert(0) += 1;
                                                }
                                            }
                                            None => {
                                                *st.entry("op.oom").or_insert(0) += 1;
                                                // make room: forget most of the pool, collect
                                                pool.truncate(2);
                                                K::misc(mref, 0);
                                            }
                                        }
                                    }
                                    60..=67 => {
                                        let f = pick(&mut rng, pool).clone();
                                        *st.entry("op.clone").or_insert(0) += 1;
                                        xchg.lock().unwrap().push(f);
                                    }
                                    68..=75 => {
                                        // handles created/cloned by other threads are dropped (or adopted) here
                                        let f = xchg.lock().unwrap().pop();
                                        if let Some(f) = f {
                                            if rng.chance(1, 2) && pool.len() < 14 {
                                                pool.push(f)
                                            } else {
                                                drop(f);
                                                *st.entry("op.drop-foreign").or_insert(0) += 1;
                                            }
                                        }
                                    }
                                    76..=81 => {
                                        *st.entry("op.gc").or_insert(0) += 1;
                                        K::misc(mref, 0)
                                    }
                                    82..=84 => {
                                        *st.entry("op.num_inner_nodes").or_insert(0) += 1;
                                        K::misc(mref, 1)
                                    }
                                    85..=87 => {
                                        *st.entry("op.approx_num_inner_nodes").or_insert(0) += 1;
                                        K::misc(mref, 2)
                                    }
                                    88..=89 => {
                                        *st.entry("op.cache-clear").or_insert(0) += 1;
                                        K::misc(mref, 3)
                                    }
                                    90..=94 => {
                                        if pool.len() > 2 {
                                            let i = rng.below(pool.len() as u64) as usize;
                                            pool.swap_remove(i);
                                            *st.entry("op.drop").or_insert(0) += 1;
                                        }
                                    }
                                    95..=97 => {
                                        let m2 = mref.clone();
                                        *st.entry("op.mref-clone-drop").or_insert(0) += 1;
                                        drop(m2);
                                    }
                                    _ => std::thread::yield_now(),
                                }
                            }
                            let mut g = stats.lock().unwrap();
                            for (k, v) in st {
                                *g.entry(k).or_insert(0) += v;
                            }
                        })
                        .unwrap();
                    hs.push(h);
                }
                // the writer: add_vars / set_var_order under the exclusive lock, concurrently
                let wh = if writer != "-" {
                    let stats = &stats;
                    Some(
                        std::thread::Builder::new()
                            .name("writer".into())
                            .spawn_scoped(s, move || {
                                let mut rng = Rng::new(seed.wrapping_mul(7919) ^ 0x5bd1);
                                for ch in writer.chars() {
                                    for _ in 0..rng.below(4) {
                                        std::thread::yield_now();
                                    }
                                    let key = match ch {
                                        'a' => {
                                            K::add_vars(mref, 1);
                                            "op.add_vars"
                                        }
                                        _ => {
                                            let n = K::num_vars(mref);
                                            let o = random_order(&mut rng, n);
                                            K::reorder(mref, &o);
                                            "op.set_var_order"
                                        }
                                    };
                                    *stats.lock().unwrap().entry(key).or_insert(0) += 1;
                                }
                            })
                            .unwrap(),
                    )
                } else {
                    None
                };
                for h in hs {
                    h.join().unwrap();
                }
                if let Some(h) = wh {
                    h.join().unwrap();
                }
            });
            for (p, q) in self.pools.iter_mut().zip(pools) {
                *p = q;
            }
            // leftover exchanged handles are dropped by the main thread
            drop(xchg);
            for (k, v) in stats.into_inner().unwrap() {
                *st.entry(k).or_insert(0) += v;
            }
        }

        fn reorder(&mut self, seed: u64, clear_pools: bool) {
            if clear_pools {
                for p in &mut self.pools {
                    p.clear();
                }
                self.vars.clear();
            }
            let mref = self.mref.as_ref().unwrap();
            let mut rng = Rng::new(seed);
            let n = K::num_vars(mref);
            let o = random_order(&mut rng, n);
            K::reorder(mref, &o);
            if clear_pools {
                self.vars = K::vars(mref, 0, n);
            }
        }

        fn add_vars(&mut self, n: u32) {
            K::add_vars(self.mref.as_ref().unwrap(), n)
        }

        fn gc(&mut self) {
            K::misc(self.mref.as_ref().unwrap(), 0)
        }

        fn big(&mut self, pairs: usize) -> bool {
            if self.vars.len() < 2 * pairs {
                return false;
            }
            match K::big(&self.vars, pairs) {
                Some(f) => {
                    self.pools[0].push(f);
                    true
                }
                None => false,
            }
        }

        fn reorder_interleaved(&mut self) {
            let mref = self.mref.as_ref().unwrap();
            let n = K::num_vars(mref);
            let h = n / 2;
            let mut o = Vec::new();
            for i in 0..h {
                o.push(i);
                o.push(i + h);
            }
            K::reorder(mref, &o);
        }

        fn fin(&mut self, racy: bool) {
            for p in &mut self.pools {
                p.clear();
            }
            self.vars.clear();
            let mref = self.mref.take().unwrap();
            if racy {
                // two references left besides the gc thread's: drop them at the same time
                let m2 = mref.clone();
                let bar = std::sync::Barrier::new(2);
                std::thread::scope(|s| {
                    let b = &bar;
                    s.spawn(move || {
                        b.wait();
                        drop(m2)
                    });
                    bar.wait();
                    drop(mref);
                });
            } else {
                drop(mref);
            }
        }
    }

    // --------------------------------------------------------------------------------------------

    #[derive(Default)]
    struct CovTh {
        /// mgr mode held: 0 none, 1 shared, 2 exclusive
        mgr: u8,
        buckets_blocking: u64,
        joined: bool,
        gc: bool,
        levels_held: u64,
        two_levels: bool,
        reorder_state: bool,
    }

    pub struct Real {
        eng: Option<Box<dyn Engine>>,
        rp: Replay,
        /// lines of the current case for the side file
        buf: Vec<String>,
        trace_out: Option<std::fs::File>,
        last_sub: HashMap<u64, bool>,
        /// mutual exclusion: lock -> holders (tid, shared)
        holders: HashMap<Lk, Vec<(u64, bool)>>,
        /// several managers alive at once (lock ids are per manager but carry no manager identity)
        multi_mgr: bool,
        /// library threads (gc thread, pool workers) of managers of EARLIER cases: they may still
        /// be on their way out and log events under lock ids that the current case's manager reuses
        stale: std::collections::HashSet<u64>,
        cov: HashMap<u64, CovTh>,
        names: HashMap<u64, String>,
        events_case: u64,
        cap: u64,
        header: String,
        /// distinct contexts of the current case
        ctxs: std::collections::BTreeSet<String>,
        ctx_all: std::collections::BTreeSet<String>,
    }

    /// context line (see `Locks/Contexts.lean`): classes held, runs of buckets collapsed
    fn ctx_line(sub: bool, kind: &str, l: Option<Lk>, shared: bool, held: &[Lk]) -> String {
        let mut s = format!("ctx {} {kind} {} {} |", sub as u8, l.map(|l| cl_name(l.0)).unwrap_or("-"), if shared { "s" } else { "x" });
        let mut prev_bucket = false;
        for h in held {
            if h.0 == Cl::Bucket && prev_bucket {
                continue;
            }
            prev_bucket = h.0 == Cl::Bucket;
            s.push(' ');
            s.push_str(cl_name(h.0));
        }
        s
    }

    /// the hook's own held list as the optional ` | …` suffix of a trace line (omitted when long:
    /// a collection holds every bucket)
    fn rep_held(h: &[Lk]) -> String {
        if h.len() > 6 { String::new() } else { format!(" |{}", fmt_held(h)) }
    }

    fn fmt_held(h: &[Lk]) -> String {
        let mut s = String::new();
        for l in h {
            s.push_str(&format!(" {}:{}", cl_name(l.0), l.1));
        }
        s
    }

    impl Real {
        fn refresh_names(&mut self) {
            let known = self.names.len();
            let all = vl::thread_names();
            if all.len() != known {
                for (id, name) in all {
                    self.names.insert(id as u64, name);
                }
            }
        }

        fn is_gc(&self, tid: u64) -> bool {
            self.names.get(&tid).map(|n| n == "oxidd mi gc").unwrap_or(false)
        }

        fn emit(&mut self, line: String, ctx: &mut Ctx, judged: bool) {
            let v = self.rp.step_line(&line);
            if judged && v != "ok" {
                ctx.fail("lock-discipline", &format!("event `{line}` violates the lock discipline of Locks/Model.lean: {v}"));
            }
            if self.events_case < self.cap {
                self.buf.push(line);
            } else if self.events_case == self.cap {
                ctx.count("trace.cases-truncated-in-side-file");
            }
            self.events_case += 1;
        }

        /// judge a batch of logged events (global order) and append them to the trace
        fn absorb(&mut self, evs: Vec<vl::Event>, ctx: &mut Ctx) {
            self.refresh_names();
            let (nb, nl) = (self.rp.nb, self.rp.nl);
            for e in evs {
                let tid = e.thread as u64;
                if self.stale.contains(&tid) {
                    ctx.count("events.from-threads-of-earlier-managers (ignored)");
                    continue;
                }
                let l: Lk = (cl_of(e.class), e.idx as u64);
                let held: Vec<Lk> = e.held_before.iter().map(|&(c, i)| (cl_of(c), i as u64)).collect();
                let is_gc = self.is_gc(tid);
                ctx.count("events");
                // --- sub flag
                if self.last_sub.get(&tid).copied().unwrap_or(false) != e.sub {
                    self.last_sub.insert(tid, e.sub);
                    self.emit(format!("sub {tid} {}", e.sub as u8), ctx, true);
                }
                let cx = match e.kind {
                    vl::Kind::Acq { mode, blocking } => Some(ctx_line(e.sub, if blocking { "acq" } else { "try" }, Some(l), mode == vl::Mode::Shared, &held)),
                    vl::Kind::TryFail => Some(ctx_line(e.sub, "try", Some(l), false, &held)),
                    vl::Kind::Wait => Some(ctx_line(e.sub, "wait", Some(l), false, &held)),
                    vl::Kind::JoinBegin(_) => Some(ctx_line(e.sub, "join", None, false, &held)),
                    _ => None,
                };
                if let Some(cx) = cx {
                    if !self.ctxs.contains(&cx) {
                        self.ctxs.insert(cx);
                    }
                }
                let c = self.cov.entry(tid).or_default();
                match e.kind {
                    vl::Kind::Acq { mode, blocking } => {
                        let shared = mode == vl::Mode::Shared;
                        // (1) rank oracle on the hook's own held list
                        if blocking {
                            ctx.count("acq.blocking");
                            for &h in &held {
                                if rank(nb, nl, h) >= rank(nb, nl, l) {
                                    ctx.fail(
                                        "rank-inversion",
                                        &format!("thread {tid} ({}) blocks on {}:{} while holding {}:{} (held:{})", self.names.get(&tid).map(|s| s.as_str()).unwrap_or("?"), cl_name(l.0), l.1, cl_name(h.0), h.1, fmt_held(&held)),
                                    );
                                    break;
                                }
                            }
                            if !held.is_empty() {
                                ctx.count("acq.blocking-nested");
                            }
                            ctx.add("acq.max-nesting-sum", held.len() as u64);
                        } else {
                            ctx.count("acq.try-ok");
                        }
                        // (4) mutual exclusion
                        let hs = self.holders.entry(l).or_default();
                        let conflict = if l.0 == Cl::Mgr && shared { hs.iter().any(|h| !h.1) } else { !hs.is_empty() };
                        // (lock ids carry no manager identity: while several managers are alive — the
                        // `droprace` case creates a fresh one per iteration and the gc thread of the
                        // previous one may still be on its way to its first wait — two DIFFERENT
                        // mutexes share one id; mutual exclusion is judged in single-manager cases only.
                        // Seen once as a false alarm in a dry run on a fresh sandbox.)
                        if conflict && !self.multi_mgr {
                            ctx.fail("mutual-exclusion", &format!("thread {tid} acquires {}:{} ({}) while the log shows holders {:?}", cl_name(l.0), l.1, if shared { "shared" } else { "exclusive" }, hs));
                        }
                        hs.push((tid, shared));
                        // coverage
                        match l.0 {
                            Cl::Mgr => {
                                c.mgr = if shared { 1 } else { 2 };
                                c.buckets_blocking = 0;
                                c.joined = false;
                                c.gc = false;
                                if is_gc {
                                    ctx.count("row.gcThread.mgr-shared");
                                } else if shared {
                                    ctx.count("row.shared");
                                } else {
                                    ctx.count("row.exclusive(addVars|reorder)");
                                }
                            }
                            Cl::GcOngoing => {
                                c.gc = true;
                                if is_gc {
                                    ctx.count("row.gcThread.collect");
                                } else if c.mgr == 2 {
                                    ctx.count("row.reorder.nested-gc");
                                } else {
                                    ctx.count("row.gcExplicit");
                                    ctx.count("micro.gc");
                                }
                            }
                            Cl::Bucket => {
                                if blocking {
                                    c.buckets_blocking += 1;
                                    if c.gc {
                                        ctx.count("gc.pre_gc-bucket");
                                    } else if c.mgr == 2 {
                                        if c.buckets_blocking == nb {
                                            ctx.count("row.reorder");
                                        }
                                    } else {
                                        ctx.count("micro.clear");
                                    }
                                } else if e.sub {
                                    ctx.count("sub.cache-try-ok");
                                } else {
                                    ctx.count("micro.cache-try-ok");
                                }
                            }
                            Cl::Level => {
                                c.levels_held += 1;
                                if c.levels_held >= 2 {
                                    c.two_levels = true;
                                }
                                if e.sub {
                                    if c.levels_held == 2 {
                                        ctx.count("row.sortWorker.two-levels");
                                    } else if held.is_empty() {
                                        ctx.count("sub.level");
                                    }
                                } else if c.gc {
                                    ctx.count("gc.sweep-level");
                                } else if c.levels_held == 2 {
                                    ctx.count("row.reorder.two-levels-seq");
                                } else {
                                    ctx.count("micro.level(mk|peek)");
                                }
                            }
                            Cl::StoreState => {
                                if held.iter().any(|h| h.0 == Cl::Level) {
                                    ctx.count(if e.sub { "sub.mk(level+store)" } else { "micro.mk(level+store)" });
                                } else if held.is_empty() {
                                    ctx.count(if is_gc { "row.gcThread.store" } else { "guard-drop.store" });
                                } else {
                                    ctx.count("micro.peekStore");
                                }
                            }
                            Cl::TermState => ctx.count(if c.gc { "gc.terminals" } else if e.sub { "sub.terminal" } else { "micro.terminal" }),
                            Cl::GcSignal => {
                                if is_gc {
                                    ctx.count("row.gcThread.signal")
                                } else {
                                    ctx.count("row.handleDrop(last-mref)");
                                    ctx.count("micro.dropFn");
                                }
                            }
                            Cl::ReorderState => {
                                c.reorder_state = true;
                                ctx.count("row.sortWorker.state")
                            }
                        }
                        self.emit(format!("acq {tid} {} {} {} {}{}", cl_name(l.0), l.1, if shared { "s" } else { "x" }, blocking as u8, rep_held(&held)), ctx, true);
                    }
                    vl::Kind::TryFail => {
                        ctx.count(match l.0 {
                            Cl::GcOngoing => "try-fail.gcOngoing",
                            _ if e.sub => "sub.cache-try-fail",
                            _ => "micro.cache-try-fail",
                        });
                        self.emit(format!("tryfail {tid} {} {}{}", cl_name(l.0), l.1, rep_held(&held)), ctx, true);
                    }
                    vl::Kind::Rel => {
                        let hs = self.holders.entry(l).or_default();
                        if let Some(p) = hs.iter().position(|h| h.0 == tid) {
                            hs.remove(p);
                        }
                        match l.0 {
                            Cl::Mgr => {
                                if c.mgr == 2 && c.buckets_blocking == 0 && !is_gc {
                                    ctx.count("row.addVars");
                                }
                                if c.mgr == 1 && c.joined {
                                    ctx.count("row.shared.with-fork");
                                }
                                c.mgr = 0;
                            }
                            Cl::Level => {
                                c.levels_held = c.levels_held.saturating_sub(1);
                                if c.levels_held == 0 {
                                    let writer = self.holders.get(&(Cl::Mgr, 0)).map(|h| h.iter().any(|x| !x.1)).unwrap_or(false);
                                    if e.sub && !c.two_levels && writer {
                                        ctx.count("row.levelWorker");
                                    }
                                    c.two_levels = false;
                                }
                            }
                            Cl::GcOngoing => c.gc = false,
                            _ => {}
                        }
                        self.emit(format!("rel {tid} {} {}{}", cl_name(l.0), l.1, rep_held(&held)), ctx, true);
                    }
                    vl::Kind::Wait => {
                        let hs = self.holders.entry(l).or_default();
                        if let Some(p) = hs.iter().position(|h| h.0 == tid) {
                            hs.remove(p);
                        }
                        ctx.count(if l.0 == Cl::GcSignal { "row.gcThread.wait" } else { "row.sortWorker.wait" });
                        self.emit(format!("wait {tid} {} {}{}", cl_name(l.0), l.1, rep_held(&held)), ctx, true);
                    }
                    vl::Kind::WaitEnd => {
                        let hs = self.holders.entry(l).or_default();
                        if !hs.is_empty() && !self.multi_mgr {
                            ctx.fail("mutual-exclusion", &format!("thread {tid} re-acquires {}:{} after a condvar wait while the log shows holders {:?}", cl_name(l.0), l.1, hs));
                        }
                        hs.push((tid, false));
                    }
                    vl::Kind::JoinBegin(k) => {
                        c.joined = true;
                        ctx.count(match (k, e.sub) {
                            (vl::JoinKind::Join, false) => "micro.fork(join)",
                            (vl::JoinKind::Join, true) => "sub.fork(join)",
                            (vl::JoinKind::Install, _) => "join.install",
                            (vl::JoinKind::Broadcast, false) => "row.reorder.broadcast",
                            (vl::JoinKind::Broadcast, true) => "sub.broadcast",
                        });
                        if e.sub && k == vl::JoinKind::Join {
                            ctx.count("row.subTask");
                        }
                        self.emit(format!("join {tid}{}", rep_held(&held)), ctx, true);
                    }
                    vl::Kind::JoinEnd(_) => {}
                }
            }
        }

        /// (3) after a line: application and pool threads hold nothing
        fn check_quiescent(&mut self, ctx: &mut Ctx, what: &str) {
            for (tid, t) in &self.rp.th {
                if self.is_gc(*tid) {
                    continue; // may be collecting right now / sits in `wait` "holding" gc_signal
                }
                if !t.held.is_empty() {
                    ctx.fail("held-after-op", &format!("after `{what}` thread {tid} ({}) still holds{}", self.names.get(tid).map(|s| s.as_str()).unwrap_or("?"), fmt_held(&t.held)));
                }
            }
            let mine = vl::held();
            if !mine.is_empty() {
                ctx.fail("held-after-op", &format!("after `{what}` the hook's stack of the main thread is not empty: {:?}", mine));
            }
        }

        fn flush_case(&mut self) {
            for c in std::mem::take(&mut self.ctxs) {
                self.buf.push(c.clone());
                self.ctx_all.insert(c);
            }
            if let Some(f) = &mut self.trace_out {
                if !self.buf.is_empty() {
                    let mut s = String::new();
                    s.push_str(&self.header);
                    s.push('\n');
                    for l in self.buf.drain(..) {
                        s.push_str(&l);
                        s.push('\n');
                    }
                    let _ = f.write_all(s.as_bytes());
                    let _ = f.flush();
                }
            }
            self.buf.clear();
        }
    }

    impl Scenario for Real {
        fn reset(&mut self) {
            self.flush_case();
            if let Some(mut e) = self.eng.take() {
                e.fin(false);
            }
            // wait a moment for a gc thread of the previous case, then forget everything
            std::thread::sleep(Duration::from_millis(2));
            let _ = vl::take_events();
            for (id, name) in vl::thread_names() {
                if name.starts_with("oxidd") {
                    self.stale.insert(id as u64);
                }
            }
            self.rp = Replay::default();
            self.last_sub.clear();
            self.holders.clear();
            self.cov.clear();
            self.events_case = 0;
        }

        fn step(&mut self, line: &str, ctx: &mut Ctx) -> String {
            self.header = ctx.case.clone();
            let w = words(line);
            vl::enable(true);
            let mut st: BTreeMap<&'static str, u64> = BTreeMap::new();
            match w[0] {
                "mgr" => {
                    // mgr <kind> <nodes> <cache> <workers> <split depth> <nvars> <maxvars>
                    let nodes: usize = w[2].parse().unwrap();
                    let cache: usize = w[3].parse().unwrap();
                    let workers: u32 = w[4].parse().unwrap();
                    let sd: Option<u32> = if w[5] == "auto" { None } else { Some(w[5].parse().unwrap()) };
                    let nvars: u32 = w[6].parse().unwrap();
                    let maxvars: u64 = w[7].parse().unwrap();
                    let nb = cache.checked_next_power_of_two().unwrap() as u64;
                    let mut dl = vec![format!("dims {nb} {maxvars}")];
                    for c in CLASSES {
                        dl.push(format!("rank {} 0", cl_name(c)));
                        dl.push(format!("prot {}", cl_name(c)));
                    }
                    dl.push(format!("rank bucket {}", nb - 1));
                    dl.push(format!("rank level {}", maxvars.saturating_sub(1)));
                    dl.push("submin".into());
                    for l in dl {
                        self.emit(l, ctx, false);
                    }
                    self.eng = Some(match w[1] {
                        "bdd" => Box::new(Eng::<KBdd>::new(nodes, cache, workers, sd, nvars)) as Box<dyn Engine>,
                        "bcdd" => Box::new(Eng::<KBcdd>::new(nodes, cache, workers, sd, nvars)),
                        "zbdd" => Box::new(Eng::<KZbdd>::new(nodes, cache, workers, sd, nvars)),
                        "mtbdd" => Box::new(Eng::<KMtbdd>::new(nodes, cache, workers, sd, nvars)),
                        _ => return "bad-op".into(),
                    });
                    ctx.count(&format!("kind.{}", w[1]));
                    ctx.count("row.handleClone"); // `vars`: handles are cloned into the pools later
                }
                "par" => {
                    let threads: u64 = w[1].parse().unwrap();
                    let nops: u64 = w[2].parse().unwrap();
                    let seed: u64 = w[3].parse().unwrap();
                    let wr = w[4].strip_prefix("w=").unwrap();
                    self.eng.as_mut().unwrap().par(threads, nops, seed, wr, &mut st);
                    ctx.count(&format!("par.threads-{threads}"));
                    if wr != "-" {
                        ctx.count("par.with-writer");
                    }
                }
                "reorder" => {
                    let seed: u64 = w[1].parse().unwrap();
                    let zbdd = ctx.case.contains("-zbdd-");
                    self.eng.as_mut().unwrap().reorder(seed, zbdd);
                    st.insert("op.set_var_order", 1);
                }
                "addvars" => {
                    self.eng.as_mut().unwrap().add_vars(w[1].parse().unwrap());
                    st.insert("op.add_vars", 1);
                }
                "gc" => {
                    self.eng.as_mut().unwrap().gc();
                    st.insert("op.gc", 1);
                }
                "big" => {
                    // The construction itself is not traced (about a million events of the kind the
                    // other cases contain). The log may only be switched off while nothing changes
                    // hands: only the main thread runs, and the gc thread must already sit in its
                    // `wait` (it stays there: the store is far from its high-water mark).
                    let t0 = Instant::now();
                    loop {
                        let evs = vl::take_events();
                        self.absorb(evs, ctx);
                        let waiting = self.rp.th.iter().any(|(t, th)| self.is_gc(*t) && th.held == [(Cl::GcSignal, 0)]);
                        if waiting || t0.elapsed() > Duration::from_secs(5) {
                            break;
                        }
                        std::thread::sleep(Duration::from_micros(100));
                    }
                    vl::enable(false);
                    let ok = self.eng.as_mut().unwrap().big(w[1].parse().unwrap());
                    vl::enable(true);
                    ctx.count(if ok { "big.built" } else { "big.failed" });
                }
                "reorder-interleaved" => {
                    self.eng.as_mut().unwrap().reorder_interleaved();
                    st.insert("op.set_var_order", 1);
                    ctx.count("big.reordered");
                }
                "droprace" => {
                    // `droprace <n>`: n times: a fresh manager, two `ManagerRef`s (besides the gc
                    // thread's) dropped at the same moment by two threads. Exactly one of the two
                    // drops must signal `Quit` (it does so inside `drop`, i.e. before the threads
                    // are joined), otherwise the gc thread, the store and the pool live forever.
                    use std::sync::atomic::{AtomicU32, Ordering::SeqCst};
                    let n: u64 = w[1].parse().unwrap();
                    let mut lost = 0u64;
                    self.multi_mgr = true;
                    for _ in 0..n {
                        let mref = <KBdd as LK>::new_manager(1024, 4, 1);
                        let m2 = mref.clone();
                        let go = AtomicU32::new(0);
                        std::thread::scope(|s| {
                            let g = &go;
                            s.spawn(move || {
                                g.fetch_add(1, SeqCst);
                                while g.load(SeqCst) < 2 {
                                    std::hint::spin_loop()
                                }
                                drop(m2)
                            });
                            while go.load(SeqCst) < 1 {
                                std::hint::spin_loop()
                            }
                            go.fetch_add(1, SeqCst);
                            drop(mref);
                        });
                        let evs = vl::take_events();
                        let sig: Vec<u64> = evs.iter().filter(|e| e.class == vl::Class::GcSignal && matches!(e.kind, vl::Kind::Acq { .. })).map(|e| e.thread as u64).collect();
                        self.absorb(evs, ctx);
                        if !sig.iter().any(|t| self.names.get(t).map(|n| n != "oxidd mi gc").unwrap_or(true)) {
                            lost += 1;
                        }
                    }
                    self.multi_mgr = false;
                    self.holders.clear();
                    ctx.add("droprace.iterations", n);
                    ctx.add("droprace.quit-lost", lost);
                    // Observation, not an oracle: when two threads drop the last two `ManagerRef`s at the
                    // same moment both may read `Arc::strong_count == 3` in `ManagerRef::drop`, neither
                    // signals `Quit`, and the gc thread, store and pool are never released. No property
                    // of the list speaks about tearing the manager down, so this is only counted
                    // (`droprace.quit-lost`; see DESIGN.md §0.4 and proposed_fixes/locks-1.diff).
                    self.flush_case();
                    ctx.stats.insert("ctx.distinct-contexts-so-far".into(), self.ctx_all.len() as u64);
                    return "ok".into();
                }
                "fin" | "fin2" => {
                    let main_tid = vl::current_thread() as u64;
                    let mut e = self.eng.take().unwrap();
                    // everything logged so far belongs to earlier lines
                    let evs = vl::take_events();
                    self.absorb(evs, ctx);
                    e.fin(w[0] == "fin2");
                    drop(e);
                    // the gc thread must see `Quit` and leave: its release of gc_signal after the
                    // last `ManagerRef`'s Quit signal
                    let t0 = Instant::now();
                    let mut quit_seen = false;
                    let mut gone = false;
                    while t0.elapsed() < Duration::from_secs(5) {
                        let evs = vl::take_events();
                        self.refresh_names();
                        for ev in &evs {
                            let by_gc = self.is_gc(ev.thread as u64);
                            if ev.class == vl::Class::GcSignal && !by_gc && matches!(ev.kind, vl::Kind::Acq { .. }) {
                                quit_seen = true;
                            }
                            if quit_seen && by_gc && ev.class == vl::Class::GcSignal && ev.kind == vl::Kind::Rel {
                                gone = true;
                            }
                        }
                        self.absorb(evs, ctx);
                        if gone {
                            break;
                        }
                        std::thread::sleep(Duration::from_micros(200));
                    }
                    let _ = main_tid;
                    if !quit_seen {
                        ctx.fail("gc-thread-leak", "the last `ManagerRef`s were dropped but no thread signalled `Quit` to the gc thread (the `strong_count == 2` test of `ManagerRef::drop` raced): gc thread, store and worker pool are never released");
                    } else if !gone {
                        ctx.fail("gc-thread-stuck", "`Quit` was signalled but the gc thread did not leave its loop within 5 s");
                    } else {
                        ctx.count("row.gcThread.quit");
                    }
                    if gone {
                        // complete traces: everything is released
                        let tids: Vec<u64> = self.rp.th.keys().copied().collect();
                        for t in tids {
                            let l = format!("end {t}");
                            let v = self.rp.step_line(&l);
                            if v != "ok" {
                                ctx.fail("held-after-op", &format!("at the end of the case: {v} (thread {t})"));
                            }
                            if self.events_case < self.cap {
                                self.buf.push(l);
                            }
                        }
                    }
                    self.flush_case();
                    ctx.stats.insert("ctx.distinct-contexts-so-far".into(), self.ctx_all.len() as u64);
                    return "ok".into();
                }
                _ => return "bad-op".into(),
            }
            for (k, v) in st {
                ctx.add(k, v);
                if k == "op.clone" {
                    ctx.add("row.handleClone", v);
                }
            }
            let evs = vl::take_events();
            self.absorb(evs, ctx);
            self.check_quiescent(ctx, line);
            "ok".into()
        }
    }

    pub fn make(f: &BTreeMap<String, String>) -> Box<dyn Scenario> {
        let path = f.get("trace-out").cloned().or_else(|| f.get("oracle-out").map(|p| format!("{p}.trace")));
        let trace_out = path.and_then(|p| std::fs::File::create(p).ok());
        Box::new(Real {
            eng: None,
            rp: Replay::default(),
            buf: Vec::new(),
            trace_out,
            last_sub: HashMap::new(),
            holders: HashMap::new(),
            multi_mgr: false,
            stale: Default::default(),
            cov: HashMap::new(),
            names: HashMap::new(),
            events_case: 0,
            cap: f.get("trace-cap").and_then(|s| s.parse().ok()).unwrap_or(250_000),
            header: String::new(),
            ctxs: Default::default(),
            ctx_all: Default::default(),
        })
    }
}

fn make(f: &BTreeMap<String, String>) -> Box<dyn Scenario> {
    if f.get("mode").map(|s| s.as_str()) == Some("trace") {
        Box::new(TraceSc { rp: Replay::default() })
    } else {
        real::make(f)
    }
}

fn main() {
    harness_main(generate, make)
}
