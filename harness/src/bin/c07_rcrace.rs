//! C05/C07: handle clone/drop "on any thread" keeps the reference counts exact.
//!
//! Oracle-only scenario. Several threads clone and drop handles of ONE node (an inner node, or an
//! MTBDD terminal) at the same moment behind a spin barrier; no manager lock is involved in
//! `Function::clone` / `drop`, so the counter updates themselves have to be atomic
//! read-modify-write operations. Afterwards the node must be referenced exactly by the handles
//! the main thread still owns:
//!   * `ref_count()` of the root node equals the number of live handles (inner nodes),
//!   * the node survives every collection as long as one handle is alive (`rc-too-low`),
//!   * after the last handle is gone a collection returns the manager to its baseline node and
//!     terminal counts (`rc-too-high`).
//! The main thread keeps more handles alive than all threads together perform clone operations,
//! so that a lost update can never drive the counter to zero while the threads are running.
//!
//! lines: `rcrace <kind> <inner|term> <threads> <rounds>` → `ok`
use std::collections::BTreeMap;
use std::io::Write;
use std::sync::atomic::{AtomicUsize, Ordering};

use oxidd::{BooleanFunction, Function, InnerNode, Manager, ManagerRef};
use oxv::*;

struct Sc;

fn spin_barrier(b: &AtomicUsize, n: usize) {
    b.fetch_add(1, Ordering::SeqCst);
    while b.load(Ordering::SeqCst) < n {
        std::hint::spin_loop();
    }
}

/// generic part: `h` is the handle under test, `counts()` = (inner nodes, terminals) after a gc
fn race<F: Function + Send + Sync>(
    ctx: &mut Ctx,
    what: &str,
    h: F,
    threads: usize,
    rounds: usize,
    counts: &dyn Fn() -> (usize, usize),
    base: (usize, usize),
    root_rc: &dyn Fn(&F) -> Option<usize>,
) {
    const SLACK: usize = 48;
    let with = counts();
    let headroom = threads * rounds + SLACK;
    let mut keep: Vec<F> = (0..headroom).map(|_| h.clone()).collect();
    if let Some(rc) = root_rc(&h) {
        if rc != headroom + 1 {
            ctx.fail("rc-seq", &format!("{what}: {} handles, ref_count {}", headroom + 1, rc));
        }
    }
    let b = AtomicUsize::new(0);
    std::thread::scope(|s| {
        for t in 0..threads {
            let (h, b) = (&h, &b);
            s.spawn(move || {
                spin_barrier(b, threads);
                for i in 0..rounds {
                    let c = h.clone();
                    if (i + t) % 3 == 0 {
                        let d = c.clone();
                        drop(c);
                        drop(d);
                    } else {
                        drop(c);
                    }
                }
            });
        }
    });
    ctx.add("rcrace.clone-drop-pairs", (threads * rounds) as u64);
    if let Some(rc) = root_rc(&h) {
        if rc != headroom + 1 {
            ctx.fail("rc-after-race", &format!("{what}: {threads} threads x {rounds} clone/drop pairs on one node; {} handles are alive, ref_count reports {}", headroom + 1, rc));
        }
    }
    keep.truncate(SLACK);
    // give the remaining handles up one by one; the node has to stay until the very last one
    while let Some(f) = keep.pop() {
        drop(f);
        let now = counts();
        if now != with {
            let alive = keep.len() + 1;
            ctx.fail("rc-too-low", &format!("{what}: node collected although {alive} handles are alive: (inner, terminals) = {:?}, expected {:?}", now, with));
            // the handles are dangling now: never touch them again
            std::mem::forget(keep);
            std::mem::forget(h);
            return;
        }
    }
    drop(h);
    let end = counts();
    if end != base {
        ctx.fail("rc-too-high", &format!("{what}: all handles dropped, after gc (inner, terminals) = {:?}, baseline {:?}", end, base));
    }
}

macro_rules! boolean_kind {
    ($ctx:expr, $what:expr, $threads:expr, $rounds:expr, $fty:ty, $mref:expr) => {{
        let mref = $mref;
        let counts = || {
            mref.with_manager_shared(|m| {
                m.gc();
                (m.num_inner_nodes(), m.num_terminals())
            })
        };
        mref.with_manager_exclusive(|m| {
            m.add_vars(3);
        });
        let base = counts();
        let f = mref.with_manager_shared(|m| {
            let x0 = <$fty>::var(m, 0).unwrap();
            let x1 = <$fty>::var(m, 1).unwrap();
            let x2 = <$fty>::var(m, 2).unwrap();
            x0.and(&x1).unwrap().xor(&x2).unwrap()
        });
        let rc = |f: &$fty| f.with_manager_shared(|m, e| match m.get_node(e) { oxidd::Node::Inner(n) => Some(n.ref_count()), _ => None });
        // `ref_count()` counts the references besides the unique table's own
        race($ctx, $what, f, $threads, $rounds, &counts, base, &|f| rc(f).map(|r| r + 0));
    }};
}

impl Scenario for Sc {
    fn reset(&mut self) {}
    fn step(&mut self, line: &str, ctx: &mut Ctx) -> String {
        let w = words(line);
        let bad = "bad-op".to_string();
        if w.len() != 5 || w[0] != "rcrace" {
            return bad;
        }
        let (Ok(threads), Ok(rounds)) = (w[3].parse::<usize>(), w[4].parse::<usize>()) else { return bad };
        if threads == 0 || threads > 64 || rounds > 1_000_000 {
            return bad;
        }
        let what = format!("{} {}", w[1], w[2]);
        ctx.count(&format!("rcrace.{}.{}", w[1], w[2]));
        match (w[1], w[2]) {
            ("bdd", "inner") => boolean_kind!(ctx, &what, threads, rounds, oxidd::bdd::BDDFunction, oxidd::bdd::new_manager(1024, 1024, 1)),
            ("bcdd", "inner") => boolean_kind!(ctx, &what, threads, rounds, oxidd::bcdd::BCDDFunction, oxidd::bcdd::new_manager(1024, 1024, 1)),
            ("zbdd", "inner") => boolean_kind!(ctx, &what, threads, rounds, oxidd::zbdd::ZBDDFunction, oxidd::zbdd::new_manager(1024, 1024, 1)),
            ("tdd", "inner") => {
                use oxidd::tdd::TDDFunction;
                use oxidd::TVLFunction;
                let mref = oxidd::tdd::new_manager(1024, 1024, 1);
                let counts = || {
                    mref.with_manager_shared(|m| {
                        m.gc();
                        (m.num_inner_nodes(), m.num_terminals())
                    })
                };
                mref.with_manager_exclusive(|m| {
                    m.add_vars(2);
                });
                let base = counts();
                let f = mref.with_manager_shared(|m| {
                    let x0 = TDDFunction::var(m, 0).unwrap();
                    let x1 = TDDFunction::var(m, 1).unwrap();
                    x0.and(&x1).unwrap()
                });
                let rc = |f: &TDDFunction| f.with_manager_shared(|m, e| match m.get_node(e) { oxidd::Node::Inner(n) => Some(n.ref_count()), _ => None });
                race(ctx, &what, f, threads, rounds, &counts, base, &|f| rc(f));
            }
            ("mtbdd", k @ ("inner" | "term")) => {
                use oxidd::mtbdd::terminal::I64;
                use oxidd::mtbdd::MTBDDFunction;
                use oxidd::PseudoBooleanFunction;
                let mref = oxidd::mtbdd::new_manager::<I64>(1024, 1024, 1024, 1);
                let counts = || {
                    mref.with_manager_shared(|m| {
                        m.gc();
                        (m.num_inner_nodes(), m.num_terminals())
                    })
                };
                mref.with_manager_exclusive(|m| {
                    m.add_vars(2);
                });
                let base = counts();
                let f = mref.with_manager_shared(|m| {
                    if k == "term" {
                        MTBDDFunction::constant(m, I64::Num(42)).unwrap()
                    } else {
                        let x0 = MTBDDFunction::<I64>::var(m, 0).unwrap();
                        let c = MTBDDFunction::constant(m, I64::Num(7)).unwrap();
                        x0.add(&c).unwrap()
                    }
                });
                let rc = |f: &MTBDDFunction<I64>| f.with_manager_shared(|m, e| match m.get_node(e) { oxidd::Node::Inner(n) => Some(n.ref_count()), _ => None });
                race(ctx, &what, f, threads, rounds, &counts, base, &|f| rc(f));
            }
            _ => return bad,
        }
        "ok".to_string()
    }
}

fn generate(cfg: &GenCfg, rng: &mut Rng, w: &mut dyn Write) {
    let rounds = if cfg.thorough { 60_000 } else { 12_000 };
    let mut i = 0;
    for (kind, whats) in [("mtbdd", &["term", "inner"][..]), ("bdd", &["inner"][..]), ("bcdd", &["inner"][..]), ("zbdd", &["inner"][..]), ("tdd", &["inner"][..])] {
        for what in whats {
            for rep in 0..(if cfg.thorough { 3 } else { 1 }) {
                let threads = if rep == 0 { 8 } else { 2 + rng.below(14) };
                writeln!(w, "case rcrace-{}-{}-{}", kind, what, i).unwrap();
                writeln!(w, "rcrace {} {} {} {}", kind, what, threads, rounds).unwrap();
                i += 1;
            }
        }
    }
    writeln!(w, "case malformed").unwrap();
    writeln!(w, "rcrace bdd term 2 10").unwrap();
    writeln!(w, "rcrace").unwrap();
}

fn make(_f: &BTreeMap<String, String>) -> Box<dyn Scenario> {
    Box::new(Sc)
}

fn main() {
    harness_main(generate, make)
}
