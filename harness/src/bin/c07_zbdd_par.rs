//! C07 for ZBDDs: the parallel set operations (worker pools of 2..8 threads, forking
//! `ParallelRecursor` of `oxidd-rules-zbdd`) ≡ the sequential ones, on the real code, against the
//! store-level counter model.
//!
//! `c07_zbdd_par gen --tier .. --seed ..` writes histories over 6–12 variables in the line syntax of
//! the `zbdd-rc` protocol (`mgr`, `const`, `zconst`, `var`, `singleton`, `union`/`intsec`/`diff`,
//! `op <name> not|and|or|xor …`, `subset0`/`subset1`/`change`, `clone`, `drop`, `dropall`, `gc`,
//! `dump`, `rc`, `ninner`, `eq`, `audit`; no `addvars`/`reorder-nop`). The `mgr` line carries one
//! extra word `pool=1:0,2:auto,4:auto,8:3,…` (ignored by the Lean driver, which reads `vars=` and
//! `nodes=` only): a list of `<workers>:<split depth>`; the first entry is always `1:0` (one
//! worker, split depth 0 = the `ParallelRecursor` hands over to the `SequentialRecursor` at once:
//! the sequential run).
//!
//! `c07_zbdd_par run` keeps ONE REAL ZBDD MANAGER PER POOL ENTRY (shared `Bf<KZbdd>` scenario, so
//! all of its oracles — family against the set-theoretic definition, canonicity against every live
//! handle, `eval` against the node walk, reference counts in `dump` incl. the tautology chain,
//! exact `gc` — run in every manager), replays every line in all of them and prints the output of
//! the FIRST (sequential) manager (`--print last`: of the last one). The Lean protocol `zbdd-rc`
//! (counter model `Zbdd/RcS.lean`) must print the identical stream: canonical tree of every
//! result, the complete store (garbage and chain included) with reference counts at `dump`.
//!
//! Oracles of this scenario (all on the implementation, independent of the model):
//! * `par-vs-seq-diagram`   every line's canonical output (result tree `B`/`E`/`(v<var> hi lo)`,
//!   the sorted store dump with `ref_count()`, `gc`/`ninner`/`rc`/`eq` answers) is the same in
//!   every manager as in the sequential one;
//! * `par-vs-seq-function`  characteristic table (node walk, ≤ 12 variables) of the result equal;
//! * `par-vs-seq-node-count` `node_count()` of the result equal;
//! * `par-vs-seq-store-size` `num_inner_nodes()` equal after every operation;
//! * `recompute-differs`    the same operation a second time in the same manager returns the
//!   identical edge (`==`);
//! * `concurrent-recompute-differs` three OS threads calling the same operation at the same moment
//!   (spin barrier) into the same manager — on top of the manager's own worker pool — all get the
//!   identical edge; `concurrent-changed-store` they leave the number of stored nodes unchanged
//!   (the three threads run for every operation with an operand of ≥ 4 nodes and for every 4th
//!   line otherwise).
//!
//! Whether an operation *really forked* is observed through the `oxidd_verif` event log
//! (`oxidd_core::util::verif_locks`): for one parallel manager per operation (rotating, because
//! the log serialises the workers) the `JoinBegin(Join)` events and the distinct threads that ran
//! sub-tasks are counted (`forked_ops*`, `joins_total`, `max_threads_in_one_op`).
#![allow(unexpected_cfgs)]
use std::collections::BTreeMap;
use std::io::Write;
use std::sync::atomic::{AtomicUsize, Ordering};

use oxidd::util::AllocResult;
use oxidd::zbdd::ZBDDFunction;
use oxidd::{BooleanFunction, BooleanVecSet, Function, Manager, ManagerRef};
use oxv::bf::Bf;
use oxv::kinds::KZbdd;
use oxv::*;

// ------------------------------------------------------------------------------------------------
// generator

const POOLS: [&str; 10] = [
    "1:0,2:auto,4:auto,8:auto",
    "1:0,2:auto,4:auto,8:auto",
    "1:0,3:auto,5:auto,7:auto",
    "1:0,2:1,4:2,8:3",
    "1:0,2:64,6:64,8:64",
    "1:0,1:64,2:auto,8:auto",
    "1:0,4:auto,4:4,8:2",
    "1:0,2:auto,3:auto,4:auto,5:auto,6:auto,7:auto,8:auto",
    "1:0,8:auto,8:auto,8:1",
    "1:0,2:3,4:auto,8:5",
];

/// one binary set operation line: `union|intsec|diff r a b` or `op r and|or|xor a b`
fn bin_line(rng: &mut Rng, name: &str, a: &str, b: &str, balanced: bool) -> String {
    // xor (symmetric difference) keeps the families balanced; union/intsec/diff are the emphasis
    let k = rng.below(100);
    let o = if balanced && k < 50 {
        "op-xor"
    } else {
        *rng.pick(&["union", "union", "intsec", "intsec", "diff", "diff", "diff", "op-and", "op-or", "op-xor"])
    };
    match o.strip_prefix("op-") {
        Some(b_op) => format!("op {} {} {} {}", name, b_op, a, b),
        None => format!("{} {} {} {}", o, name, a, b),
    }
}

fn gen_case(w: &mut dyn Write, rng: &mut Rng, idx: u64, n: u32, steps: usize, dump_mid: bool) {
    let pool_spec = POOLS[(idx % POOLS.len() as u64) as usize];
    let cache = *rng.pick(&[1usize, 2, 16, 1024, 4096]);
    writeln!(w, "case c07zp-{}-n{}-c{}", idx, n, cache).unwrap();
    writeln!(w, "mgr nodes=1048576 cache={} pool={} vars={}", cache, pool_spec, n).unwrap();
    let mut pool: Vec<String> = Vec::new();
    writeln!(w, "const cT T").unwrap();
    writeln!(w, "const cF F").unwrap();
    writeln!(w, "zconst cB base").unwrap();
    let mut vs: Vec<u32> = (0..n).collect();
    rng.shuffle(&mut vs);
    let mut xs: Vec<Vec<String>> = vec![Vec::new(), Vec::new()];
    for (i, &v) in vs.iter().enumerate() {
        writeln!(w, "var x{} {}", v, v).unwrap();
        pool.push(format!("x{v}"));
        xs[i % 2].push(format!("x{v}"));
        if rng.chance(2, 3) {
            writeln!(w, "singleton s{} {}", v, v).unwrap();
            pool.push(format!("s{v}"));
        }
    }
    // big: the results of earlier steps (preferred as operands, so that the diagrams grow)
    let mut big: Vec<String> = Vec::new();
    let pick = |rng: &mut Rng, pool: &Vec<String>, big: &Vec<String>| -> String {
        if !big.is_empty() && rng.chance(4, 5) {
            let k = big.len();
            let lo = if rng.chance(3, 4) { k.saturating_sub(6) } else { 0 };
            big[lo + rng.below((k - lo) as u64) as usize].clone()
        } else if rng.chance(1, 30) {
            (*rng.pick(&["cT", "cF", "cB"])).to_string()
        } else {
            rng.pick(pool).clone()
        }
    };
    // phase S: sparse families — single sets built with `change` from {∅}, collected with `union`
    // (the classical use of ZBDDs); u0 ⊂ u1 ⊂ … grow by one or two sets per step
    let nsets = n as usize + 2;
    let mut fams: Vec<String> = Vec::new();
    for s in 0..nsets {
        let mut cur = "cB".to_string();
        let size = 1 + rng.below(3);
        let mut els = vs.clone();
        rng.shuffle(&mut els);
        for (j, v) in els.iter().take(size as usize).enumerate() {
            let nm = if j + 1 == size as usize { format!("t{s}") } else { "tt".to_string() };
            writeln!(w, "change {} {} {}", nm, cur, v).unwrap();
            cur = nm;
        }
        let prev = match fams.last() {
            Some(p) if s % (nsets / 2) != 0 => p.clone(),
            _ => "cF".to_string(),
        };
        let nm = format!("u{s}");
        writeln!(w, "union {} {} {}", nm, prev, cur).unwrap();
        fams.push(nm.clone());
        big.push(nm);
    }
    // phase A: two families of Boolean combinations over interleaved halves of the variables;
    // combining members of different families multiplies the diagram sizes
    if n >= 8 {
        let mut fam: Vec<Vec<String>> = vec![Vec::new(), Vec::new()];
        for s in 0..(2 * (n as usize + 2)) {
            let g = s % 2;
            let name = format!("a{s}");
            let opd = |rng: &mut Rng, fam: &Vec<String>| -> String {
                if !fam.is_empty() && rng.chance(3, 5) { fam[fam.len().saturating_sub(4) + rng.below(fam.len().min(4) as u64) as usize].clone() } else { rng.pick(&xs[g]).clone() }
            };
            let (a, b) = (opd(rng, &fam[g]), opd(rng, &fam[g]));
            writeln!(w, "{}", bin_line(rng, &name, &a, &b, true)).unwrap();
            fam[g].push(name.clone());
            big.push(name);
        }
        // cross products: one operand of each family, or a sparse family against a dense one
        for s in 0..14 {
            let name = format!("b{s}");
            let a = fam[0][fam[0].len() - 1 - rng.below(5) as usize].clone();
            let b = if s % 5 == 4 { rng.pick(&fams).clone() } else { fam[1][fam[1].len() - 1 - rng.below(5) as usize].clone() };
            let (a, b) = if rng.chance(1, 2) { (a, b) } else { (b, a) };
            writeln!(w, "{}", bin_line(rng, &name, &a, &b, true)).unwrap();
            big.push(name);
        }
        // phase D: dense families — (b_i ∘ b_j) Δ b_k mixes all variables; both operands of the
        // symmetric difference are large and start on the same level
        for s in 0..6 {
            let k = big.len();
            let (a, b, c) = (big[k - 1 - rng.below(8) as usize].clone(), big[k - 1 - rng.below(8) as usize].clone(), big[k - 1 - rng.below(12) as usize].clone());
            let o = *rng.pick(&["union", "intsec", "diff"]);
            writeln!(w, "{} e{} {} {}", o, s, a, b).unwrap();
            writeln!(w, "op d{} xor e{} {}", s, s, c).unwrap();
            big.push(format!("d{s}"));
        }
    }
    for s in 0..steps {
        let k = rng.below(100);
        // mostly fresh names (growing pool), sometimes an overwritten register
        let name = if rng.chance(1, 10) && !big.is_empty() { rng.pick(&big).clone() } else { format!("g{s}") };
        let mut newname = false;
        if k < 66 {
            let (a, b) = (pick(rng, &pool, &big), pick(rng, &pool, &big));
            writeln!(w, "{}", bin_line(rng, &name, &a, &b, true)).unwrap();
            newname = true;
        } else if k < 72 {
            let a = pick(rng, &pool, &big);
            writeln!(w, "op {} not {}", name, a).unwrap();
            newname = true;
        } else if k < 80 {
            let a = pick(rng, &pool, &big);
            let o = *rng.pick(&["subset0", "subset1", "change", "change"]);
            writeln!(w, "{} {} {} {}", o, name, a, rng.below(n as u64)).unwrap();
            newname = true;
        } else if k < 83 {
            let a = pick(rng, &pool, &big);
            writeln!(w, "clone {} {}", name, a).unwrap();
            newname = true;
        } else if k < 89 {
            if big.len() > 4 {
                let i = rng.below(big.len() as u64) as usize;
                let d = big.remove(i);
                writeln!(w, "drop {}", d).unwrap();
            }
        } else if k < 92 {
            writeln!(w, "gc").unwrap();
        } else if k < 94 {
            writeln!(w, "rc {}", pick(rng, &pool, &big)).unwrap();
        } else if k < 96 {
            writeln!(w, "ninner").unwrap();
        } else if k < 99 {
            writeln!(w, "eq {} {}", pick(rng, &pool, &big), pick(rng, &pool, &big)).unwrap();
        } else {
            writeln!(w, "audit").unwrap();
        }
        if newname && !big.contains(&name) {
            big.push(name);
        }
        if dump_mid && s % 16 == 15 {
            writeln!(w, "dump").unwrap();
        }
    }
    writeln!(w, "ninner").unwrap();
    if dump_mid || n <= 8 {
        writeln!(w, "dump").unwrap();
    }
    // leave three handles, collect, and dump what is left (small)
    while big.len() > 3 {
        let d = big.pop().unwrap();
        writeln!(w, "drop {}", d).unwrap();
    }
    writeln!(w, "gc").unwrap();
    if n <= 9 {
        writeln!(w, "dump").unwrap();
    }
    writeln!(w, "dropall").unwrap();
    writeln!(w, "gc").unwrap();
    writeln!(w, "dump").unwrap();
}

fn generate(cfg: &GenCfg, rng: &mut Rng, w: &mut dyn Write) {
    let cases = if cfg.thorough { 200 } else { 30 } * cfg.scale;
    for c in 0..cases {
        // 6..=12 variables; the larger ones rarer (their trees are long lines)
        let n = match c % 12 {
            0 | 1 => 6,
            2 | 3 => 7,
            4 | 5 => 8,
            6 | 7 => 9,
            8 => 10,
            9 => 11,
            10 => if cfg.thorough { 12 } else { 10 },
            _ => 8,
        } as u32;
        let steps = match n {
            6 | 7 => 50,
            8 | 9 => 60,
            _ => 70,
        };
        gen_case(w, rng, c, n, steps, n <= 7);
    }
}

// ------------------------------------------------------------------------------------------------
// scenario

type F = ZBDDFunction;

struct Par {
    /// which manager's output is printed: an index, or `last` (run argument `--print`, default 0 =
    /// the sequential manager). All managers must print the same (oracle `par-vs-seq-diagram`), so
    /// with `--print last` the model is compared with a run of the largest worker pool directly.
    print: String,
    ms: Vec<Bf<KZbdd>>,
    /// (workers, split) per manager
    spec: Vec<(u32, String)>,
    extra: BTreeMap<String, String>,
}

/// the operation of a line once more: `kind` = `union|intsec|diff|and|or|xor|not|subset0|subset1|change`
fn apply_named(kind: &str, a: &[&F], var: Option<u32>) -> Option<AllocResult<F>> {
    Some(match (kind, a.len(), var) {
        ("not", 1, None) => a[0].not(),
        ("and", 2, None) => a[0].and(a[1]),
        ("or", 2, None) => a[0].or(a[1]),
        ("xor", 2, None) => a[0].xor(a[1]),
        ("union", 2, None) => a[0].union(a[1]),
        ("intsec", 2, None) => a[0].intsec(a[1]),
        ("diff", 2, None) => a[0].diff(a[1]),
        ("subset0", 1, Some(v)) => a[0].subset0(v),
        ("subset1", 1, Some(v)) => a[0].subset1(v),
        ("change", 1, Some(v)) => a[0].change(v),
        _ => return None,
    })
}

fn ninner(b: &Bf<KZbdd>) -> usize {
    b.mref().with_manager_shared(|m| m.num_inner_nodes())
}

#[cfg(oxidd_verif)]
mod ev {
    use oxidd_core::util::verif_locks as vl;
    pub fn begin() {
        let _ = vl::take_events();
        vl::enable(true);
    }
    /// (number of `join` calls, distinct threads that ran sub-tasks of the pool)
    pub fn end() -> (u64, u64) {
        vl::enable(false);
        let evs = vl::take_events();
        let mut joins = 0u64;
        let mut threads = std::collections::BTreeSet::new();
        for e in &evs {
            if let vl::Kind::JoinBegin(vl::JoinKind::Join) = e.kind {
                joins += 1;
            }
            if e.sub {
                threads.insert(e.thread);
            }
        }
        (joins, threads.len() as u64)
    }
}
#[cfg(not(oxidd_verif))]
mod ev {
    pub fn begin() {}
    pub fn end() -> (u64, u64) {
        (0, 0)
    }
}

impl Par {
    fn printed<'a>(&self, outs: &'a [String]) -> &'a String {
        let k = if self.print == "last" { outs.len() - 1 } else { self.print.parse::<usize>().unwrap_or(0).min(outs.len() - 1) };
        &outs[k]
    }
    fn label(&self, i: usize) -> String {
        format!("manager #{} ({} workers, split {})", i, self.spec[i].0, self.spec[i].1)
    }

    /// an operation line: `name` = result handle, `kind` = operation, `hs` = operand handles
    fn operation(&mut self, line: &str, name: &str, kind: &str, hs: &[&str], var: Option<u32>, ctx: &mut Ctx) -> String {
        let nm = self.ms.len();
        if let Some(v) = var {
            if v >= self.ms[0].n {
                return "bad-op".into();
            }
        }
        // the manager whose run is observed through the event log (a parallel one)
        let logged = if nm > 1 { 1 + (ctx.line_no as usize) % (nm - 1) } else { usize::MAX };
        let mut outs: Vec<String> = Vec::with_capacity(nm);
        // operand sizes in the sequential manager (before the operation: the result may overwrite
        // an operand's name)
        let opd_nodes: Vec<usize> = hs.iter().filter_map(|h| self.ms[0].h.get(*h).map(|f| f.node_count())).collect();
        let same_top = {
            let tops: Vec<String> = hs.iter().filter_map(|h| self.ms[0].h.get(*h).map(|f| self.ms[0].tree_of(f).split(' ').next().unwrap_or("").to_string())).collect();
            tops.len() == 2 && tops[0] == tops[1] && tops[0].starts_with("(v")
        };
        let operands: Vec<Vec<F>> = self.ms.iter().map(|b| hs.iter().filter_map(|h| b.h.get(*h).cloned()).collect()).collect();
        let class = match kind {
            "union" | "intsec" | "diff" => kind,
            "and" | "or" | "xor" => "bool",
            "not" => "not",
            _ => "subset",
        };
        for i in 0..nm {
            if i == logged {
                ev::begin();
            }
            let o = self.ms[i].step(line, ctx);
            if i == logged {
                let (joins, threads) = ev::end();
                ctx.add("joins_total", joins);
                if joins > 0 {
                    ctx.count("forked_ops");
                    ctx.count(&format!("forked_ops_{}_workers", self.spec[i].0));
                    ctx.count(&format!("forked_ops_{}", class));
                    if threads >= 2 {
                        ctx.count("forked_ops_on_2_or_more_threads");
                    }
                    let e = ctx.stats.entry("max_threads_in_one_op".into()).or_insert(0);
                    *e = (*e).max(threads);
                    let e = ctx.stats.entry("max_joins_in_one_op".into()).or_insert(0);
                    *e = (*e).max(joins);
                } else {
                    ctx.count("observed_ops_without_fork");
                }
            }
            outs.push(o);
        }
        self.compare(line, &outs, ctx);
        if outs[0] == "bad-op" || outs[0] == "OOM" {
            return self.printed(&outs).clone();
        }
        ctx.count(&format!("ops_{}", class));
        if same_top {
            ctx.count("binary_ops_with_operands_on_the_same_top_level");
        }
        if opd_nodes.iter().filter(|c| **c >= 8).count() >= 2 {
            ctx.count("ops_with_two_operands_of_8_or_more_nodes");
        }
        if opd_nodes.iter().filter(|c| **c >= 64).count() >= 2 {
            ctx.count("ops_with_two_operands_of_64_or_more_nodes");
        }
        let heavy = opd_nodes.iter().any(|c| *c >= 4);
        // function, node count, store size: parallel = sequential
        let tt0 = self.ms[0].tt.get(name).cloned();
        let nc0 = self.ms[0].h.get(name).map(|f| f.node_count());
        let ni0 = ninner(&self.ms[0]);
        if let Some(c) = nc0 {
            let e = ctx.stats.entry("max_result_nodes".into()).or_insert(0);
            *e = (*e).max(c as u64);
        }
        let e = ctx.stats.entry("max_stored_nodes".into()).or_insert(0);
        *e = (*e).max(ni0 as u64);
        for i in 1..nm {
            if outs[i] == "bad-op" || outs[i] == "OOM" {
                continue;
            }
            if self.ms[i].tt.get(name) != tt0.as_ref() {
                ctx.fail("par-vs-seq-function", &format!("`{}`: {} returns the family {} but the sequential manager returns {}", line, self.label(i), self.ms[i].tt.get(name).map(|t| t.hex()).unwrap_or_default(), tt0.as_ref().map(|t| t.hex()).unwrap_or_default()));
            }
            let nc = self.ms[i].h.get(name).map(|f| f.node_count());
            if nc != nc0 {
                ctx.fail("par-vs-seq-node-count", &format!("`{}`: node_count of the result is {:?} in {} but {:?} in the sequential manager", line, nc, self.label(i), nc0));
            }
            let ni = ninner(&self.ms[i]);
            if ni != ni0 {
                ctx.fail("par-vs-seq-store-size", &format!("`{}`: {} stores {} inner nodes afterwards, the sequential manager {}", line, self.label(i), ni, ni0));
            }
        }
        // the same operation again: sequentially, then from three OS threads at once
        for i in 0..nm {
            let res = match self.ms[i].h.get(name) {
                Some(f) => f.clone(),
                None => continue,
            };
            let opd: Vec<&F> = operands[i].iter().collect();
            if opd.len() != hs.len() {
                continue;
            }
            let before = ninner(&self.ms[i]);
            match apply_named(kind, &opd, var) {
                Some(Ok(r2)) => {
                    ctx.count("recomputations");
                    if r2 != res {
                        ctx.fail("recompute-differs", &format!("`{}`: the second computation in {} returns a different edge: {} instead of {}", line, self.label(i), self.ms[i].tree_of(&r2), outs[i]));
                    }
                }
                Some(Err(_)) => ctx.fail("recompute-differs", &format!("`{}`: the second computation in {} reports OutOfMemory", line, self.label(i))),
                None => {}
            }
            // three OS threads: always when an operand has ≥ 4 nodes, else on every 4th line
            if !heavy && ctx.line_no % 4 != 0 {
                let after = ninner(&self.ms[i]);
                if after != before {
                    ctx.fail("concurrent-changed-store", &format!("`{}`: recomputing it in {} changed the number of stored nodes from {} to {}", line, self.label(i), before, after));
                }
                continue;
            }
            const T: usize = 3;
            let gate = AtomicUsize::new(0);
            let rs: Vec<Option<AllocResult<F>>> = std::thread::scope(|s| {
                let hs: Vec<_> = (0..T)
                    .map(|_| {
                        let (gate, opd) = (&gate, &opd);
                        s.spawn(move || {
                            gate.fetch_add(1, Ordering::SeqCst);
                            while gate.load(Ordering::SeqCst) < T {
                                std::hint::spin_loop();
                            }
                            apply_named(kind, opd, var)
                        })
                    })
                    .collect();
                hs.into_iter().map(|h| h.join().expect("thread")).collect()
            });
            for r in rs {
                match r {
                    Some(Ok(r2)) => {
                        ctx.count("concurrent_recomputations");
                        if r2 != res {
                            ctx.fail("concurrent-recompute-differs", &format!("`{}`: one of {} OS threads computing it at the same moment in {} got a different edge: {} instead of {}", line, T, self.label(i), self.ms[i].tree_of(&r2), outs[i]));
                        }
                    }
                    Some(Err(_)) => ctx.fail("concurrent-recompute-differs", &format!("`{}`: a concurrent computation in {} reports OutOfMemory", line, self.label(i))),
                    None => {}
                }
            }
            let after = ninner(&self.ms[i]);
            if after != before {
                ctx.fail("concurrent-changed-store", &format!("`{}`: recomputing it in {} changed the number of stored nodes from {} to {}", line, self.label(i), before, after));
            }
        }
        self.printed(&outs).clone()
    }
}

impl Scenario for Par {
    fn reset(&mut self) {
        for m in &mut self.ms {
            m.reset();
        }
        self.ms.clear();
        self.spec.clear();
    }

    fn step(&mut self, line: &str, ctx: &mut Ctx) -> String {
        let w = words(line);
        match w[0] {
            "mgr" => {
                let pool = match w.iter().find_map(|x| x.strip_prefix("pool=")) {
                    Some(p) => p,
                    None => "1:0",
                };
                let mut spec: Vec<(u32, String)> = Vec::new();
                for it in pool.split(',') {
                    match it.split_once(':') {
                        Some((a, b)) if a.parse::<u32>().is_ok() && (b == "auto" || b.parse::<u32>().is_ok()) => spec.push((a.parse().unwrap(), b.to_string())),
                        _ => return "bad-op".into(),
                    }
                }
                if spec.is_empty() || spec[0] != (1, "0".to_string()) {
                    return "bad-op".into();
                }
                let rest: Vec<&str> = w[1..].iter().filter(|x| !x.starts_with("pool=") && !x.starts_with("threads=") && !x.starts_with("split=")).cloned().collect();
                self.ms.clear();
                let mut out0 = String::new();
                let mut distinct = std::collections::BTreeSet::new();
                for (i, (wk, sp)) in spec.iter().enumerate() {
                    let mut b = Bf::<KZbdd>::new(&self.extra);
                    let o = b.step(&format!("mgr {} threads={} split={}", rest.join(" "), wk, sp), ctx);
                    if i == 0 {
                        out0 = o;
                    }
                    self.ms.push(b);
                    ctx.count(&format!("managers_with_{}_workers", wk));
                    ctx.count(&format!("managers_with_split_{}", sp));
                    distinct.insert(*wk);
                }
                ctx.count(&format!("cases_with_{}_distinct_worker_counts", distinct.len()));
                self.spec = spec;
                out0
            }
            _ if self.ms.is_empty() => "bad-op".into(),
            "rc" if w.len() == 2 => {
                use oxidd::InnerNode;
                let outs: Vec<String> = self
                    .ms
                    .iter()
                    .map(|b| match b.h.get(w[1]) {
                        None => "bad-op".into(),
                        Some(f) => f.with_manager_shared(|m, e| match m.get_node(e) {
                            oxidd::Node::Inner(n) => n.ref_count().to_string(),
                            oxidd::Node::Terminal(_) => "-".into(),
                        }),
                    })
                    .collect();
                self.compare(line, &outs, ctx);
                self.printed(&outs).clone()
            }
            "ninner" => {
                let outs: Vec<String> = self.ms.iter().map(|b| ninner(b).to_string()).collect();
                self.compare(line, &outs, ctx);
                self.printed(&outs).clone()
            }
            "op" => {
                if w.len() < 4 || !matches!((w[2], w.len()), ("not", 4) | ("and" | "or" | "xor", 5)) {
                    return "bad-op".into();
                }
                self.operation(line, w[1], w[2], &w[3..], None, ctx)
            }
            "union" | "intsec" | "diff" if w.len() == 4 => self.operation(line, w[1], w[0], &w[2..], None, ctx),
            "subset0" | "subset1" | "change" if w.len() == 4 => match w[3].parse::<u32>() {
                Ok(v) => self.operation(line, w[1], w[0], &w[2..3], Some(v), ctx),
                Err(_) => "bad-op".into(),
            },
            "var" | "singleton" if w.len() == 3 && w[2].parse::<u32>().map(|v| v >= self.ms[0].n).unwrap_or(true) => "bad-op".into(),
            "const" | "zconst" | "var" | "singleton" | "clone" | "drop" | "dropall" | "gc" | "dump" | "show" | "eq" | "audit" => {
                let mut outs: Vec<String> = Vec::with_capacity(self.ms.len());
                for b in &mut self.ms {
                    outs.push(b.step(line, ctx));
                }
                self.compare(line, &outs, ctx);
                if w[0] == "dump" {
                    ctx.count("dumps_compared");
                    let k: u64 = outs[0].split(' ').next().and_then(|s| s.parse().ok()).unwrap_or(0);
                    let e = ctx.stats.entry("max_nodes_in_a_dump".into()).or_insert(0);
                    *e = (*e).max(k);
                }
                self.printed(&outs).clone()
            }
            _ => "bad-op".into(),
        }
    }
}

impl Par {
    fn compare(&self, line: &str, outs: &[String], ctx: &mut Ctx) {
        fn clip(s: &str) -> String {
            if s.len() > 400 { format!("{}… ({} bytes)", &s[..s.char_indices().map(|x| x.0).take_while(|i| *i <= 400).last().unwrap_or(0)], s.len()) } else { s.to_string() }
        }
        for i in 1..outs.len() {
            if outs[i] != outs[0] {
                ctx.fail("par-vs-seq-diagram", &format!("`{}`: {} prints {} but the sequential manager prints {}", line, self.label(i), clip(&outs[i]), clip(&outs[0])));
            }
        }
        ctx.add("outputs_compared_with_sequential", outs.len() as u64 - 1);
    }
}

fn make(f: &BTreeMap<String, String>) -> Box<dyn Scenario> {
    Box::new(Par { print: f.get("print").cloned().unwrap_or_else(|| "0".into()), ms: Vec::new(), spec: Vec::new(), extra: f.clone() })
}

fn main() {
    harness_main(generate, make)
}
