//! C08, "unnamed variables are placed so that the number of adjacent level swaps is minimal":
//! the statement `OxiddModel.Reorder.sortOrder_min_swaps` (Reorder/PropertiesMin.lean) proves about
//! the model of `sort_order`, evaluated on executions of the real `set_var_order` through the
//! public API. Oracle-only stream.
//!
//! After every `order` line the target assignment (level before ↦ level after) is reconstructed
//! from `level_to_var` before/after and
//!   * the requested relative order must hold (`order-not-established`),
//!   * for a total request the target is forced (`total-order-not-forced`),
//!   * its number of inversions (= adjacent swaps over *all* levels) must equal the minimum over
//!     all admissible orders: by brute force over all n! orders for n ≤ 8 (`swaps-not-minimal`),
//!     and for every n by the closed formula that the Lean proof establishes — inversions among
//!     the named levels plus, for every unnamed level, the cheapest gap of the named sequence —
//!     (`swaps-not-formula`; brute force and formula are also compared with each other,
//!     `formula-vs-bruteforce`),
//!   * the number of `level_swap` calls `set_var_order_common` performs (inversions among the
//!     non-empty levels) must not exceed that minimum (`ne-swaps-above-bound`).
//! Observation (counted, never a failure: the property counts adjacent swaps of levels, empty or
//! not): with empty levels the number of `level_swap` calls actually performed need not be
//! minimal among the admissible orders (counter `ne-not-minimal`, witness case
//! `obs-reorder-empty-levels`; Lean witness `nonempty_levels_not_minimal`).
//!
//! lines:  `mgr <n>` → `ok`;  `scramble <v>*` (total order, nothing alive) → `l2v …`;
//!         `live <v>*` (keep the parity of these variables alive, drop everything else, gc) → `ne <0|1>*`;
//!         `order <v>* [seq=1]` → `l2v … inv <all> ne <non-empty> min <minimum>`
use std::collections::BTreeMap;
use std::io::Write;

use oxidd::bdd::{BDDFunction, BDDManagerRef};
use oxidd::{BooleanFunction, Manager, ManagerRef};
use oxidd_core::LevelView;
use oxv::*;

struct Sc {
    mref: Option<BDDManagerRef>,
    n: u32,
    live: Option<BDDFunction>,
}

fn inversions(t: &[u32], keep: &[bool]) -> u64 {
    let mut c = 0;
    for a in 0..t.len() {
        if !keep[a] {
            continue;
        }
        for b in a + 1..t.len() {
            if keep[b] && t[a] > t[b] {
                c += 1;
            }
        }
    }
    c
}

/// minimum over all admissible orders by enumeration: (all levels, non-empty levels only)
fn brute_force(n: usize, input: &[u32], ne: &[bool]) -> (u64, u64) {
    let all = vec![true; n];
    let mut perm: Vec<u32> = (0..n as u32).collect();
    let mut best = (u64::MAX, u64::MAX);
    // Heap's algorithm
    let mut c = vec![0usize; n];
    let mut visit = |p: &[u32]| {
        if input.windows(2).all(|w| p[w[0] as usize] < p[w[1] as usize]) {
            best.0 = best.0.min(inversions(p, &all));
            best.1 = best.1.min(inversions(p, ne));
        }
    };
    visit(&perm);
    let mut i = 0;
    while i < n {
        if c[i] < i {
            if i % 2 == 0 {
                perm.swap(0, i);
            } else {
                perm.swap(c[i], i);
            }
            visit(&perm);
            c[i] += 1;
            i = 0;
        } else {
            c[i] = 0;
            i += 1;
        }
    }
    best
}

/// the closed formula proved in Lean: inversions among the named levels (forced) plus, for every
/// unnamed level, the least number of named levels it has to cross over all gaps
fn formula(n: usize, input: &[u32]) -> u64 {
    let m = input.len();
    let mut ind: Vec<Option<usize>> = vec![None; n];
    for (i, &l) in input.iter().enumerate() {
        ind[l as usize] = Some(i);
    }
    let mut total = 0u64;
    for a in 0..n {
        for b in a + 1..n {
            if let (Some(i), Some(j)) = (ind[a], ind[b]) {
                if i > j {
                    total += 1;
                }
            }
        }
    }
    for l in 0..n {
        if ind[l].is_some() {
            continue;
        }
        let mut best = u64::MAX;
        for q in 0..=m {
            let mut c = 0u64;
            for a in 0..n {
                if let Some(i) = ind[a] {
                    if (a < l && i >= q) || (a > l && i < q) {
                        c += 1;
                    }
                }
            }
            best = best.min(c);
        }
        total += best;
    }
    total
}

impl Sc {
    fn l2v(&self) -> Vec<u32> {
        let n = self.n;
        self.mref.as_ref().unwrap().with_manager_shared(|m| (0..n).map(|l| m.level_to_var(l)).collect())
    }
    fn vars(&self, w: &[&str]) -> Option<(Vec<u32>, bool)> {
        let mut p = Vec::new();
        let mut seq = false;
        for x in w {
            match *x {
                "seq=1" => seq = true,
                "seq=0" => {}
                _ => match x.parse::<u32>() {
                    Ok(v) if v < self.n && !p.contains(&v) => p.push(v),
                    _ => return None,
                },
            }
        }
        Some((p, seq))
    }
}

impl Scenario for Sc {
    fn reset(&mut self) {
        self.live = None;
        self.mref = None;
        self.n = 0;
    }
    fn step(&mut self, line: &str, ctx: &mut Ctx) -> String {
        let w = words(line);
        let bad = "bad-op".to_string();
        if w.is_empty() {
            return bad;
        }
        if self.mref.is_none() {
            if w.len() == 2 && w[0] == "mgr" {
                if let Ok(n) = w[1].parse::<u32>() {
                    if (1..=64).contains(&n) {
                        let mref = oxidd::bdd::new_manager(1 << 12, 1 << 10, 1);
                        mref.with_manager_exclusive(|m| {
                            m.add_vars(n);
                        });
                        self.mref = Some(mref);
                        self.n = n;
                        return "ok".into();
                    }
                }
            }
            return bad;
        }
        let mref = self.mref.clone().unwrap();
        let n = self.n as usize;
        let fmt = |v: &[u32]| v.iter().map(|x| x.to_string()).collect::<Vec<_>>().join(" ");
        match w[0] {
            "scramble" => {
                let Some((p, _)) = self.vars(&w[1..]) else { return bad };
                if p.len() != n {
                    return bad;
                }
                mref.with_manager_exclusive(|m| oxidd_reorder::set_var_order(m, &p));
                let l2v = self.l2v();
                if l2v != p {
                    ctx.fail("total-order-not-forced", &format!("set_var_order({:?}) gives level_to_var {:?}", p, l2v));
                }
                format!("l2v {}", fmt(&l2v))
            }
            "live" => {
                let Some((p, _)) = self.vars(&w[1..]) else { return bad };
                self.live = None;
                let f = mref.with_manager_shared(|m| {
                    let mut acc = BDDFunction::f(m);
                    for &v in &p {
                        let x = BDDFunction::var(m, v).expect("out of memory");
                        acc = acc.xor(&x).expect("out of memory");
                    }
                    acc
                });
                self.live = Some(f);
                let ne: Vec<u32> = mref.with_manager_shared(|m| {
                    m.gc();
                    (0..n as u32).map(|l| if m.level(l).is_empty() { 0 } else { 1 }).collect()
                });
                // the parity function has nodes on exactly the levels of its variables
                let l2v = self.l2v();
                for l in 0..n {
                    if (ne[l] == 1) != p.contains(&l2v[l]) {
                        ctx.fail("harness", &format!("non-empty levels {:?} do not match the live variables {:?} (level_to_var {:?})", ne, p, l2v));
                        break;
                    }
                }
                format!("ne {}", fmt(&ne))
            }
            "order" => {
                let Some((p, seq)) = self.vars(&w[1..]) else { return bad };
                let before = self.l2v();
                let ne: Vec<bool> = mref.with_manager_shared(|m| (0..n as u32).map(|l| !m.level(l).is_empty()).collect());
                let input: Vec<u32> = mref.with_manager_shared(|m| p.iter().map(|&v| m.var_to_level(v)).collect());
                mref.with_manager_exclusive(|m| {
                    if seq {
                        oxidd_reorder::set_var_order_seq(m, &p);
                    } else {
                        oxidd_reorder::set_var_order(m, &p);
                    }
                });
                let after = self.l2v();
                let target: Vec<u32> = mref.with_manager_shared(|m| before.iter().map(|&v| m.var_to_level(v)).collect());
                let ctxt = format!("set_var_order({:?}) from level_to_var {:?} (request as levels {:?}, non-empty {:?}) gives level_to_var {:?}, target {:?}", p, before, input, ne, after, target);
                ctx.count(if p.len() == n { "order.total" } else { "order.partial" });
                if ne.iter().any(|x| !x) {
                    ctx.count("order.with-empty-levels");
                }
                if after != before {
                    ctx.count("order.changed");
                }
                if !input.windows(2).all(|q| target[q[0] as usize] < target[q[1] as usize]) {
                    ctx.fail("order-not-established", &ctxt);
                }
                if p.len() == n && p.len() > 1 && after != p {
                    ctx.fail("total-order-not-forced", &ctxt);
                }
                if p.len() <= 1 && after != before {
                    ctx.fail("trivial-request-moved-levels", &ctxt);
                }
                let all = vec![true; n];
                let inv_all = inversions(&target, &all);
                let inv_ne = inversions(&target, &ne);
                let min_formula = formula(n, &input);
                if inv_all != min_formula {
                    ctx.fail("swaps-not-formula", &format!("{}: {} inversions, the minimum is {}", ctxt, inv_all, min_formula));
                }
                if inv_ne > min_formula {
                    ctx.fail("ne-swaps-above-bound", &format!("{}: {} level swaps, bound {}", ctxt, inv_ne, min_formula));
                }
                if n <= 8 {
                    ctx.count("order.bruteforce");
                    let (min_all, min_ne) = brute_force(n, &input, &ne);
                    if min_all != min_formula {
                        ctx.fail("formula-vs-bruteforce", &format!("{}: brute force {}, formula {}", ctxt, min_all, min_formula));
                    }
                    if inv_all != min_all {
                        ctx.fail("swaps-not-minimal", &format!("{}: {} inversions, an admissible order with {} exists", ctxt, inv_all, min_all));
                    }
                    if inv_ne > min_ne {
                        // observation only: the property (and the documentation) count adjacent swaps
                        // of levels, empty or not; that count is minimal (checked above)
                        ctx.count("ne-not-minimal");
                    }
                }
                if inv_all > 0 {
                    ctx.count("order.inversions>0");
                }
                format!("l2v {} inv {} ne {} min {}", fmt(&after), inv_all, inv_ne, min_formula)
            }
            _ => bad,
        }
    }
}

fn gen_case(rng: &mut Rng, w: &mut dyn Write, name: &str, n: u32, scramble: bool, sparse: bool, orders: &[Vec<u32>]) {
    writeln!(w, "case {}", name).unwrap();
    writeln!(w, "mgr {}", n).unwrap();
    let fmt = |v: &[u32]| v.iter().map(|x| x.to_string()).collect::<Vec<_>>().join(" ");
    if scramble {
        let mut p: Vec<u32> = (0..n).collect();
        rng.shuffle(&mut p);
        writeln!(w, "scramble {}", fmt(&p)).unwrap();
    }
    let live: Vec<u32> = if sparse { (0..n).filter(|_| rng.chance(1, 2)).collect() } else { (0..n).collect() };
    writeln!(w, "live {}", fmt(&live)).unwrap();
    for o in orders {
        writeln!(w, "order {}{}", fmt(o), if rng.chance(1, 4) { " seq=1" } else { "" }).unwrap();
    }
}

fn random_request(rng: &mut Rng, n: u32) -> Vec<u32> {
    let mut p: Vec<u32> = (0..n).collect();
    rng.shuffle(&mut p);
    let k = match rng.below(8) {
        0 => n,
        1 => 2.min(n),
        _ => rng.range(0, n as u64) as u32,
    };
    p.truncate(k as usize);
    p
}

fn generate(cfg: &GenCfg, rng: &mut Rng, w: &mut dyn Write) {
    // the witness of the observation about empty levels
    writeln!(w, "case obs-reorder-empty-levels").unwrap();
    writeln!(w, "mgr 4").unwrap();
    writeln!(w, "live 0 1").unwrap();
    writeln!(w, "order 2 3 0").unwrap();
    // every request (sequence of distinct levels) on 2..4 levels (5 in the thorough tier), identity start
    let maxn = if cfg.thorough { 5 } else { 4 };
    for n in 2..=maxn {
        let mut reqs: Vec<Vec<u32>> = vec![vec![]];
        let mut frontier: Vec<Vec<u32>> = vec![vec![]];
        for _ in 0..n {
            let mut next = Vec::new();
            for r in &frontier {
                for v in 0..n {
                    if !r.contains(&v) {
                        let mut r2 = r.clone();
                        r2.push(v);
                        next.push(r2);
                    }
                }
            }
            reqs.extend(next.iter().cloned());
            frontier = next;
        }
        for (i, r) in reqs.iter().enumerate() {
            gen_case(rng, w, &format!("all-{}-{}", n, i), n, false, false, &[r.clone()]);
        }
    }
    let scale = cfg.scale.max(1) * if cfg.thorough { 10 } else { 1 };
    // random, brute force still possible
    for i in 0..400 * scale {
        let n = rng.range(5, 7) as u32;
        let orders: Vec<Vec<u32>> = (0..rng.range(1, 3)).map(|_| random_request(rng, n)).collect();
        let sparse = rng.chance(1, 3);
        gen_case(rng, w, &format!("rnd-{}", i), n, true, sparse, &orders);
    }
    for i in 0..40 * scale {
        let orders: Vec<Vec<u32>> = (0..2).map(|_| random_request(rng, 8)).collect();
        let sparse = rng.chance(1, 3);
        gen_case(rng, w, &format!("rnd8-{}", i), 8, true, sparse, &orders);
    }
    // larger: closed formula only
    for i in 0..300 * scale {
        let n = rng.range(9, 48) as u32;
        let orders: Vec<Vec<u32>> = (0..rng.range(1, 3)).map(|_| random_request(rng, n)).collect();
        let sparse = rng.chance(1, 3);
        gen_case(rng, w, &format!("big-{}", i), n, true, sparse, &orders);
    }
}

fn make(_f: &BTreeMap<String, String>) -> Box<dyn Scenario> {
    Box::new(Sc { mref: None, n: 0, live: None })
}

fn main() {
    harness_main(generate, make)
}
