//! C08, mechanism "bubble_sort / concurrent_bubble_sort never run two swaps touching a common
//! level": the two swap schedulers of `set_var_order` driven directly (hook
//! `oxidd_reorder::verif_bubble_sort`, `--cfg oxidd_verif`) with a callback that
//!   * marks the two levels of the swap busy for a random time and reports any overlap with another
//!     swap running at the same time (the real `level_swap` would mutate the same level twice),
//!   * replays the swap on a shadow copy of the sequence and reports a swap of a pair that is not an
//!     inversion,
//! and, after the call, checks that the sequence is sorted, that the shadow copy agrees, and that
//! the number of swaps is the number of inversions (the minimum for adjacent swaps).
//! These are the statements `Reorder/Concurrent.lean` proves about its model of the task state
//! machine (`no_overlap`, `sorted_at_end`, `swap_count_eq_inversions`); here they are evaluated on
//! executions of the real scheduler with real worker threads. Oracle-only stream.
//!
//! line: `sort <workers> <concurrent 0|1> <v0> <v1> ...`  →  `sorted <number of swaps>`
use std::collections::BTreeMap;
use std::io::Write;
use std::sync::atomic::{AtomicBool, AtomicU64, Ordering};
use std::sync::Mutex;

use oxv::*;

struct Sc {
    mgrs: BTreeMap<u32, oxidd::bdd::BDDManagerRef>,
}

#[cfg(oxidd_verif)]
fn run_sort(mref: &oxidd::bdd::BDDManagerRef, seq0: &[u32], concurrent: bool, seed: u64, ctx: &mut Ctx) -> String {
    use oxidd::ManagerRef;
    let n = seq0.len();
    let busy: Vec<AtomicBool> = (0..n).map(|_| AtomicBool::new(false)).collect();
    let shadow = Mutex::new(seq0.to_vec());
    let problems: Mutex<Vec<String>> = Mutex::new(Vec::new());
    let swaps = AtomicU64::new(0);
    let max_par = AtomicU64::new(0);
    let running = AtomicU64::new(0);
    let mut seq = seq0.to_vec();
    mref.with_manager_shared(|m| {
        oxidd_reorder::verif_bubble_sort(
            m,
            &mut seq,
            &|_m, i| {
                let i = i as usize;
                let k = swaps.fetch_add(1, Ordering::Relaxed);
                let r = running.fetch_add(1, Ordering::AcqRel) + 1;
                max_par.fetch_max(r, Ordering::Relaxed);
                for l in [i, i + 1] {
                    if l >= n {
                        problems.lock().unwrap().push(format!("swap({i}) is out of range for {n} levels"));
                        continue;
                    }
                    if busy[l].swap(true, Ordering::AcqRel) {
                        problems.lock().unwrap().push(format!("swap({i}) started while another swap was using level {l}"));
                    }
                }
                // hold the two levels for a while (what the real level_swap does)
                let mut x = seed.wrapping_mul(6364136223846793005).wrapping_add(k.wrapping_mul(1442695040888963407));
                x ^= x >> 29;
                match x % 4 {
                    0 => std::thread::yield_now(),
                    1 => std::thread::sleep(std::time::Duration::from_micros(x % 300)),
                    2 => {
                        for _ in 0..(x % 2000) {
                            std::hint::spin_loop();
                        }
                    }
                    _ => {}
                }
                if i + 1 < n {
                    let mut sh = shadow.lock().unwrap();
                    if sh[i] <= sh[i + 1] {
                        problems.lock().unwrap().push(format!("swap({i}) exchanges {} and {}, which are not an inversion", sh[i], sh[i + 1]));
                    }
                    sh.swap(i, i + 1);
                }
                for l in [i, i + 1] {
                    if l < n {
                        busy[l].store(false, Ordering::Release);
                    }
                }
                running.fetch_sub(1, Ordering::AcqRel);
            },
            concurrent,
        )
    });
    let mut sorted = seq0.to_vec();
    sorted.sort();
    let inversions: u64 = (0..n).map(|i| (i + 1..n).filter(|&j| seq0[i] > seq0[j]).count() as u64).sum();
    let sh = shadow.into_inner().unwrap();
    let k = swaps.load(Ordering::Relaxed);
    for p in problems.into_inner().unwrap().into_iter().take(3) {
        ctx.fail("swap-overlap", &format!("{p} (sequence {:?}, concurrent = {concurrent})", seq0));
    }
    if seq != sorted {
        ctx.fail("not-sorted", &format!("sequence {:?} ends as {:?}", seq0, seq));
    }
    if sh != sorted {
        ctx.fail("swaps-do-not-sort", &format!("applying the reported swaps to {:?} gives {:?}", seq0, sh));
    }
    if k != inversions {
        ctx.fail("swap-count", &format!("{k} swaps for {:?}, which has {inversions} inversions", seq0));
    }
    ctx.add("swaps", k);
    let e = ctx.stats.entry("max_parallel_swaps".into()).or_insert(0);
    *e = (*e).max(max_par.load(Ordering::Relaxed));
    format!("sorted {k}")
}

#[cfg(not(oxidd_verif))]
fn run_sort(_mref: &oxidd::bdd::BDDManagerRef, _seq0: &[u32], _concurrent: bool, _seed: u64, ctx: &mut Ctx) -> String {
    ctx.fail("hooks-missing", "built without --cfg oxidd_verif");
    "hooks-missing".into()
}

impl Scenario for Sc {
    fn reset(&mut self) {}
    fn step(&mut self, line: &str, ctx: &mut Ctx) -> String {
        let w = words(line);
        match w[0] {
            "sort" => {
                let workers: u32 = w[1].parse().unwrap();
                let concurrent = w[2] == "1";
                let seq: Vec<u32> = w[3..].iter().map(|x| x.parse().unwrap()).collect();
                let mref = self.mgrs.entry(workers).or_insert_with(|| oxidd::bdd::new_manager(1024, 64, workers)).clone();
                ctx.count(if concurrent { "concurrent_sorts" } else { "sequential_sorts" });
                run_sort(&mref, &seq, concurrent, ctx.line_no, ctx)
            }
            _ => "bad-op".into(),
        }
    }
}

fn perms(n: u32) -> Vec<Vec<u32>> {
    fn go(cur: &mut Vec<u32>, n: u32, out: &mut Vec<Vec<u32>>) {
        if cur.len() as u32 == n {
            out.push(cur.clone());
            return;
        }
        for v in 0..n {
            if !cur.contains(&v) {
                cur.push(v);
                go(cur, n, out);
                cur.pop();
            }
        }
    }
    let mut out = Vec::new();
    go(&mut Vec::new(), n, &mut out);
    out
}

fn generate(cfg: &GenCfg, rng: &mut Rng, w: &mut dyn Write) {
    writeln!(w, "case sched-exhaustive").unwrap();
    // every permutation of up to 5 (thorough: 6) levels, sequential and with 2 and 4 workers
    for n in 0..=(if cfg.thorough { 6 } else { 5 }) {
        for p in perms(n) {
            let s: Vec<String> = p.iter().map(|x| x.to_string()).collect();
            writeln!(w, "sort 1 0 {}", s.join(" ")).unwrap();
            for workers in [2, 4] {
                writeln!(w, "sort {} 1 {}", workers, s.join(" ")).unwrap();
            }
        }
    }
    writeln!(w, "case sched-random").unwrap();
    for _ in 0..(if cfg.thorough { 6000 } else { 600 } * cfg.scale) {
        let n = rng.range(4, 24) as usize;
        let mut p: Vec<u32> = (0..n as u32).collect();
        match rng.below(4) {
            0 => p.reverse(),
            1 => {
                // a few displaced elements (long-distance moves)
                for _ in 0..rng.range(1, 3) {
                    let i = rng.below(n as u64) as usize;
                    let x = p.remove(i);
                    p.insert(rng.below(n as u64) as usize, x);
                }
            }
            _ => rng.shuffle(&mut p),
        }
        // `sort_order` yields sequences with repeated keys? No: level numbers are distinct.
        let s: Vec<String> = p.iter().map(|x| x.to_string()).collect();
        writeln!(w, "sort {} 1 {}", rng.pick(&[2u32, 3, 4, 8, 16]), s.join(" ")).unwrap();
    }
}

fn make(_f: &BTreeMap<String, String>) -> Box<dyn Scenario> {
    Box::new(Sc { mgrs: BTreeMap::new() })
}

fn main() {
    harness_main(generate, make)
}
