//! C08/C09, ZBDD: one adjacent level swap through the real `set_var_order`, against the Lean
//! diagram-level model `OxiddModel/Reorder/ZbddSwap.lean` (protocol `zbdd-swap`).
//!
//! `gen`: every family over 3 variables (256) and a random sample over 4 variables, each with
//! every adjacent transposition of the initial order `0 1 .. n-1`. One case per (family, swap):
//!
//! ```text
//! case <name>
//! mgr vars=<n>
//! tt <hex>            -> "<tree> tt=<hex>"          (the canonical ZBDD of the family, by walk)
//! gc                  -> "ok"                        (dead nodes of the construction are removed)
//! swap <order ...>    -> "<level_to_var> <tree> tt=<hex> kf|same"   (after set_var_order)
//! ```
//!
//! The generator computes, independently of OxiDD and of the Lean model, the canonical ZBDD of the
//! family (as a tree) and looks for a node of the upper level with exactly one child on the lower
//! level and the other child not `E` (the shape `level_swap` reads wrongly, `badShape` in the Lean
//! model). Those cases are named `kf-zbdd-reorder-…` (known finding `KF-zbdd-reorder`), the others
//! `c08-zbddswap-ok-…`. The Lean driver predicts the *diagram* after the swap as the code performs
//! it (`genericSwap`) — also the wrong ones — so any other deviation is a stream mismatch.
//!
//! `gen --nofilter 1` keeps the colliding cases (for a build with the repaired `level_swap`);
//! `ZDEBUG=1 … run` prints every stored node per level after a swap to stderr.
//!
//! Oracles on the implementation: the family after the swap (independent walk under the new order)
//! is the family before (`reorder-changed-function`); `level_to_var` is the requested order
//! (`order-not-established`); the diagram is ordered and zero-suppressed (`audit`).
use oxidd::util::AllocResult;
use oxidd::zbdd::ZBDDFunction;
use oxidd::{BooleanFunction, Function, Manager, ManagerRef};
use oxv::bf::Kind;
use oxv::kinds::KZbdd;
use oxv::*;
use std::collections::BTreeMap;
use std::io::Write;

// ------------------------------------------------------------------------------------------------
// reference ZBDD trees (generator side)

#[derive(Clone, PartialEq, Eq, Debug)]
enum Z {
    E,
    B,
    N(u32, Box<Z>, Box<Z>),
}

fn mk(v: u32, hi: Z, lo: Z) -> Z {
    if hi == Z::E { lo } else { Z::N(v, Box::new(hi), Box::new(lo)) }
}

/// canonical ZBDD of the family `tt` (bit `a` = the set of the variables set in `a`) for `order`
fn build(tt: u64, order: &[u32], chosen: u64) -> Z {
    match order.split_first() {
        None => if (tt >> chosen) & 1 != 0 { Z::B } else { Z::E },
        Some((&v, rest)) => mk(v, build(tt, rest, chosen | (1 << v)), build(tt, rest, chosen)),
    }
}

fn is_at(y: u32, z: &Z) -> bool {
    matches!(z, Z::N(v, _, _) if *v == y)
}

fn has_bad(x: u32, y: u32, z: &Z) -> bool {
    match z {
        Z::N(v, hi, lo) => {
            (*v == x && ((!is_at(y, hi) && is_at(y, lo)) || (is_at(y, hi) && !is_at(y, lo) && **lo != Z::E)))
                || has_bad(x, y, hi)
                || has_bad(x, y, lo)
        }
        _ => false,
    }
}

/// the code's grand-cofactors: the children of a node of the lower level, `(c, c)` otherwise
fn cof_g(y: u32, c: &Z) -> (Z, Z) {
    match c {
        Z::N(v, h, l) if *v == y => ((**h).clone(), (**l).clone()),
        c => (c.clone(), c.clone()),
    }
}

/// what `level_swap` makes of the upper-level node `(x, hi, lo)`
fn rebuild_g(x: u32, y: u32, hi: &Z, lo: &Z) -> Z {
    if !is_at(y, hi) && !is_at(y, lo) {
        return Z::N(x, Box::new(hi.clone()), Box::new(lo.clone()));
    }
    let (hh, hl) = cof_g(y, hi);
    let (lh, ll) = cof_g(y, lo);
    Z::N(y, Box::new(mk(x, hh, lh)), Box::new(mk(x, hl, ll)))
}

fn collect_x(x: u32, z: &Z, out: &mut Vec<Z>) {
    if let Z::N(v, hi, lo) = z {
        if *v == x {
            if !out.contains(z) {
                out.push(z.clone());
            }
        } else {
            collect_x(x, hi, out);
            collect_x(x, lo, out);
        }
    }
}

/// two different stored nodes of the upper level (the diagram's and the tautology chain's) that
/// `level_swap` turns into the same node: the second one is then left outside the unique table
/// (store-level effect, outside the diagram-level model)
fn collision(x: u32, y: u32, z: &Z, order: &[u32], up: usize) -> bool {
    let mut xs = Vec::new();
    collect_x(x, z, &mut xs);
    let chain = build(u64::MAX, &order[up..], 0); // all subsets of the variables from x on
    // (u64::MAX has every bit set: `build` reads bit `chosen`, which only has bits of order[up..])
    collect_x(x, &chain, &mut xs);
    let imgs: Vec<Z> = xs.iter().map(|n| if let Z::N(_, h, l) = n { rebuild_g(x, y, h, l) } else { unreachable!() }).collect();
    for i in 0..imgs.len() {
        for j in 0..i {
            if imgs[i] == imgs[j] {
                return true;
            }
        }
    }
    false
}

fn generate(cfg: &GenCfg, rng: &mut Rng, w: &mut dyn Write) {
    let mut skipped = 0u32;
    // `--nofilter 1`: keep the colliding cases too (for a build with the repaired `level_swap`)
    let nofilter = cfg.extra.contains_key("nofilter");
    let mut emit = |n: u32, tt: u64, up: u32| {
        let order: Vec<u32> = (0..n).collect();
        let (x, y) = (order[up as usize], order[up as usize + 1]);
        let z = build(tt, &order, 0);
        let bad = has_bad(x, y, &z);
        if !nofilter && collision(x, y, &z, &order, up as usize) {
            skipped += 1;
            return;
        }
        let mut new = order.clone();
        new.swap(up as usize, up as usize + 1);
        let name = if bad { "kf-zbdd-reorder-swap" } else { "c08-zbddswap-ok" };
        writeln!(w, "case {}-n{}-t{:x}-u{}", name, n, tt, up).unwrap();
        writeln!(w, "mgr vars={}", n).unwrap();
        writeln!(w, "tt {:x}", tt).unwrap();
        writeln!(w, "gc").unwrap();
        writeln!(w, "swap {}", new.iter().map(|v| v.to_string()).collect::<Vec<_>>().join(" ")).unwrap();
    };
    for tt in 0..16u64 {
        emit(2, tt, 0);
    }
    for tt in 0..256u64 {
        for up in 0..2 {
            emit(3, tt, up);
        }
    }
    let k = if cfg.thorough { 4000 } else { 300 } * cfg.scale;
    for _ in 0..k {
        let tt = rng.below(1 << 16);
        emit(4, tt, rng.below(3) as u32);
    }
    writeln!(w, "# skipped {} cases with colliding upper-level nodes", skipped).unwrap();
}

// ------------------------------------------------------------------------------------------------
// scenario

struct Sc {
    mref: Option<<ZBDDFunction as Function>::ManagerRef>,
    n: u32,
    f: Option<ZBDDFunction>,
    tt: u64,
}

impl Sc {
    fn table(&self, f: &ZBDDFunction) -> u64 {
        let n = self.n;
        f.with_manager_shared(|m, e| {
            let mut t = 0u64;
            for a in 0..(1usize << n) {
                if KZbdd::walk_eval(m, e, a) {
                    t |= 1 << a;
                }
            }
            t
        })
    }
    fn tree(&self, f: &ZBDDFunction) -> String {
        f.with_manager_shared(|m, e| KZbdd::tree(m, e))
    }
}

impl Scenario for Sc {
    fn reset(&mut self) {
        self.f = None;
        self.mref = None;
        self.n = 0;
        self.tt = 0;
    }
    fn step(&mut self, line: &str, ctx: &mut Ctx) -> String {
        let w = words(line);
        match w[0] {
            "mgr" => {
                let n: u32 = match w.get(1).and_then(|s| s.strip_prefix("vars=")).and_then(|s| s.parse().ok()) {
                    Some(n) if n >= 1 && n <= 5 => n,
                    _ => return "bad-op".into(),
                };
                let mref = oxidd::zbdd::new_manager(4096, 256, 1);
                mref.with_manager_exclusive(|m| {
                    m.add_vars(n);
                });
                self.mref = Some(mref);
                self.n = n;
                "ok".into()
            }
            "tt" => {
                let (Some(mref), Some(val)) = (self.mref.as_ref(), w.get(1).and_then(|s| u64::from_str_radix(s, 16).ok())) else {
                    return "bad-op".into();
                };
                let n = self.n;
                let r = mref.with_manager_shared(|m| -> AllocResult<ZBDDFunction> {
                    let mut f = ZBDDFunction::f(m);
                    for a in 0..(1usize << n) {
                        if (val >> a) & 1 == 0 {
                            continue;
                        }
                        let mut c = ZBDDFunction::t(m);
                        for v in 0..n {
                            let x = if (a >> v) & 1 != 0 { ZBDDFunction::var(m, v)? } else { ZBDDFunction::not_var(m, v)? };
                            c = c.and(&x)?;
                        }
                        f = f.or(&c)?;
                    }
                    Ok(f)
                });
                let Ok(f) = r else { return "OOM".into() };
                let t = self.table(&f);
                if t != val & ((1u64 << (1u32 << n)) - 1) {
                    ctx.fail("wrong-function", &format!("built family {:x}, wanted {:x}", t, val));
                }
                let s = format!("{} tt={:x}", self.tree(&f), t);
                self.tt = t;
                self.f = Some(f);
                s
            }
            "gc" => {
                let Some(mref) = self.mref.as_ref() else { return "bad-op".into() };
                mref.with_manager_shared(|m| m.gc());
                "ok".into()
            }
            "swap" => {
                let (Some(mref), Some(f)) = (self.mref.clone(), self.f.clone()) else { return "bad-op".into() };
                let order: Vec<u32> = match w[1..].iter().map(|x| x.parse::<u32>()).collect::<Result<Vec<_>, _>>() {
                    Ok(o) if o.len() == self.n as usize => o,
                    _ => return "bad-op".into(),
                };
                KZbdd::reorder(&mref, &order, false);
                let l2v: Vec<u32> = mref.with_manager_shared(|m| (0..m.num_levels()).map(|l| m.level_to_var(l)).collect());
                if l2v != order {
                    ctx.fail("order-not-established", &format!("requested {:?}, level_to_var {:?}", order, l2v));
                }
                if std::env::var("ZDEBUG").is_ok() {
                    use oxidd_core::LevelView; use oxidd::{HasLevel, InnerNode};
                    mref.with_manager_shared(|m| {
                        for l in 0..m.num_levels() {
                            let lv = m.level(l);
                            for e in lv.iter() {
                                let nd = m.get_node(e).unwrap_inner();
                                eprintln!("level {} node.level {} rc {} {}", l, nd.level(), nd.ref_count(), KZbdd::tree(m, e));
                            }
                        }
                    });
                }
                let t = self.table(&f);
                let tree = self.tree(&f);
                if t != self.tt {
                    ctx.count("family-changed");
                    ctx.fail("reorder-changed-function", &format!("family {:x} became {:x} after set_var_order {:?}: {}", self.tt, t, order, tree));
                } else {
                    ctx.count("family-kept");
                }
                format!("{} {} tt={:x} {}", l2v.iter().map(|v| v.to_string()).collect::<Vec<_>>().join(" "), tree, t, if t != self.tt { "kf" } else { "same" })
            }
            _ => "bad-op".into(),
        }
    }
}

fn make(_f: &BTreeMap<String, String>) -> Box<dyn Scenario> {
    Box::new(Sc { mref: None, n: 0, f: None, tt: 0 })
}

fn main() {
    harness_main(generate, make)
}
