//! C10, float terminals: the scalar arithmetic of `oxidd::mtbdd::terminal::F64` against the exact
//! binary64 model `OxiddModel/Num/Ieee.lean` (protocol `f64arith`, no Lean `Float` on the model side).
//!
//! Operation lines (bit patterns as 16 hex digits):
//!
//! ```text
//! f <a> <b>  -> <add> <sub> <mul> <div> <cmp> <eq>   the REAL `F64` operations: both operands are
//!               `F64::from(f64::from_bits(·))`, results of `NumberBase::{add,sub,mul,div}` as bits,
//!               `partial_cmp` as lt|eq|gt|none, `==` as 0|1
//! r <a> <b>  -> <add> <sub> <mul> <div> <cmp>        the plain hardware `f64` operations on the raw
//!               patterns (`-0.0`, all NaN payloads as operands; a NaN result is printed `nan`)
//! n <a>      -> bits of `F64::from(f64::from_bits(a))`
//! ```
//!
//! Oracles on the real code, independent of the Lean model:
//! * every `F64` result is normalised (never `-0.0`, NaN only as `f64::NAN`);
//! * every `F64` result equals the `f64` operation done directly followed by a normalisation
//!   written here (`x != x`, `x == 0.0`), and the operator traits `+ - * /` agree with `NumberBase`;
//! * `add`/`mul` commute on the real code; `a - b = a + (-b)`;
//! * the laws `terminal_bin` relies on (`0 + x`, `x + 0`, `x - 0`, `1 * x`, `x * 1`, `x / 1`, NaN absorbing,
//!   `partial_cmp(x, x) = Equal`, `partial_cmp` antisymmetric, `==` iff `partial_cmp = Equal`);
//! * exactness cross-checks that do not use the model's rounding: the sum/product/quotient error
//!   recovered by `mul_add` (FMA) must be at most half an ulp of the result in the normal range.
use oxidd::mtbdd::terminal::F64;
use oxidd::NumberBase;
use oxv::*;
use std::cmp::Ordering;
use std::collections::BTreeMap;
use std::io::Write;

fn parse_hex(s: &str) -> Option<u64> {
    if s.is_empty() || s.len() > 16 || !s.bytes().all(|c| c.is_ascii_digit() || (b'a'..=b'f').contains(&c)) {
        return None;
    }
    u64::from_str_radix(s, 16).ok()
}
fn bits(x: F64) -> u64 {
    f64::from(x).to_bits()
}
fn cmp_tok(o: Option<Ordering>) -> &'static str {
    match o {
        Some(Ordering::Less) => "lt",
        Some(Ordering::Equal) => "eq",
        Some(Ordering::Greater) => "gt",
        None => "none",
    }
}
/// normalisation written from the property text (not `F64::from`)
fn norm_ref(x: f64) -> u64 {
    if x != x {
        0x7ff8_0000_0000_0000
    } else if x == 0.0 {
        0
    } else {
        x.to_bits()
    }
}
fn raw_tok(x: f64) -> String {
    if x.is_nan() { "nan".into() } else { format!("{:016x}", x.to_bits()) }
}

struct Sc;

fn check_result(op: &str, a: F64, b: F64, r: F64, direct: f64, ctx: &mut Ctx) {
    let rb = bits(r);
    if rb == 0x8000_0000_0000_0000 || (f64::from(r).is_nan() && rb != 0x7ff8_0000_0000_0000) {
        ctx.fail("f64-not-normalised", &format!("{:016x} {} {:016x} gives the unnormalised {:016x}", bits(a), op, bits(b), rb));
    }
    if rb != norm_ref(direct) {
        ctx.fail(&format!("f64-{}", op), &format!("{:016x} {} {:016x} gives {:016x} but IEEE-754 + normalisation demands {:016x}", bits(a), op, bits(b), rb, norm_ref(direct)));
    }
    if f64::from(r).is_nan() {
        ctx.count(&format!("{}.nan", op));
    } else if f64::from(r).is_infinite() {
        if f64::from(a).is_finite() && f64::from(b).is_finite() {
            ctx.count(&format!("{}.overflow", op));
        }
    } else if rb << 1 == 0 {
        ctx.count(&format!("{}.zero", op));
    } else if (rb >> 52) & 0x7ff == 0 {
        ctx.count(&format!("{}.subnormal", op));
    }
}

fn laws(a: F64, ctx: &mut Ctx) {
    let (z, o, n) = (F64::zero(), F64::one(), F64::nan());
    let mut bad = Vec::new();
    if z.add(&a) != a { bad.push("0+x"); }
    if a.add(&z) != a { bad.push("x+0"); }
    if a.sub(&z) != a { bad.push("x-0"); }
    if o.mul(&a) != a { bad.push("1*x"); }
    if a.mul(&o) != a { bad.push("x*1"); }
    if a.div(&o) != a { bad.push("x/1"); }
    for (nm, r) in [
        ("nan+x", n.add(&a)), ("x+nan", a.add(&n)), ("nan-x", n.sub(&a)), ("x-nan", a.sub(&n)),
        ("nan*x", n.mul(&a)), ("x*nan", a.mul(&n)), ("nan/x", n.div(&a)), ("x/nan", a.div(&n)),
    ] {
        if r != n { bad.push(nm); }
    }
    if a.partial_cmp(&a) != Some(Ordering::Equal) { bad.push("cmp x x"); }
    if a != n && (n.partial_cmp(&a).is_some() || a.partial_cmp(&n).is_some()) { bad.push("cmp nan x"); }
    if z == o { bad.push("0=1"); }
    for b in bad {
        ctx.fail("f64-law", &format!("terminal law `{}` fails for x = {:016x}", b, bits(a)));
    }
}

/// |err| ≤ ulp(r)/2 where `err` is the exact error of a correctly rounded result in the normal
/// range, recovered with one FMA (exact, independent of the model's rounding function)
fn half_ulp_ok(r: f64, err: f64) -> bool {
    err.abs() <= half_ulp(r)
}
/// half an ulp of the normal number `r`: 2^(e-53)
fn half_ulp(r: f64) -> f64 {
    let e = ((r.to_bits() >> 52) & 0x7ff) as i32;
    f64::from_bits(((e - 52).max(1) as u64) << 52) / 2.0
}

impl Scenario for Sc {
    fn reset(&mut self) {}
    fn step(&mut self, line: &str, ctx: &mut Ctx) -> String {
        let ws = words(line);
        match ws.as_slice() {
            ["f", a, b] => {
                let (Some(ab), Some(bb)) = (parse_hex(a), parse_hex(b)) else { return "bad-op".into() };
                let (a, b) = (F64::from(f64::from_bits(ab)), F64::from(f64::from_bits(bb)));
                let (x, y) = (f64::from(a), f64::from(b));
                ctx.count("f");
                let add = NumberBase::add(&a, &b);
                let sub = NumberBase::sub(&a, &b);
                let mul = NumberBase::mul(&a, &b);
                let div = NumberBase::div(&a, &b);
                check_result("add", a, b, add, x + y, ctx);
                check_result("sub", a, b, sub, x - y, ctx);
                check_result("mul", a, b, mul, x * y, ctx);
                check_result("div", a, b, div, x / y, ctx);
                // operator traits agree with `NumberBase`
                if a + b != add || a - b != sub || a * b != mul || a / b != div {
                    ctx.fail("f64-trait", &format!("operator traits differ from NumberBase on {:016x} {:016x}", bits(a), bits(b)));
                }
                // commutativity on the real code, subtraction as addition of the negation
                if NumberBase::add(&b, &a) != add {
                    ctx.fail("f64-add-comm", &format!("{:016x} + {:016x} is not commutative", bits(a), bits(b)));
                }
                if NumberBase::mul(&b, &a) != mul {
                    ctx.fail("f64-mul-comm", &format!("{:016x} * {:016x} is not commutative", bits(a), bits(b)));
                }
                if NumberBase::add(&a, &F64::from(-y)) != sub {
                    ctx.fail("f64-sub-neg", &format!("{:016x} - {:016x} differs from a + (-b)", bits(a), bits(b)));
                }
                laws(a, ctx);
                // exact error by FMA: p = x*y rounded; fma(x, y, -p) is the exact error when p is
                // normal and the error is representable (|p| ≥ 2^-960 suffices)
                let p = f64::from(mul);
                if p.is_finite() && p.abs() >= f64::from_bits(0x03f0_0000_0000_0000) {
                    let err = x.mul_add(y, -p);
                    if !half_ulp_ok(p, err) {
                        ctx.fail("f64-mul-half-ulp", &format!("{:016x} * {:016x} = {:016x} is off by more than half an ulp", bits(a), bits(b), bits(mul)));
                    }
                    ctx.count("mul.fma-checked");
                    if err.abs() == half_ulp(p) {
                        ctx.count("mul.exact-tie");
                    } else if err == 0.0 {
                        ctx.count("mul.exact");
                    }
                }
                // sum: the exact error by Knuth's TwoSum; a tie is an error of exactly half an ulp
                let sm = f64::from(add);
                if sm.is_finite() && sm.abs() >= f64::from_bits(0x03f0_0000_0000_0000) && x.is_finite() && y.is_finite() {
                    let bb = sm - x;
                    let err = (x - (sm - bb)) + (y - bb);
                    if !half_ulp_ok(sm, err) {
                        ctx.fail("f64-add-half-ulp", &format!("{:016x} + {:016x} = {:016x} is off by more than half an ulp", bits(a), bits(b), bits(add)));
                    }
                    if err.abs() == half_ulp(sm) {
                        ctx.count("add.exact-tie");
                    } else if err == 0.0 {
                        ctx.count("add.exact");
                    } else {
                        ctx.count("add.inexact");
                    }
                }
                // quotient: q*y - x exactly by FMA, |q*y - x| ≤ ulp(q)/2 * |y|
                let q = f64::from(div);
                if q.is_finite() && y.is_finite() && x.is_finite() && q.abs() >= f64::from_bits(0x03f0_0000_0000_0000)
                    && q.abs() <= f64::from_bits(0x7c00_0000_0000_0000) && y.abs() >= f64::from_bits(0x0400_0000_0000_0000)
                    && y.abs() <= f64::from_bits(0x7c00_0000_0000_0000) && x.abs() >= f64::from_bits(0x0800_0000_0000_0000)
                {
                    let res = q.mul_add(y, -x); // exact: q*y - x fits in 53 bits when q is correctly rounded
                    let e = ((q.to_bits() >> 52) & 0x7ff) as i32;
                    let half_ulp = f64::from_bits(((e - 53).max(1) as u64) << 52);
                    if res.abs() > half_ulp * y.abs() {
                        ctx.fail("f64-div-half-ulp", &format!("{:016x} / {:016x} = {:016x} is off by more than half an ulp", bits(a), bits(b), bits(div)));
                    }
                    ctx.count("div.fma-checked");
                }
                // partial_cmp / ==
                let c = a.partial_cmp(&b);
                let e = if x.is_nan() && y.is_nan() { Some(Ordering::Equal) } else { x.partial_cmp(&y) };
                if c != e {
                    ctx.fail("f64-cmp", &format!("{:016x} <=> {:016x} gives {} expected {}", bits(a), bits(b), cmp_tok(c), cmp_tok(e)));
                }
                if b.partial_cmp(&a) != c.map(Ordering::reverse) {
                    ctx.fail("f64-cmp-antisym", &format!("{:016x} <=> {:016x} is not antisymmetric", bits(a), bits(b)));
                }
                let eq = a == b;
                if eq != (c == Some(Ordering::Equal)) || eq != (bits(a) == bits(b)) {
                    ctx.fail("f64-eq", &format!("{:016x} == {:016x} is {} but partial_cmp says {}", bits(a), bits(b), eq, cmp_tok(c)));
                }
                ctx.count(&format!("cmp.{}", cmp_tok(c)));
                format!("{:016x} {:016x} {:016x} {:016x} {} {}", bits(add), bits(sub), bits(mul), bits(div), cmp_tok(c), eq as u8)
            }
            ["r", a, b] => {
                let (Some(ab), Some(bb)) = (parse_hex(a), parse_hex(b)) else { return "bad-op".into() };
                let (x, y) = (f64::from_bits(ab), f64::from_bits(bb));
                ctx.count("r");
                let (s, d, p, q) = (std::hint::black_box(x) + std::hint::black_box(y), std::hint::black_box(x) - y, std::hint::black_box(x) * y, std::hint::black_box(x) / y);
                for (nm, v) in [("add", s), ("sub", d), ("mul", p), ("div", q)] {
                    if v.to_bits() == 0x8000_0000_0000_0000 {
                        ctx.count(&format!("raw.{}.negzero", nm));
                    }
                }
                format!("{} {} {} {} {}", raw_tok(s), raw_tok(d), raw_tok(p), raw_tok(q), cmp_tok(x.partial_cmp(&y)))
            }
            ["n", a] => {
                let Some(ab) = parse_hex(a) else { return "bad-op".into() };
                let v = F64::from(f64::from_bits(ab));
                ctx.count("n");
                if bits(v) != norm_ref(f64::from_bits(ab)) {
                    ctx.fail("f64-from", &format!("F64::from({:016x}) = {:016x}", ab, bits(v)));
                }
                format!("{:016x}", bits(v))
            }
            _ => "bad-op".into(),
        }
    }
}

/// the boundary set named in the task
fn boundary() -> Vec<u64> {
    let mut v: Vec<u64> = vec![
        0x0000_0000_0000_0000, // +0
        0x8000_0000_0000_0000, // -0
        0x0000_0000_0000_0001, // min subnormal
        0x8000_0000_0000_0001,
        0x0000_0000_0000_0002,
        0x0000_0000_0000_0003,
        0x000f_ffff_ffff_ffff, // max subnormal
        0x800f_ffff_ffff_ffff,
        0x0010_0000_0000_0000, // min normal
        0x8010_0000_0000_0000,
        0x0010_0000_0000_0001,
        0x001f_ffff_ffff_ffff,
        0x0020_0000_0000_0000,
        0x3ff0_0000_0000_0000, // 1
        0xbff0_0000_0000_0000, // -1
        0x3ff0_0000_0000_0001, // 1 + ulp
        0x3fef_ffff_ffff_ffff, // 1 - ulp/2
        0x3ff0_0000_0000_0002,
        0x3ff8_0000_0000_0000, // 1.5
        0x4000_0000_0000_0000, // 2
        0x4008_0000_0000_0000, // 3
        0xc008_0000_0000_0000, // -3
        0x4024_0000_0000_0000, // 10
        0x3fb9_9999_9999_999a, // 0.1
        0x3fd5_5555_5555_5555, // 1/3
        0x401c_0000_0000_0000, // 7
        0x3fe0_0000_0000_0000, // 0.5
        0x3ca0_0000_0000_0000, // 2^-53 (half ulp of 1)
        0x3cb0_0000_0000_0000, // 2^-52
        0x3ca0_0000_0000_0001,
        0x4330_0000_0000_0000, // 2^52
        0x4330_0000_0000_0001,
        0x4340_0000_0000_0000, // 2^53
        0x4340_0000_0000_0001, // 2^53 + 2
        0xc340_0000_0000_0000,
        0x433f_ffff_ffff_ffff, // 2^53 - 1
        0x7fef_ffff_ffff_ffff, // max finite
        0xffef_ffff_ffff_ffff,
        0x7fe0_0000_0000_0000, // 2^1023
        0x7fdf_ffff_ffff_ffff,
        0x7ca0_0000_0000_0000, // 2^971 = half ulp of max finite
        0x7c90_0000_0000_0000,
        0x7ca0_0000_0000_0001,
        0x5fe0_0000_0000_0000, // 2^511
        0x5ff0_0000_0000_0000, // 2^512
        0x5fef_ffff_ffff_ffff,
        0x1ff0_0000_0000_0000, // 2^-512
        0x1e60_0000_0000_0000, // 2^-537 (square = 2^-1074)
        0x1e50_0000_0000_0000, // 2^-538 (square = 2^-1076: rounds to 0)
        0x1e58_0000_0000_0000,
        0x0000_0000_0000_0000 | (1 << 51), // 2^-1023
        0x7ff0_0000_0000_0000, // +inf
        0xfff0_0000_0000_0000, // -inf
        0x7ff8_0000_0000_0000, // canonical NaN
        0xfff8_0000_0000_0000, // negative quiet NaN
        0x7ff0_0000_0000_0001, // signalling NaN
        0x7ff8_0000_0000_0001,
        0xfff4_0000_dead_beef,
        0x7fff_ffff_ffff_ffff,
        0xffff_ffff_ffff_ffff,
    ];
    // 2^53+1 is not representable; values whose sums are exact ties: 2^53 + 1, 2^53 + 3 (as sums)
    for k in [1u64, 3, 5, 7] {
        v.push((k as f64).to_bits());
        v.push((-(k as f64)).to_bits());
    }
    // products that are exact ties: (2^27 + 1)^2 = 2^54 + 2^28 + 1; (2^26+1)(2^27+1) …
    for x in [134217729.0f64, 67108865.0, 94906267.0, 4503599627370497.0, 3.0e-320, 1.0e308, 1.7e308, 4.9e-324, 2.5e-324] {
        v.push(x.to_bits());
    }
    v
}

fn rnd_bits(rng: &mut Rng, class: u64, bnd: &[u64]) -> (u64, u64) {
    let sparse = |rng: &mut Rng| -> u64 {
        // mantissa with few set bits at the top and at the bottom (ties, exact results)
        let mut m = 0u64;
        for _ in 0..rng.below(4) {
            m |= 1 << rng.below(52);
        }
        if rng.chance(1, 2) {
            m |= rng.below(8);
        }
        if rng.chance(1, 4) {
            m |= ((1u64 << 52) - 1) & !((1u64 << rng.below(52)) - 1);
        }
        m
    };
    let mant = |rng: &mut Rng| -> u64 {
        if rng.chance(1, 2) { rng.next() & ((1 << 52) - 1) } else { sparse(rng) }
    };
    let sign = |rng: &mut Rng| -> u64 { rng.below(2) << 63 };
    let mk = |s: u64, e: u64, m: u64| -> u64 { s | (e.min(2046) << 52) | m };
    match class {
        // uniformly random patterns
        0 => (rng.next(), rng.next()),
        // close exponents (sums with carries, cancellation)
        1 => {
            let e = rng.range(0, 2046);
            let d = rng.below(56);
            let e2 = if rng.chance(1, 2) { e.saturating_sub(d) } else { (e + d).min(2046) };
            (mk(sign(rng), e, mant(rng)), mk(sign(rng), e2, mant(rng)))
        }
        // same exponent, opposite sign, nearly equal (massive cancellation, subnormal differences)
        2 => {
            let e = rng.range(0, 2046);
            let m = mant(rng);
            let m2 = m ^ (rng.below(16) << rng.below(49));
            let s = sign(rng);
            (mk(s, e, m), mk(s ^ (1 << 63), e, m2 & ((1 << 52) - 1)))
        }
        // products at the overflow / underflow boundary: ea + eb - 1023 near 2047 or near 0 / -52
        3 => {
            let ea = rng.range(1, 2046);
            let target: i64 = match rng.below(4) {
                0 => 2046 + rng.range(0, 2) as i64,
                1 => 1022 + rng.range(0, 2) as i64, // results near 1
                2 => -(rng.range(0, 56) as i64),    // deep underflow
                _ => rng.range(0, 3) as i64,
            };
            let eb = (target + 1023 - ea as i64).clamp(0, 2046) as u64;
            (mk(sign(rng), ea, mant(rng)), mk(sign(rng), eb, mant(rng)))
        }
        // quotients at the boundaries: ea - eb + 1023 near 2047 or near 0 / -52
        4 => {
            let eb = rng.range(1, 2046);
            let target: i64 = match rng.below(4) {
                0 => 2045 + rng.range(0, 3) as i64,
                1 => 1022 + rng.range(0, 2) as i64,
                2 => -(rng.range(0, 56) as i64),
                _ => rng.range(0, 3) as i64,
            };
            let ea = (target + eb as i64 - 1023).clamp(0, 2046) as u64;
            (mk(sign(rng), ea, mant(rng)), mk(sign(rng), eb, mant(rng)))
        }
        // subnormal operands
        5 => {
            let a = sign(rng) | (rng.next() & ((1 << 52) - 1)) >> rng.below(52);
            let b = if rng.chance(1, 2) {
                sign(rng) | (rng.next() & ((1 << 52) - 1)) >> rng.below(52)
            } else {
                mk(sign(rng), rng.range(0, 2046), mant(rng))
            };
            if rng.chance(1, 2) { (a, b) } else { (b, a) }
        }
        // one operand from the boundary set
        6 => {
            let a = *rng.pick(bnd);
            let b = mk(sign(rng), rng.range(0, 2047), mant(rng));
            if rng.chance(1, 2) { (a, b) } else { (b, a) }
        }
        // exact ties on purpose
        8 => {
            let s1 = sign(rng);
            let s2 = sign(rng);
            match rng.below(4) {
                // x + half an ulp of x (and x - half an ulp at a binade boundary)
                0 => {
                    let e = rng.range(54, 2046);
                    (mk(s1, e, rng.next() & ((1 << 52) - 1)), mk(if rng.chance(3, 4) { s1 } else { s2 }, e - 53, 0))
                }
                // odd k-bit times odd (54-k)-bit integer with a 54-bit product: the dropped bit is exactly one half
                1 => loop {
                    let k = rng.range(2, 52);
                    let a = (1u64 << (k - 1)) | (rng.next() & ((1 << (k - 1)) - 1)) | 1;
                    let kb = 54 - k + rng.below(2);
                    let b = (1u64 << (kb - 1)) | (rng.next() & ((1 << (kb - 1)) - 1)) | 1;
                    if 128 - (a as u128 * b as u128).leading_zeros() == 54 {
                        let sa = f64::from_bits(rng.range(400, 1600) << 52);
                        let sb = f64::from_bits(rng.range(400, 1600) << 52);
                        break (s1 | (a as f64 * sa).to_bits(), s2 | (b as f64 * sb).to_bits());
                    }
                },
                // subnormal ties of products and quotients: odd 53-bit mantissa M at exponent field E ≤ 53
                // is M·2^(E-1) units; times 2^-E (or divided by 2^E) it is M/2 units
                2 => {
                    let e = rng.range(1, 53);
                    let a = mk(s1, e, (rng.next() & ((1 << 52) - 1)) | 1);
                    (a, mk(s2, 1023 - e, 0))
                }
                _ => {
                    let e = rng.range(1, 53);
                    let a = mk(s1, e, (rng.next() & ((1 << 52) - 1)) | 1);
                    (a, mk(s2, 1023 + e, 0))
                }
            }
        }
        // small integers and their reciprocals (repeating quotients, exact ties)
        _ => {
            let (ka, kb) = (rng.range(1, 54), rng.range(1, 54));
            let a = (rng.range(1, 1 << ka) as f64) * if rng.chance(1, 2) { -1.0 } else { 1.0 };
            let b = rng.range(1, 1 << kb) as f64;
            let sc = f64::from_bits(rng.range(1, 2046) << 52);
            if rng.chance(1, 3) { (a.to_bits(), b.to_bits()) } else { ((a * sc).to_bits(), b.to_bits()) }
        }
    }
}

fn generate(cfg: &GenCfg, rng: &mut Rng, w: &mut dyn Write) {
    let bnd = boundary();
    writeln!(w, "case boundary").unwrap();
    for &a in &bnd {
        writeln!(w, "n {:016x}", a).unwrap();
    }
    for &a in &bnd {
        for &b in &bnd {
            writeln!(w, "f {:016x} {:016x}", a, b).unwrap();
            writeln!(w, "r {:016x} {:016x}", a, b).unwrap();
        }
    }
    // random pairs: ≥ 100 000 per operator (every `f` line runs all four operators and the
    // comparison) in the quick tier
    let n = if cfg.thorough { 1_800_000 } else { 117_000 } * cfg.scale.max(1);
    for class in 0..9u64 {
        writeln!(w, "case random-{}", class).unwrap();
        for _ in 0..n / 9 {
            let (a, b) = rnd_bits(rng, class, &bnd);
            writeln!(w, "f {:016x} {:016x}", a, b).unwrap();
            if class != 0 || rng.chance(1, 2) {
                writeln!(w, "r {:016x} {:016x}", a, b).unwrap();
            }
        }
    }
    writeln!(w, "case malformed").unwrap();
    for l in ["f 0 ", "f zz 0", "x 0 0", "r 0", "n", "f 00000000000000000 0", "add 0 0"] {
        writeln!(w, "{}", l).unwrap();
    }
}

fn make(_f: &BTreeMap<String, String>) -> Box<dyn Scenario> {
    Box::new(Sc)
}
fn main() {
    harness_main(generate, make)
}
