//! C10/C01/C15: every `F64` terminal that enters a manager is normalised (one NaN, no `-0.0`), also
//! when it comes out of `F64::parse` (`ParseTagged`, used by the DDDMP importer for MTBDD terminals).
//! Oracle-only scenario (found as a defect of the unchanged code by the translator's `ObF64`
//! obligation, repaired in /repo "fix: F64::parse normalises …"; this stream gives the concrete
//! failing input if it ever returns).
//!
//! lines: `parse <token>` → `<16 hex digits>` | `none`
use std::collections::BTreeMap;
use std::io::Write;
use std::str::FromStr;

use oxidd_core::function::NumberBase;
use oxidd_dump::ParseTagged;
use oxidd_rules_mtbdd::terminal::F64;
use oxv::*;

struct Sc;

impl Scenario for Sc {
    fn reset(&mut self) {}
    fn step(&mut self, line: &str, ctx: &mut Ctx) -> String {
        let w = words(line);
        if w.len() != 2 || w[0] != "parse" {
            return "bad-op".into();
        }
        match <F64 as ParseTagged<()>>::parse(w[1]) {
            None => {
                ctx.count("parse.none");
                "none".into()
            }
            Some((v, _)) => {
                ctx.count("parse.some");
                let bits = f64::from(v).to_bits();
                let x = f64::from_bits(bits);
                if x.is_nan() && v != F64::nan() {
                    ctx.fail("f64-parse-unnormalised", &format!("parse({:?}) is a NaN with bits {:#018x}, unequal to F64::nan()", w[1], bits));
                }
                if x == 0.0 && x.is_sign_negative() {
                    ctx.fail("f64-parse-unnormalised", &format!("parse({:?}) is -0.0 (bits {:#018x}), unequal to F64::from(-0.0)", w[1], bits));
                }
                // an independent reading of plain decimal tokens: the normalised `from_str` value
                if let Ok(r) = f64::from_str(w[1]) {
                    if v != F64::from(r) {
                        ctx.fail("f64-parse-value", &format!("parse({:?}) = bits {:#018x}, F64::from(from_str) = bits {:#018x}", w[1], bits, f64::from(F64::from(r)).to_bits()));
                    }
                }
                // arithmetic re-normalises: x + 0 must be the same terminal as x (one representation per value)
                if !x.is_nan() && v.add(&F64::zero()) != v {
                    ctx.fail("f64-parse-unnormalised", &format!("parse({:?}) + 0 differs from parse({:?})", w[1], w[1]));
                }
                format!("{:016x}", bits)
            }
        }
    }
}

fn generate(cfg: &GenCfg, rng: &mut Rng, w: &mut dyn Write) {
    writeln!(w, "case tokens").unwrap();
    for t in [
        "0", "-0", "+0", "-0.0", "0.0", "-0e5", "-0.0e-3", "1", "-1", "1.5", "-2.25e3", "nan", "-nan", "+nan", "NaN", "-NaN", "NAN", "inf", "-inf", "+inf", "Inf",
        "-Inf", "infinity", "-infinity", "Infinity", "INF", "PlusInf", "MinusInf", "1e400", "-1e400", "1e-400", "-1e-400", "4.9e-324", "-4.9e-324", "2.4e-324",
        "-2.4e-324", "1.7976931348623157e308", "0x10", "", "abc", "--1", "1e", ".5", "5.", "-.0",
    ] {
        if !t.is_empty() {
            writeln!(w, "parse {}", t).unwrap();
        }
    }
    writeln!(w, "case random").unwrap();
    for _ in 0..(if cfg.thorough { 20000 } else { 2000 }) {
        let sign = *rng.pick(&["", "-", "+"]);
        let body = match rng.below(5) {
            0 => format!("0.{}", "0".repeat(rng.below(4) as usize)),
            1 => format!("{}e-{}", rng.below(10), 300 + rng.below(60)),
            2 => format!("{}.{}e{}", rng.below(1000), rng.below(1000), rng.below(20)),
            3 => format!("{}", rng.below(1 << 20)),
            _ => (*rng.pick(&["nan", "NaN", "inf", "Inf", "0", "0e0", "0.0e10"])).to_string(),
        };
        writeln!(w, "parse {}{}", sign, body).unwrap();
    }
    writeln!(w, "case malformed").unwrap();
    writeln!(w, "parse").unwrap();
    writeln!(w, "parse 1 2").unwrap();
}

fn make(_f: &BTreeMap<String, String>) -> Box<dyn Scenario> {
    Box::new(Sc)
}

fn main() {
    harness_main(generate, make)
}
