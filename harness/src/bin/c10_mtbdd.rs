//! C10 — MTBDD arithmetic is the pointwise lifting of exact terminal arithmetic.
//!
//! Protocol `mtbdd` (see /verif/lean/OxiddModel/Mtbdd/Driver.lean):
//!
//! ```text
//! i64 add|sub|mul|div a b   -> <terminal>      a, b ∈ nan | -inf | +inf | <int>
//! i64 cmp a b               -> lt|eq|gt|none
//! f64 add|sub|mul|div a b   -> <16 hex digits> a, b bit patterns (normalised on input)
//! f64 cmp a b               -> lt|eq|gt|none
//! mgr <nvars> [f64]         -> ok
//! const h <terminal> | var h <v> | op h add|sub|mul|div|min|max h1 h2
//! ite h c t e | restrict h f cube   -> unfolded tree of h | err precond
//! eval h <bits>             -> <terminal>
//! clone h a | drop a | dropall       -> ok
//! eq a b                    -> 1 | 0   (oracle C01: equal handles <=> equal value tables)
//! gc                        -> <inner nodes> <terminals> after the collection (oracles C05: exactly
//!                              what live handles reach remains, return value = before - after,
//!                              value tables unchanged, reference counts)
//! rcchk                     -> ok      (ref_count of every stored node = handles + parent edges)
//! order v… [seq=1]          -> new level->variable list (oracles C08: value tables unchanged,
//!                              requested order established, structural audit)
//! mgr <n> [f64] inner=<k> terms=<k>  -> C14: every line also runs on a manager with these
//!                              capacities (oracles only; the printed output is the reference's)
//! ```
//! Suite `termcap` (`gen --suite termcap`, oracle only: capacities are not modelled): cases
//! `termcap-…` use the protocol above on a manager whose terminal (or inner-node) store is tiny
//! plus
//! ```text
//! taudit                    -> <inner nodes> <terminals>   terminal reference-count audit: every
//!                              stored terminal held by an iterator edge survives a collection, after
//!                              giving the edges back exactly the terminals live handles reach remain
//! ```
//! and print `<reference output>` or `<reference output> ## <output under the capacity>`.
//! Additional oracles in these cases: a failing request is legitimate only if the terminals it
//! needs do not fit (`oom-with-room`), terminal slots change their value only across a regular
//! collection (`terminal-reclaimed-outside-gc`), every live handle keeps its value table after
//! every line.
//! Cases named `kf-mtbdd-…` are executed by a child process (`<exe> kf-child`); if it dies the
//! remaining lines of the case answer `ABORT` and a `crash` failure is reported.
//!
//! Oracles (all on the real code, independent of the Lean model): every scalar result is compared
//! with 128-bit reference arithmetic written from the property text; every diagram result is
//! evaluated under ALL assignments and compared with the reference operation applied to the
//! operands' values; `eval` is cross-checked against a walk over the node structure; every result
//! is audited for the MTBDD normal form (ordered, no node with equal children).

use oxidd::mtbdd::terminal::{F64, I64};
use oxidd::mtbdd::{MTBDDFunction, MTBDDManagerRef};
use oxidd::{
    Edge, Function, HasLevel, InnerNode, Manager, ManagerRef, Node, NumberBase, PseudoBooleanFunction,
};
use oxidd_core::LevelView;
use oxv::*;
use std::borrow::Borrow;
use std::cmp::Ordering;
use std::collections::{BTreeMap, HashMap, HashSet};
use std::io::Write;

// ------------------------------------------------------------------------------------------
// Reference arithmetic (from the property text, not from the code)
// ------------------------------------------------------------------------------------------

/// extended integer: exact value in 128 bits
#[derive(Clone, Copy, PartialEq, Eq, Debug)]
enum R {
    NaN,
    NInf,
    Fin(i128),
    PInf,
}

fn r_of(x: I64) -> R {
    match x {
        I64::NaN => R::NaN,
        I64::MinusInf => R::NInf,
        I64::PlusInf => R::PInf,
        I64::Num(n) => R::Fin(n as i128),
    }
}

/// exact integer result -> representable, or the infinity of its sign
fn r_fit(x: i128) -> I64 {
    if x > i64::MAX as i128 {
        I64::PlusInf
    } else if x < i64::MIN as i128 {
        I64::MinusInf
    } else {
        I64::Num(x as i64)
    }
}

fn r_sign(x: R) -> i32 {
    match x {
        R::NaN => 0,
        R::NInf => -1,
        R::PInf => 1,
        R::Fin(n) => n.signum() as i32,
    }
}

fn inf_of_sign(s: i32) -> I64 {
    match s {
        1 => I64::PlusInf,
        -1 => I64::MinusInf,
        _ => I64::NaN,
    }
}

/// order of the extended integers (no NaN)
fn r_key(x: R) -> (i32, i128) {
    match x {
        R::NInf => (-1, 0),
        R::Fin(n) => (0, n),
        R::PInf => (1, 0),
        R::NaN => unreachable!(),
    }
}

fn ref_i64(op: &str, a: I64, b: I64) -> I64 {
    let (x, y) = (r_of(a), r_of(b));
    if x == R::NaN || y == R::NaN {
        return I64::NaN;
    }
    match op {
        "add" | "sub" => {
            // a - b = a + (-b) on the extended integers
            let y = if op == "add" {
                y
            } else {
                match y {
                    R::NInf => R::PInf,
                    R::PInf => R::NInf,
                    R::Fin(n) => R::Fin(-n),
                    R::NaN => R::NaN,
                }
            };
            match (x, y) {
                (R::Fin(p), R::Fin(q)) => r_fit(p + q),
                (R::PInf, R::NInf) | (R::NInf, R::PInf) => I64::NaN, // inf - inf
                (R::PInf, _) | (_, R::PInf) => I64::PlusInf,
                _ => I64::MinusInf,
            }
        }
        "mul" => match (x, y) {
            (R::Fin(p), R::Fin(q)) => r_fit(p * q),
            // an infinity is involved: sign rule, 0 * inf is undefined
            _ => inf_of_sign(r_sign(x) * r_sign(y)),
        },
        "div" => match (x, y) {
            (R::Fin(p), R::Fin(0)) => inf_of_sign(p.signum() as i32), // x/0, 0/0 = NaN
            (R::Fin(p), R::Fin(q)) => r_fit(p / q),                   // i128 `/` truncates toward 0
            (R::Fin(_), _) => I64::Num(0),                            // finite / inf
            (_, R::Fin(q)) => inf_of_sign(r_sign(x) * if q < 0 { -1 } else { 1 }), // inf / finite, inf/0 by sign of x
            _ => I64::NaN,                                            // inf / inf
        },
        "min" => {
            if r_key(x) <= r_key(y) {
                a
            } else {
                b
            }
        }
        "max" => {
            if r_key(x) >= r_key(y) {
                a
            } else {
                b
            }
        }
        _ => unreachable!(),
    }
}

fn ref_cmp_i64(a: I64, b: I64) -> Option<Ordering> {
    let (x, y) = (r_of(a), r_of(b));
    match (x, y) {
        (R::NaN, R::NaN) => Some(Ordering::Equal), // `nan() == nan()` is documented to hold
        (R::NaN, _) | (_, R::NaN) => None,
        _ => Some(r_key(x).cmp(&r_key(y))),
    }
}

fn f64_norm(x: f64) -> f64 {
    if x.is_nan() {
        f64::NAN
    } else if x == 0.0 {
        0.0
    } else {
        x
    }
}

fn ref_f64(op: &str, a: F64, b: F64) -> F64 {
    let (x, y) = (f64::from(a), f64::from(b));
    let r = match op {
        "add" => x + y,
        "sub" => x - y,
        "mul" => x * y,
        "div" => x / y,
        "min" => {
            if x.is_nan() || y.is_nan() {
                f64::NAN
            } else if x <= y {
                x
            } else {
                y
            }
        }
        "max" => {
            if x.is_nan() || y.is_nan() {
                f64::NAN
            } else if x >= y {
                x
            } else {
                y
            }
        }
        _ => unreachable!(),
    };
    F64::from(f64_norm(r))
}

// ------------------------------------------------------------------------------------------
// Terminal kinds
// ------------------------------------------------------------------------------------------

trait Term: NumberBase + Copy + Send + Sync + 'static {
    const KIND: &'static str;
    fn parse(s: &str) -> Option<Self>;
    fn tok(&self) -> String;
    /// reference semantics of add|sub|mul|div|min|max
    fn reference(op: &str, a: Self, b: Self) -> Self;
}

fn parse_i64(s: &str) -> Option<I64> {
    match s {
        "nan" => Some(I64::NaN),
        "-inf" => Some(I64::MinusInf),
        "+inf" => Some(I64::PlusInf),
        _ if s.starts_with('+') => None,
        _ => s.parse::<i64>().ok().map(I64::Num),
    }
}

fn tok_i64(x: I64) -> String {
    match x {
        I64::NaN => "nan".into(),
        I64::MinusInf => "-inf".into(),
        I64::PlusInf => "+inf".into(),
        I64::Num(n) => n.to_string(),
    }
}

fn parse_hex(s: &str) -> Option<u64> {
    if s.len() != 16 || !s.bytes().all(|c| c.is_ascii_digit() || (b'a'..=b'f').contains(&c)) {
        return None;
    }
    u64::from_str_radix(s, 16).ok()
}

fn bits_f64(x: F64) -> u64 {
    f64::from(x).to_bits()
}

impl Term for I64 {
    const KIND: &'static str = "i64";
    fn parse(s: &str) -> Option<Self> {
        parse_i64(s)
    }
    fn tok(&self) -> String {
        tok_i64(*self)
    }
    fn reference(op: &str, a: Self, b: Self) -> Self {
        ref_i64(op, a, b)
    }
}

impl Term for F64 {
    const KIND: &'static str = "f64";
    fn parse(s: &str) -> Option<Self> {
        parse_hex(s).map(|b| F64::from(f64::from_bits(b)))
    }
    fn tok(&self) -> String {
        format!("f{:016x}", bits_f64(*self))
    }
    fn reference(op: &str, a: Self, b: Self) -> Self {
        ref_f64(op, a, b)
    }
}

fn cmp_tok(o: Option<Ordering>) -> &'static str {
    match o {
        Some(Ordering::Less) => "lt",
        Some(Ordering::Equal) => "eq",
        Some(Ordering::Greater) => "gt",
        None => "none",
    }
}

// ------------------------------------------------------------------------------------------
// Structure walks over the real diagram
// ------------------------------------------------------------------------------------------

/// the unfolded tree (independent of `eval`): leaves carry values, nodes variable numbers
#[derive(Clone, PartialEq)]
enum Tree<T> {
    Leaf(T),
    Node(u32, Box<Tree<T>>, Box<Tree<T>>),
}

fn unfold_rec<M, T: Term>(m: &M, e: &M::Edge) -> Tree<T>
where
    M: Manager<Terminal = T>,
    M::InnerNode: HasLevel,
{
    match m.get_node(e) {
        Node::Inner(n) => {
            let v = m.level_to_var(n.level());
            let t = unfold_rec(m, &n.child(0));
            let e = unfold_rec(m, &n.child(1));
            Tree::Node(v, Box::new(t), Box::new(e))
        }
        Node::Terminal(t) => Tree::Leaf(*t.borrow()),
    }
}

fn unfold<T: Term>(f: &MTBDDFunction<T>) -> Tree<T> {
    f.with_manager_shared(|m, e| unfold_rec(m, e))
}

impl<T: Term> Tree<T> {
    fn show(&self, out: &mut String) {
        match self {
            Tree::Leaf(t) => {
                out.push('#');
                out.push_str(&t.tok());
            }
            Tree::Node(v, t, e) => {
                out.push_str(&format!("(v{} ", v));
                t.show(out);
                out.push(' ');
                e.show(out);
                out.push(')');
            }
        }
    }
    fn walk(&self, bits: u32) -> T {
        match self {
            Tree::Leaf(t) => *t,
            Tree::Node(v, t, e) => {
                if (bits >> v) & 1 != 0 {
                    t.walk(bits)
                } else {
                    e.walk(bits)
                }
            }
        }
    }
    /// ordered (levels increase strictly downwards; `v2l` maps variables to levels) and reduced
    fn nf(&self, lb: u32, v2l: &[u32]) -> bool {
        match self {
            Tree::Leaf(_) => true,
            Tree::Node(v, t, e) => {
                let l = v2l[*v as usize];
                l >= lb && t != e && t.nf(l + 1, v2l) && e.nf(l + 1, v2l)
            }
        }
    }
    fn show_string(&self) -> String {
        let mut s = String::new();
        self.show(&mut s);
        s
    }
    /// distinct inner sub-diagrams (as printed trees) and distinct terminal values below this root
    fn collect(&self, inner: &mut HashSet<String>, terms: &mut HashSet<String>) {
        match self {
            Tree::Leaf(t) => {
                terms.insert(t.tok());
            }
            Tree::Node(_, t, e) => {
                if inner.insert(self.show_string()) {
                    t.collect(inner, terms);
                    e.collect(inner, terms);
                }
            }
        }
    }
    fn zero_one(&self) -> bool {
        match self {
            Tree::Leaf(t) => t.is_zero() || t.is_one(),
            Tree::Node(_, t, e) => t.zero_one() && e.zero_one(),
        }
    }
    /// literal list if this is a conjunction of literals
    fn cube(&self) -> Option<Vec<(u32, bool)>> {
        match self {
            Tree::Leaf(t) => {
                if t.is_one() {
                    Some(vec![])
                } else {
                    None
                }
            }
            Tree::Node(v, t, e) => {
                let is_zero = |x: &Tree<T>| matches!(x, Tree::Leaf(z) if z.is_zero());
                if is_zero(e) {
                    let mut r = t.cube()?;
                    r.insert(0, (*v, true));
                    Some(r)
                } else if is_zero(t) {
                    let mut r = e.cube()?;
                    r.insert(0, (*v, false));
                    Some(r)
                } else {
                    None
                }
            }
        }
    }
    fn is_leaf(&self) -> Option<T> {
        match self {
            Tree::Leaf(t) => Some(*t),
            _ => None,
        }
    }
}

// ------------------------------------------------------------------------------------------
// Scenario
// ------------------------------------------------------------------------------------------

struct MgrState<T: Term> {
    // field order: handles are dropped before the manager
    hs: HashMap<String, MTBDDFunction<T>>,
    /// value table of every live handle at the time it was created (gc, reordering and failed
    /// operations must not change it)
    tabs: HashMap<String, Vec<T>>,
    mref: MTBDDManagerRef<T>,
    n: u32,
    inner_cap: usize,
    term_cap: usize,
}

const DEFAULT_INNER: usize = 1 << 12;
const DEFAULT_TERMS: usize = 1 << 10;

/// what the structural audit (C03-style, through the public API) found
struct Audit {
    /// (level, printed tree, reference count) of every stored inner node (garbage included)
    nodes: Vec<(u32, String, usize)>,
    /// printed children of every stored inner node
    child_trees: Vec<String>,
}

fn audit_rec<M, T: Term>(m: &M) -> Result<Audit, String>
where
    M: Manager<Terminal = T>,
    M::InnerNode: HasLevel,
{
    let n = m.num_levels();
    if m.num_vars() != n {
        return Err(format!("num_vars {} != num_levels {}", m.num_vars(), n));
    }
    for l in 0..n {
        let v = m.level_to_var(l);
        if v >= n || m.var_to_level(v) != l {
            return Err(format!("var_to_level(level_to_var({l})) != {l}"));
        }
    }
    for v in 0..n {
        if m.level_to_var(m.var_to_level(v)) != v {
            return Err(format!("level_to_var(var_to_level({v})) != {v}"));
        }
    }
    let mut nodes = Vec::new();
    let mut child_trees = Vec::new();
    let mut seen_levels = 0;
    for view in m.levels() {
        let l = view.level_no();
        seen_levels += 1;
        let mut dups: HashSet<Vec<usize>> = HashSet::new();
        if view.len() != view.iter().count() {
            return Err(format!("level {l}: len() = {} but the iterator yields {} nodes", view.len(), view.iter().count()));
        }
        for e in view.iter() {
            let node = match m.get_node(e) {
                Node::Inner(n) => n,
                Node::Terminal(_) => return Err(format!("level {l} lists a terminal")),
            };
            let shown = unfold_rec::<M, T>(m, e).show_string();
            if !node.check_level(|x| x == l) {
                return Err(format!("level {l} lists node {shown} that reports level {}", node.level()));
            }
            let mut key = Vec::new();
            for c in node.children() {
                if let Node::Inner(cn) = m.get_node(&c) {
                    if cn.level() <= l {
                        return Err(format!("node {shown} at level {l} has a child at level {}", cn.level()));
                    }
                }
                key.push(c.node_id());
                child_trees.push(unfold_rec::<M, T>(m, &c).show_string());
            }
            if key.len() != 2 {
                return Err(format!("node {shown} has {} children", key.len()));
            }
            if key[0] == key[1] {
                return Err(format!("node {shown} at level {l} has two equal children (not reduced)"));
            }
            if !dups.insert(key) {
                return Err(format!("level {l}: two nodes with identical children ({shown})"));
            }
            nodes.push((l, shown, node.ref_count()));
        }
    }
    if seen_levels != n {
        return Err(format!("levels() yields {seen_levels} levels, num_levels() = {n}"));
    }
    if nodes.len() != m.num_inner_nodes() {
        return Err(format!("num_inner_nodes() = {} but iterating the levels finds {}", m.num_inner_nodes(), nodes.len()));
    }
    // terminals: the iterator hands out owned edges which have to be given back
    let mut vals: HashSet<String> = HashSet::new();
    let mut count = 0usize;
    let mut dup = None;
    let edges: Vec<M::Edge> = m.terminals().collect();
    for e in edges {
        match m.get_node(&e) {
            Node::Terminal(t) => {
                count += 1;
                let tk = t.borrow().tok();
                if !vals.insert(tk.clone()) {
                    dup = Some(tk);
                }
            }
            Node::Inner(_) => dup = Some("an inner node".into()),
        }
        m.drop_edge(e);
    }
    if let Some(d) = dup {
        return Err(format!("terminals() lists {d} twice / wrongly"));
    }
    if count != m.num_terminals() {
        return Err(format!("num_terminals() = {} but the iterator yields {}", m.num_terminals(), count));
    }
    Ok(Audit { nodes, child_trees })
}

/// (terminal id, value) of every stored terminal, through the public iterator (owned edges, given back)
fn term_slots_rec<M, T: Term>(m: &M) -> Vec<(usize, String)>
where
    M: Manager<Terminal = T>,
{
    let edges: Vec<M::Edge> = m.terminals().collect();
    let mut v = Vec::new();
    for e in edges {
        if let Node::Terminal(t) = m.get_node(&e) {
            v.push((e.node_id(), t.borrow().tok()));
        }
        m.drop_edge(e);
    }
    v.sort();
    v
}

/// Terminal reference counts, observed through collections: while the iterator's (owned) edges are
/// held no terminal may be collected and none may change; the caller then runs the ordinary `gc`
/// line, which demands that exactly the reachable terminals remain.
fn taudit_rec<M, T: Term>(m: &M) -> Result<(usize, usize), String>
where
    M: Manager<Terminal = T>,
{
    let edges: Vec<M::Edge> = m.terminals().collect();
    let vals: Vec<String> = edges
        .iter()
        .map(|e| match m.get_node(e) {
            Node::Terminal(t) => t.borrow().tok(),
            Node::Inner(_) => "<inner node>".to_string(),
        })
        .collect();
    let before = m.num_terminals();
    let mut err = None;
    if before != edges.len() {
        err = Some(format!("num_terminals() = {} but the iterator yields {} edges", before, edges.len()));
    }
    m.gc();
    let held = m.num_terminals();
    if err.is_none() && held != before {
        err = Some(format!(
            "{} terminals were stored and every one of them was held by an edge from terminals(), but after gc() only {} are stored (the iterator's edges are not counted)",
            before, held
        ));
    }
    for (e, v) in edges.iter().zip(vals.iter()) {
        let now = match m.get_node(e) {
            Node::Terminal(t) => t.borrow().tok(),
            Node::Inner(_) => "<inner node>".to_string(),
        };
        if err.is_none() && now != *v {
            err = Some(format!("the terminal edge for {} (held across a gc) now reads {}", v, now));
        }
    }
    for e in edges {
        m.drop_edge(e);
    }
    match err {
        Some(e) => Err(e),
        None => Ok((before, held)),
    }
}

impl<T: Term> MgrState<T> {
    fn new(n: u32, inner_cap: usize, term_cap: usize) -> Self {
        let mref = oxidd::mtbdd::new_manager::<T>(inner_cap, term_cap, 1 << 10, 1);
        mref.with_manager_exclusive(|m| {
            m.add_vars(n);
        });
        MgrState { hs: HashMap::new(), tabs: HashMap::new(), mref, n, inner_cap, term_cap }
    }

    fn l2v(&self) -> Vec<u32> {
        self.mref.with_manager_shared(|m| (0..m.num_levels()).map(|l| m.level_to_var(l)).collect())
    }
    fn v2l(&self) -> Vec<u32> {
        self.mref.with_manager_shared(|m| (0..m.num_vars()).map(|v| m.var_to_level(v)).collect())
    }
    fn counts(&self) -> (usize, usize) {
        self.mref.with_manager_shared(|m| (m.num_inner_nodes(), m.num_terminals()))
    }
    fn term_slots(&self) -> Vec<(usize, String)> {
        self.mref.with_manager_shared(|m| term_slots_rec(m))
    }
    fn gc_count(&self) -> u64 {
        self.mref.with_manager_shared(|m| m.gc_count() + m.reorder_count())
    }
    /// terminal id if the handle is a constant
    fn leaf_slot(&self, h: &str) -> Option<usize> {
        let f = self.hs.get(h)?;
        f.with_manager_shared(|m, e| match m.get_node(e) {
            Node::Terminal(_) => Some(e.node_id()),
            Node::Inner(_) => None,
        })
    }
    /// distinct terminal values below a handle
    fn terms_of(&self, h: &str) -> Option<HashSet<String>> {
        let f = self.hs.get(h)?;
        let (mut inner, mut terms) = (HashSet::new(), HashSet::new());
        unfold(f).collect(&mut inner, &mut terms);
        Some(terms)
    }

    fn audit(&self, ctx: &mut Ctx, when: &str) -> Option<Audit> {
        match self.mref.with_manager_shared(|m| audit_rec(m)) {
            Ok(a) => Some(a),
            Err(e) => {
                ctx.fail("audit", &format!("structural audit {}: {}", when, e));
                None
            }
        }
    }

    /// every live handle still has the value table it was created with
    fn check_tables(&self, ctx: &mut Ctx, sig: &str, when: &str) {
        let mut names: Vec<&String> = self.hs.keys().collect();
        names.sort();
        for k in names {
            let f = &self.hs[k];
            let tab = self.table(f);
            let tree = unfold(f);
            let walk: Vec<T> = (0..(1u32 << self.n)).map(|a| tree.walk(a)).collect();
            if tab != self.tabs[k] || walk != self.tabs[k] {
                let a = (0..tab.len()).find(|&a| tab[a] != self.tabs[k][a] || walk[a] != self.tabs[k][a]).unwrap();
                ctx.fail(sig, &format!(
                    "handle {} {}: under assignment {:0w$b} (bit i = variable i) it now evaluates to {} (node walk: {}) but it was {}",
                    k, when, a, tab[a].tok(), walk[a].tok(), self.tabs[k][a].tok(), w = self.n as usize));
                break;
            }
        }
    }

    /// reference-count oracle: count of a stored inner node = live handles + stored parent edges
    fn rcchk(&self, ctx: &mut Ctx, when: &str) {
        let Some(a) = self.audit(ctx, when) else { return };
        let mut expected: HashMap<String, usize> = HashMap::new();
        for f in self.hs.values() {
            let t = unfold(f);
            if t.is_leaf().is_none() {
                *expected.entry(t.show_string()).or_insert(0) += 1;
            }
        }
        for c in &a.child_trees {
            if c.starts_with('(') {
                *expected.entry(c.clone()).or_insert(0) += 1;
            }
        }
        for (l, t, rc) in &a.nodes {
            let e = *expected.get(t).unwrap_or(&0);
            if e != *rc {
                ctx.fail("ref-count", &format!("{}: node {} at level {} reports ref_count {} but {} references exist (live handles + stored parent edges)", when, t, l, rc, e));
                break;
            }
        }
        ctx.count("rcchk");
    }

    /// truth table through the public `eval`
    fn table(&self, f: &MTBDDFunction<T>) -> Vec<T> {
        (0..(1u32 << self.n)).map(|a| f.eval((0..self.n).map(|v| (v, (a >> v) & 1 != 0)))).collect()
    }

    /// common checks on a freshly produced handle; returns its canonical output
    fn finish(&mut self, h: &str, f: MTBDDFunction<T>, expect: Option<Vec<T>>, what: &str, ctx: &mut Ctx) -> String {
        let tree = unfold(&f);
        let tab = self.table(&f);
        for a in 0..(1u32 << self.n) {
            if tree.walk(a) != tab[a as usize] {
                ctx.fail(&format!("{}-eval-walk", T::KIND), &format!("{}: eval under {:b} differs from the node walk", what, a));
                break;
            }
        }
        if !tree.nf(0, &self.v2l()) {
            ctx.fail(&format!("{}-nf", T::KIND), &format!("{}: result is not ordered/reduced", what));
        }
        if let Some(exp) = expect {
            for a in 0..(1usize << self.n) {
                if exp[a] != tab[a] {
                    ctx.fail(
                        &format!("{}-{}", T::KIND, what.split(' ').next().unwrap_or("?")),
                        &format!(
                            "{}: under assignment {:0w$b} (bit i = variable i) the result is {} but the property demands {}",
                            what,
                            a,
                            tab[a].tok(),
                            exp[a].tok(),
                            w = self.n as usize
                        ),
                    );
                    break;
                }
            }
        }
        let mut s = String::new();
        tree.show(&mut s);
        self.hs.insert(h.to_string(), f);
        self.tabs.insert(h.to_string(), tab);
        s
    }

    /// an operation reported `OutOfMemory`: the target handle is not (re)bound
    fn oom(&mut self, h: &str, ctx: &mut Ctx) -> String {
        self.hs.remove(h);
        self.tabs.remove(h);
        ctx.count("oom");
        "OOM".into()
    }

    fn step(&mut self, ws: &[&str], ctx: &mut Ctx) -> String {
        match ws {
            ["const", h, v] => {
                let Some(t) = T::parse(v) else { return "bad-op".into() };
                let f = match self.mref.with_manager_shared(|m| MTBDDFunction::constant(m, t)) {
                    Ok(f) => f,
                    Err(_) => return self.oom(h, ctx),
                };
                let exp = vec![t; 1 << self.n];
                ctx.count("const");
                self.finish(h, f, Some(exp), "const", ctx)
            }
            ["var", h, v] => {
                let Ok(v) = v.parse::<u32>() else { return "bad-op".into() };
                if v >= self.n {
                    return "err range".into();
                }
                let f = match self.mref.with_manager_shared(|m| MTBDDFunction::<T>::var(m, v)) {
                    Ok(f) => f,
                    Err(_) => return self.oom(h, ctx),
                };
                let exp = (0..(1u32 << self.n)).map(|a| if (a >> v) & 1 != 0 { T::one() } else { T::zero() }).collect();
                ctx.count("var");
                self.finish(h, f, Some(exp), "var", ctx)
            }
            ["op", h, o, a, b] => {
                if !["add", "sub", "mul", "div", "min", "max"].contains(o) {
                    return "bad-op".into();
                }
                let (Some(f), Some(g)) = (self.hs.get(*a), self.hs.get(*b)) else { return "err handle".into() };
                let r = match *o {
                    "add" => f.add(g),
                    "sub" => f.sub(g),
                    "mul" => f.mul(g),
                    "div" => f.div(g),
                    "min" => PseudoBooleanFunction::min(f, g),
                    _ => PseudoBooleanFunction::max(f, g),
                };
                let Ok(r) = r else { return self.oom(h, ctx) };
                // which situation of the property is exercised (classification from the operands)
                let (tf, tg) = (unfold(f), unfold(g));
                ctx.count(&format!("op.{}", o));
                let arm = match (tf.is_leaf(), tg.is_leaf()) {
                    (Some(_), Some(_)) => "both-terminal",
                    (Some(t), None) | (None, Some(t)) => {
                        if t.is_nan() {
                            "one-terminal-nan"
                        } else if t.is_zero() {
                            "one-terminal-zero"
                        } else if t.is_one() {
                            "one-terminal-one"
                        } else {
                            "one-terminal-other"
                        }
                    }
                    (None, None) => {
                        if f == g {
                            "same-operand"
                        } else {
                            "recursion"
                        }
                    }
                };
                ctx.count(&format!("arm.{}.{}", o, arm));
                let (ta, tb) = (self.table(f), self.table(g));
                let exp: Vec<T> = ta.iter().zip(tb.iter()).map(|(x, y)| T::reference(o, *x, *y)).collect();
                if exp.iter().any(|x| x.is_nan()) {
                    ctx.count("result-has-nan");
                }
                self.finish(h, r, Some(exp), &format!("{} {} {}", o, a, b), ctx)
            }
            ["ite", h, c, a, b] => {
                let (Some(fc), Some(fa), Some(fb)) = (self.hs.get(*c), self.hs.get(*a), self.hs.get(*b)) else {
                    return "err handle".into();
                };
                if !unfold(fc).zero_one() {
                    ctx.count("ite.precond-violated");
                    return "err precond".into();
                }
                let Ok(r) = fc.ite(fa, fb) else { return self.oom(h, ctx) };
                let (tc, ta, tb) = (self.table(fc), self.table(fa), self.table(fb));
                let exp: Vec<T> = (0..tc.len()).map(|i| if tc[i].is_one() { ta[i] } else { tb[i] }).collect();
                ctx.count("ite");
                if fa == fb {
                    ctx.count("ite.same-branches");
                }
                self.finish(h, r, Some(exp), &format!("ite {} {} {}", c, a, b), ctx)
            }
            ["restrict", h, a, c] => {
                let (Some(f), Some(vars)) = (self.hs.get(*a), self.hs.get(*c)) else { return "err handle".into() };
                let Some(lits) = unfold(vars).cube() else {
                    ctx.count("restrict.precond-violated");
                    return "err precond".into();
                };
                let Ok(r) = f.restrict(vars) else { return self.oom(h, ctx) };
                let tf = self.table(f);
                let exp: Vec<T> = (0..(1u32 << self.n))
                    .map(|mut s| {
                        for &(v, b) in &lits {
                            s = if b { s | (1 << v) } else { s & !(1 << v) };
                        }
                        tf[s as usize]
                    })
                    .collect();
                ctx.count("restrict");
                ctx.count(&format!("restrict.lits{}", lits.len()));
                self.finish(h, r, Some(exp), &format!("restrict {} {}", a, c), ctx)
            }
            ["eval", h, bits] => {
                let Some(f) = self.hs.get(*h) else { return "err handle".into() };
                if bits.len() != self.n as usize || !bits.bytes().all(|c| c == b'0' || c == b'1') {
                    return "bad-op".into();
                }
                let bs = bits.as_bytes();
                let r = f.eval((0..self.n).map(|v| (v, bs[v as usize] == b'1')));
                let mut a = 0u32;
                for v in 0..self.n {
                    if bs[v as usize] == b'1' {
                        a |= 1 << v;
                    }
                }
                if unfold(f).walk(a) != r {
                    ctx.fail(&format!("{}-eval-walk", T::KIND), &format!("eval {} {} differs from the node walk", h, bits));
                }
                ctx.count("eval");
                r.tok()
            }
            ["clone", h, a] => {
                let Some(f) = self.hs.get(*a).cloned() else { return "err handle".into() };
                let t = self.tabs[*a].clone();
                self.hs.insert(h.to_string(), f);
                self.tabs.insert(h.to_string(), t);
                ctx.count("clone");
                "ok".into()
            }
            ["drop", a] => {
                if self.hs.remove(*a).is_none() {
                    return "err handle".into();
                }
                self.tabs.remove(*a);
                ctx.count("drop");
                "ok".into()
            }
            ["dropall"] => {
                self.hs.clear();
                self.tabs.clear();
                ctx.count("dropall");
                "ok".into()
            }
            ["eq", a, b] => {
                let (Some(f), Some(g)) = (self.hs.get(*a), self.hs.get(*b)) else { return "err handle".into() };
                let same = f == g;
                let same_fn = self.table(f) == self.table(g);
                if same != same_fn {
                    // C01: two handles are equal iff they denote the same function
                    ctx.fail("canonicity", &format!("{} == {} is {} but the value tables are {}", a, b, same, if same_fn { "equal" } else { "different" }));
                }
                use std::hash::{BuildHasher, BuildHasherDefault, DefaultHasher};
                let bh = BuildHasherDefault::<DefaultHasher>::default();
                if same && bh.hash_one(f) != bh.hash_one(g) {
                    ctx.fail("hash-vs-eq", "equal handles hash differently");
                }
                if same != (f.cmp(g) == Ordering::Equal) {
                    ctx.fail("ord-vs-eq", "Ord on handles disagrees with ==");
                }
                ctx.count(if same { "eq.true" } else { "eq.false" });
                (if same { "1" } else { "0" }).into()
            }
            ["gc"] => {
                let (ib, tb) = self.counts();
                let c = self.mref.with_manager_shared(|m| m.gc());
                let (ia, ta) = self.counts();
                if ib < ia || tb < ta || c != (ib - ia) + (tb - ta) {
                    ctx.fail("gc-return", &format!("gc() returned {} but inner nodes went {} -> {} and terminals {} -> {}", c, ib, ia, tb, ta));
                }
                // C05: exactly what is reachable from live handles remains
                let mut inner = HashSet::new();
                let mut terms = HashSet::new();
                for f in self.hs.values() {
                    unfold(f).collect(&mut inner, &mut terms);
                }
                if ia != inner.len() {
                    ctx.fail("gc-not-exact", &format!("after gc {} inner nodes are stored but {} are reachable from the {} live handles", ia, inner.len(), self.hs.len()));
                }
                if ta != terms.len() {
                    ctx.fail("gc-terminals-not-exact", &format!("after gc {} terminals are stored but {} are reachable from the {} live handles", ta, terms.len(), self.hs.len()));
                } else {
                    // ... and they are the same values (a collected terminal that is still referenced
                    // and a kept one that is not would cancel out in the count)
                    let stored: HashSet<String> = self.term_slots().into_iter().map(|(_, v)| v).collect();
                    if stored != terms {
                        let mut miss: Vec<&String> = terms.difference(&stored).collect();
                        let mut extra: Vec<&String> = stored.difference(&terms).collect();
                        miss.sort();
                        extra.sort();
                        ctx.fail("gc-terminals-not-exact", &format!("after gc the stored terminals differ from the terminals reachable from live handles: reachable but not stored {:?}, stored but unreachable {:?}", miss, extra));
                    }
                }
                self.check_tables(ctx, "gc-changed-function", "after gc");
                self.rcchk(ctx, "after gc");
                ctx.count("gc");
                ctx.add("gc.collected", c as u64);
                if self.hs.is_empty() {
                    ctx.count("gc.empty-manager");
                }
                format!("{} {}", ia, ta)
            }
            ["rcchk"] => {
                self.rcchk(ctx, "rcchk");
                "ok".into()
            }
            ["taudit"] => {
                match self.mref.with_manager_shared(|m| taudit_rec(m)) {
                    Ok((before, _)) => {
                        ctx.count("taudit");
                        ctx.add("taudit.terminals-held", before as u64);
                    }
                    Err(e) => ctx.fail("terminal-ref-count", &format!("taudit: {}", e)),
                }
                self.check_tables(ctx, "gc-changed-function", "after a gc with all terminals held");
                // all iterator edges are given back: the ordinary collection oracle decides
                self.step(&["gc"], ctx)
            }
            ["order", rest @ ..] => {
                let seq = rest.iter().any(|x| *x == "seq=1");
                let mut order: Vec<u32> = Vec::new();
                for x in rest.iter().filter(|x| !x.contains('=')) {
                    match x.parse::<u32>() {
                        Ok(v) if v < self.n && !order.contains(&v) => order.push(v),
                        _ => return "bad-op".into(),
                    }
                }
                let before = self.l2v();
                let live = self.counts().0;
                self.mref.with_manager_exclusive(|m| {
                    if seq {
                        oxidd_reorder::set_var_order_seq(m, &order)
                    } else {
                        oxidd_reorder::set_var_order(m, &order)
                    }
                });
                let l2v = self.l2v();
                let pos: HashMap<u32, usize> = l2v.iter().enumerate().map(|(l, &v)| (v, l)).collect();
                if l2v.len() != before.len() || pos.len() != l2v.len() {
                    ctx.fail("perm-broken", &format!("level_to_var is {:?} after reordering (before: {:?})", l2v, before));
                } else {
                    for p in order.windows(2) {
                        if pos[&p[0]] >= pos[&p[1]] {
                            ctx.fail("order-not-established", &format!("requested {:?} but level_to_var is {:?}", order, l2v));
                            break;
                        }
                    }
                }
                // C08: every live handle denotes the same function
                self.check_tables(ctx, "reorder-changed-function", &format!("after set_var_order {:?} (level_to_var before: {:?})", order, before));
                // structure: children on strictly lower levels, reduced, unique, level bookkeeping
                self.rcchk(ctx, "after reordering");
                let v2l = self.v2l();
                for (k, f) in &self.hs {
                    if !unfold(f).nf(0, &v2l) {
                        ctx.fail("reorder-nf", &format!("handle {} is not ordered/reduced after reordering", k));
                        break;
                    }
                }
                ctx.count("order");
                if l2v != before {
                    ctx.count("order.changed");
                    if live > 0 {
                        ctx.count("order.changed-with-stored-nodes");
                    }
                }
                l2v.iter().map(|v| v.to_string()).collect::<Vec<_>>().join(" ")
            }
            _ => "bad-op".into(),
        }
    }
}

enum St {
    None,
    I(MgrState<I64>),
    F(MgrState<F64>),
}

struct Sc {
    st: St,
    /// the capped twin of `st` in C14 cases
    capped: St,
    /// an operation failed on the capped manager, so its handle set is a subset of the reference's
    diverged: bool,
    /// a `kf-mtbdd-…` case is executed by a child process so that an abort does not end the stream
    child: Option<KfChild>,
    /// bookkeeping of the `termcap-…` cases
    tc: TcState,
}

/// What the `termcap-…` cases remember about the capped manager (all of it observed through the
/// public API: terminal iterator, `node_id`, `gc_count`, `num_terminals`)
#[derive(Default)]
struct TcState {
    /// terminal id -> (value last seen there, gc_count + reorder_count when it was last looked at, stored at that time)
    slots: HashMap<usize, (String, u64, bool)>,
    /// ids that have held two different values during this case
    reused: HashSet<usize>,
    reuse_epoch: u64,
    /// requests issued while the terminal store was full
    full_events: u64,
    /// operation (without the result handle) -> (reuse epoch, collections, full events) at its last successful execution
    seen: HashMap<String, (u64, u64, u64)>,
    /// lines that reported out of memory and did not succeed since -> collections at that time
    oomed: HashMap<String, u64>,
    /// an oracle failed on the capped manager: lines until it is abandoned
    abandon_in: Option<u32>,
    /// `terminal-reclaimed-outside-gc` is reported once per case
    reclaim_reported: bool,
    /// an oracle failed on the reference manager: the remaining lines are skipped
    dead: bool,
}

/// state of the capped manager before a line of a `termcap-…` case
struct TcPre {
    usage: (usize, usize, usize, usize),
    stored: HashSet<String>,
}

fn f64_laws(a: F64, ctx: &mut Ctx) {
    // `TerminalLaws F64` (assumed by the lifted theorem `mtbdd_apply_sem_f64_partial`), tested here
    let (z, o, n) = (F64::zero(), F64::one(), F64::nan());
    let mut bad = Vec::new();
    if z.add(&a) != a { bad.push("0+x"); }
    if a.add(&z) != a { bad.push("x+0"); }
    if a.sub(&z) != a { bad.push("x-0"); }
    if o.mul(&a) != a { bad.push("1*x"); }
    if a.mul(&o) != a { bad.push("x*1"); }
    if a.div(&o) != a { bad.push("x/1"); }
    for (nm, r) in [
        ("nan+x", n.add(&a)), ("x+nan", a.add(&n)), ("nan-x", n.sub(&a)), ("x-nan", a.sub(&n)),
        ("nan*x", n.mul(&a)), ("x*nan", a.mul(&n)), ("nan/x", n.div(&a)), ("x/nan", a.div(&n)),
    ] {
        if r != n { bad.push(nm); }
    }
    if a.partial_cmp(&a) != Some(Ordering::Equal) { bad.push("cmp x x"); }
    if a != n && (n.partial_cmp(&a).is_some() || a.partial_cmp(&n).is_some()) { bad.push("cmp nan x"); }
    if z == o { bad.push("0=1"); }
    for b in bad {
        ctx.fail("f64-law", &format!("terminal law `{}` fails for x = {:016x}", b, bits_f64(a)));
    }
    ctx.count("f64.laws-checked");
}

impl Scenario for Sc {
    fn reset(&mut self) {
        self.capped = St::None;
        self.st = St::None;
        self.diverged = false;
        self.child = None;
        self.tc = TcState::default();
    }
    fn step(&mut self, line: &str, ctx: &mut Ctx) -> String {
        if ctx.case.starts_with("case kf-mtbdd-") && !ctx.extra.contains_key("kf-child") {
            return self.kf_step(line, ctx);
        }
        let ws = words(line);
        match ws.as_slice() {
            ["i64", o, a, b] => {
                let (Some(a), Some(b)) = (parse_i64(a), parse_i64(b)) else { return "bad-op".into() };
                ctx.count(&format!("i64.{}", o));
                match *o {
                    "cmp" => {
                        let r = a.partial_cmp(&b);
                        if r != ref_cmp_i64(a, b) {
                            ctx.fail("i64-cmp", &format!("{} <=> {} gives {} but the extended integer order says {}", tok_i64(a), tok_i64(b), cmp_tok(r), cmp_tok(ref_cmp_i64(a, b))));
                        }
                        // min/max as derived by terminal_bin must agree with the order
                        cmp_tok(r).into()
                    }
                    "add" | "sub" | "mul" | "div" => {
                        let r = match *o {
                            "add" => NumberBase::add(&a, &b),
                            "sub" => NumberBase::sub(&a, &b),
                            "mul" => NumberBase::mul(&a, &b),
                            _ => NumberBase::div(&a, &b),
                        };
                        let e = ref_i64(o, a, b);
                        if r != e {
                            ctx.fail(&format!("i64-{}", o), &format!("{} {} {} gives {} but exact arithmetic demands {}", tok_i64(a), o, tok_i64(b), tok_i64(r), tok_i64(e)));
                        }
                        match (a, b, r) {
                            (I64::Num(_), I64::Num(_), I64::PlusInf | I64::MinusInf) => ctx.count(&format!("i64.{}.overflow", o)),
                            (_, _, I64::NaN) => ctx.count(&format!("i64.{}.nan", o)),
                            _ => {}
                        }
                        tok_i64(r)
                    }
                    _ => "bad-op".into(),
                }
            }
            ["f64", o, a, b] => {
                let (Some(a), Some(b)) = (parse_hex(a), parse_hex(b)) else { return "bad-op".into() };
                let (a, b) = (F64::from(f64::from_bits(a)), F64::from(f64::from_bits(b)));
                ctx.count(&format!("f64.{}", o));
                match *o {
                    "cmp" => {
                        let r = a.partial_cmp(&b);
                        let (x, y) = (f64::from(a), f64::from(b));
                        let e = if x.is_nan() && y.is_nan() { Some(Ordering::Equal) } else { x.partial_cmp(&y) };
                        if r != e {
                            ctx.fail("f64-cmp", &format!("{:016x} <=> {:016x} gives {} expected {}", bits_f64(a), bits_f64(b), cmp_tok(r), cmp_tok(e)));
                        }
                        cmp_tok(r).into()
                    }
                    "add" | "sub" | "mul" | "div" => {
                        let r = match *o {
                            "add" => NumberBase::add(&a, &b),
                            "sub" => NumberBase::sub(&a, &b),
                            "mul" => NumberBase::mul(&a, &b),
                            _ => NumberBase::div(&a, &b),
                        };
                        let e = ref_f64(o, a, b);
                        if r != e {
                            ctx.fail(&format!("f64-{}", o), &format!("{:016x} {} {:016x} gives {:016x} but IEEE-754 + normalisation demands {:016x}", bits_f64(a), o, bits_f64(b), bits_f64(r), bits_f64(e)));
                        }
                        let rb = bits_f64(r);
                        if rb == (-0.0f64).to_bits() || (f64::from(r).is_nan() && rb != f64::NAN.to_bits()) {
                            ctx.fail("f64-norm", &format!("result {:016x} is not normalised", rb));
                        }
                        f64_laws(a, ctx);
                        f64_laws(b, ctx);
                        format!("{:016x}", rb)
                    }
                    _ => "bad-op".into(),
                }
            }
            ["mgr", n, rest @ ..] => {
                // mgr <nvars> [f64] [inner=<k> terms=<k>]: with capacities the lines are run on an
                // uncapped reference manager (printed, compared with the model) AND on the capped one
                let Ok(n) = n.parse::<u32>() else { return "bad-op".into() };
                let opts: Vec<&&str> = rest.iter().filter(|x| !x.contains('=')).collect();
                let f64m = match opts.as_slice() {
                    [] => false,
                    [x] if **x == "f64" => true,
                    _ => return "bad-op".into(),
                };
                if n > 16 {
                    return "bad-op".into();
                }
                let kv = |k: &str| rest.iter().find_map(|x| x.strip_prefix(k)).and_then(|x| x.parse::<usize>().ok());
                let (ic, tc) = (kv("inner="), kv("terms="));
                self.st = St::None;
                self.capped = St::None;
                self.diverged = false;
                self.tc = TcState::default();
                self.st = if f64m { St::F(MgrState::new(n, DEFAULT_INNER, DEFAULT_TERMS)) } else { St::I(MgrState::new(n, DEFAULT_INNER, DEFAULT_TERMS)) };
                if ic.is_some() || tc.is_some() {
                    let (ic, tc) = (ic.unwrap_or(DEFAULT_INNER), tc.unwrap_or(DEFAULT_TERMS));
                    self.capped = if f64m { St::F(MgrState::new(n, ic, tc)) } else { St::I(MgrState::new(n, ic, tc)) };
                    ctx.count("capped.managers");
                }
                "ok".into()
            }
            ws => {
                let capped = !matches!(self.capped, St::None);
                let tcase = ctx.case.starts_with("case termcap-");
                if tcase && self.tc.dead {
                    return "SKIPPED".into();
                }
                let pre = if capped && tcase { Some(self.tc_pre()) } else { None };
                let nf_ref = ctx.failures.len();
                let out_ref = self.st.step(ws, ctx);
                if tcase && ctx.failures.len() > nf_ref {
                    // an oracle failed on the reference manager: its memory may be corrupted (these
                    // cases look for use-after-free situations); the rest of the case is skipped
                    self.tc.dead = true;
                    std::mem::forget(std::mem::replace(&mut self.st, St::None));
                    std::mem::forget(std::mem::replace(&mut self.capped, St::None));
                    ctx.count("termcap.case-abandoned");
                    return out_ref;
                }
                if capped {
                    let nf = ctx.failures.len();
                    let out_cap = self.capped_step(line, ws, &out_ref, ctx);
                    if let Some(pre) = pre {
                        self.tc_post(line, ws, pre, &out_ref, &out_cap, ctx);
                        // A capped manager on which an oracle failed may be corrupted (freed terminal
                        // slots that are still referenced): it is abandoned (leaked, not dropped) at a
                        // wrong value, or a few lines after the first unprotocolled reclamation, and
                        // the rest of the case runs on the reference manager only.
                        let new = &ctx.failures[nf..];
                        let hard = new.iter().any(|f| !f.contains("\"sig\":\"terminal-reclaimed-outside-gc\""));
                        if !new.is_empty() && self.tc.abandon_in.is_none() {
                            self.tc.abandon_in = Some(40);
                        }
                        if let Some(k) = self.tc.abandon_in.as_mut() {
                            if hard || *k == 0 {
                                std::mem::forget(std::mem::replace(&mut self.capped, St::None));
                                ctx.count("termcap.capped-manager-abandoned");
                            } else {
                                *k -= 1;
                            }
                        }
                        if out_cap != out_ref {
                            return format!("{} ## {}", out_ref, out_cap);
                        }
                    }
                }
                out_ref
            }
        }
    }
}

impl St {
    fn step(&mut self, ws: &[&str], ctx: &mut Ctx) -> String {
        match self {
            St::None => {
                if matches!(ws.first(), Some(&"const" | &"var" | &"op" | &"ite" | &"restrict" | &"eval" | &"clone" | &"drop" | &"dropall" | &"eq" | &"gc" | &"rcchk" | &"order" | &"taudit")) {
                    "err nomgr".into()
                } else {
                    "bad-op".into()
                }
            }
            St::I(m) => m.step(ws, ctx),
            St::F(m) => m.step(ws, ctx),
        }
    }
    /// (inner nodes, terminals, inner capacity, terminal capacity)
    fn usage(&self) -> (usize, usize, usize, usize) {
        match self {
            St::None => (0, 0, 0, 0),
            St::I(m) => {
                let (i, t) = m.counts();
                (i, t, m.inner_cap, m.term_cap)
            }
            St::F(m) => {
                let (i, t) = m.counts();
                (i, t, m.inner_cap, m.term_cap)
            }
        }
    }
    fn term_slots(&self) -> Vec<(usize, String)> {
        match self {
            St::None => Vec::new(),
            St::I(m) => m.term_slots(),
            St::F(m) => m.term_slots(),
        }
    }
    fn gc_count(&self) -> u64 {
        match self {
            St::None => 0,
            St::I(m) => m.gc_count(),
            St::F(m) => m.gc_count(),
        }
    }
    fn leaf_slot(&self, h: &str) -> Option<usize> {
        match self {
            St::None => None,
            St::I(m) => m.leaf_slot(h),
            St::F(m) => m.leaf_slot(h),
        }
    }
    fn terms_of(&self, h: &str) -> Option<HashSet<String>> {
        match self {
            St::None => None,
            St::I(m) => m.terms_of(h),
            St::F(m) => m.terms_of(h),
        }
    }
    fn check_tables(&self, ctx: &mut Ctx, sig: &str, when: &str) {
        match self {
            St::None => {}
            St::I(m) => m.check_tables(ctx, sig, when),
            St::F(m) => m.check_tables(ctx, sig, when),
        }
    }
    fn integrity(&self, ctx: &mut Ctx, sig: &str, when: &str) {
        match self {
            St::None => {}
            St::I(m) => {
                m.rcchk(ctx, when);
                m.check_tables(ctx, sig, when);
            }
            St::F(m) => {
                m.rcchk(ctx, when);
                m.check_tables(ctx, sig, when);
            }
        }
    }
}

impl Sc {
    /// C14: the same line on the capped manager; oracles only (the printed output is the reference's)
    fn capped_step(&mut self, line: &str, ws: &[&str], out_ref: &str, ctx: &mut Ctx) -> String {
        let mut sub = Ctx { line_no: ctx.line_no, case: ctx.case.clone(), failures: Vec::new(), stats: BTreeMap::new(), extra: ctx.extra.clone() };
        let out_cap = self.capped.step(ws, &mut sub);
        for f in sub.failures.drain(..) {
            ctx.failures.push(f.replace("\"sig\":\"", "\"sig\":\"capped-"));
            ctx.count("oracle_failures");
        }
        if out_cap == "OOM" {
            ctx.count("capped.oom");
            self.diverged = true;
            // legitimate only if a store really is full (single-threaded manager: deterministic)
            let (i, t, ic, tc) = self.capped.usage();
            if i < ic && t < tc {
                ctx.fail("spurious-oom", &format!("`{}` reported out of memory although only {} of {} inner-node slots and {} of {} terminal slots are in use", line, i, ic, t, tc));
            } else if t >= tc {
                ctx.count("capped.oom.terminals-full");
            } else {
                ctx.count("capped.oom.inner-full");
            }
            // the manager is intact: structure, reference counts, every existing handle
            let mut sub2 = Ctx { line_no: ctx.line_no, case: ctx.case.clone(), failures: Vec::new(), stats: BTreeMap::new(), extra: ctx.extra.clone() };
            self.capped.integrity(&mut sub2, "oom-corrupted-handle", &format!("after the failed `{}`", line));
            for f in sub2.failures.drain(..) {
                ctx.failures.push(f.replace("\"sig\":\"", "\"sig\":\"after-oom-"));
                ctx.count("oracle_failures");
            }
        } else if out_cap == "err handle" && self.diverged {
            // an operand that could not be built under the capacity
            ctx.count("capped.skipped");
        } else if out_cap != out_ref && !(self.diverged && (ws[0] == "gc" || ws[0] == "taudit")) {
            ctx.fail("capacity-dependent-result", &format!("`{}` gives {} under capacities inner={} terms={} but {} without limit", line, out_cap, self.capped.usage().2, self.capped.usage().3, out_ref));
        } else {
            ctx.count("capped.ok");
            if self.diverged && ws[0] != "gc" && ws[0] != "taudit" && ws[0] != "dropall" && ws[0] != "drop" {
                ctx.count("capped.ok-after-oom");
            }
        }
        out_cap
    }

    fn tc_pre(&self) -> TcPre {
        TcPre {
            usage: self.capped.usage(),
            stored: self.tc.slots.values().filter(|x| x.2).map(|x| x.0.clone()).collect(),
        }
    }

    /// the `termcap-…` oracles and statistics after a line was executed on both managers
    fn tc_post(&mut self, line: &str, ws: &[&str], pre: TcPre, out_ref: &str, out_cap: &str, ctx: &mut Ctx) {
        let (pi, pt, ic, tcap) = pre.usage;
        let request = matches!(ws[0], "const" | "var" | "op" | "ite" | "restrict") && ws.len() >= 3;
        let failed = out_cap == "OOM";
        let ok = request && !failed && !out_cap.starts_with("err") && out_cap != "bad-op";
        // the terminals the result needs that were not stored (reference result: the reference manager
        // executed the same line; all terminals an operator creates are part of its result)
        let ref_ok = !(out_ref.starts_with("err") || out_ref == "bad-op" || out_ref == "OOM");
        let need: Option<usize> = if request && ref_ok { self.st.terms_of(ws[1]).map(|t| t.difference(&pre.stored).count()) } else { None };
        if request && pt >= tcap {
            ctx.count("termcap.request-at-full-terminal-store");
            self.tc.full_events += 1;
            if ws[0] == "const" {
                match need {
                    Some(0) => ctx.count("termcap.const-at-full.value-already-stored"),
                    _ if failed => ctx.count("termcap.const-at-full.oom"),
                    _ => ctx.count("termcap.const-at-full.succeeded"),
                }
            }
        }
        if request && pi >= ic {
            ctx.count("termcap.request-at-full-inner-store");
        }
        if let Some(need) = need {
            if failed && pt + need <= tcap && ic - pi.min(ic) >= 16 {
                ctx.fail("oom-with-room", &format!("`{}` reported out of memory although it needs {} new terminal(s) and {} of {} terminal slots ({} of {} inner-node slots) were in use", line, need, pt, tcap, pi, ic));
            }
            if ok && pt + need > tcap {
                ctx.count("termcap.succeeded-beyond-free-slots");
            }
        }
        if failed {
            self.tc.oomed.insert(line.to_string(), self.capped.gc_count());
            ctx.count("termcap.oom");
            match need {
                Some(k) if pt + k > tcap => ctx.count("termcap.oom.terminals-do-not-fit"),
                Some(_) if ic - pi.min(ic) < 16 => ctx.count("termcap.oom.inner-store-tight"),
                Some(_) => {}
                None => ctx.count("termcap.oom.unclassified"),
            }
        } else if ok {
            if let Some(g) = self.tc.oomed.remove(line) {
                ctx.count("termcap.retry-ok");
                if self.capped.gc_count() > g {
                    ctx.count("termcap.retry-ok.after-gc");
                }
            }
        }
        // terminal slots: values change (and disappear) only across a regular collection
        let now = self.capped.term_slots();
        let gcc = self.capped.gc_count();
        let (_, t_after, _, _) = self.capped.usage();
        if t_after > tcap {
            ctx.fail("capacity-exceeded", &format!("{} terminals are stored, the capacity is {}", t_after, tcap));
        }
        let now_ids: HashSet<usize> = now.iter().map(|x| x.0).collect();
        let mut outside: Option<String> = None;
        for (id, (val, g, present)) in self.tc.slots.iter_mut() {
            if *present && !now_ids.contains(id) {
                if *g == gcc && outside.is_none() {
                    outside = Some(format!("terminal {} (id {}) is no longer stored after `{}` although no collection ran", val, id, line));
                }
                *present = false;
                *g = gcc;
            }
        }
        for (id, val) in now {
            match self.tc.slots.get_mut(&id) {
                Some((old, g, present)) => {
                    if *old != val {
                        ctx.count("termcap.slot-reused");
                        self.tc.reused.insert(id);
                        self.tc.reuse_epoch += 1;
                        if *present && *g == gcc && outside.is_none() {
                            outside = Some(format!("terminal id {} held {} and holds {} after `{}` although no collection ran in between", id, old, val, line));
                        }
                        *old = val;
                    }
                    *g = gcc;
                    *present = true;
                }
                None => {
                    self.tc.slots.insert(id, (val, gcc, true));
                }
            }
        }
        if let Some(msg) = outside.filter(|_| !std::mem::replace(&mut self.tc.reclaim_reported, true)) {
            ctx.fail("terminal-reclaimed-outside-gc", &format!("{} (cache entries and borrowed edges may still refer to it)", msg));
        }
        // the same operation again: what happened since its last execution
        if ok && matches!(ws[0], "op" | "ite" | "restrict") {
            let key = format!("{} {}", ws[0], ws[2..].join(" "));
            if let Some(&(ep, g, fe)) = self.tc.seen.get(&key) {
                ctx.count("termcap.op-repeated");
                if self.tc.reuse_epoch > ep {
                    ctx.count("termcap.op-repeated.after-slot-reuse");
                }
                if g == gcc {
                    ctx.count("termcap.op-repeated.no-gc-since");
                    if self.tc.full_events > fe {
                        ctx.count("termcap.op-repeated.no-gc-since.after-store-full");
                    }
                }
            }
            self.tc.seen.insert(key, (self.tc.reuse_epoch, gcc, self.tc.full_events));
            let operands: &[&str] = if ws[0] == "op" { &ws[3..] } else { &ws[2..] };
            if operands.iter().any(|x| self.capped.leaf_slot(x).map_or(false, |id| self.tc.reused.contains(&id))) {
                ctx.count("termcap.op.operand-in-reused-slot");
            }
            if self.capped.leaf_slot(ws[1]).map_or(false, |id| self.tc.reused.contains(&id)) {
                ctx.count("termcap.op.result-in-reused-slot");
            }
        }
        // every live handle of the capped manager still denotes the function it was created with
        self.capped.check_tables(ctx, "termcap-handle-changed", &format!("after `{}`", line));
    }
}

// ------------------------------------------------------------------------------------------
// Generator
// ------------------------------------------------------------------------------------------

const OPS: [&str; 6] = ["add", "sub", "mul", "div", "min", "max"];

fn pool_i64() -> Vec<String> {
    let mut v: Vec<String> = [0i64, 1, -1, 2, 3, -7, i64::MIN, i64::MAX, i64::MIN + 1, i64::MAX - 1].iter().map(|x| x.to_string()).collect();
    v.extend(["+inf", "-inf", "nan"].iter().map(|s| s.to_string()));
    v
}

fn pool_f64() -> Vec<String> {
    let xs: [u64; 22] = [
        0x0000000000000000, // 0.0
        0x8000000000000000, // -0.0
        0x3ff0000000000000, // 1.0
        0xbff0000000000000, // -1.0
        0x4000000000000000, // 2.0
        0x3fe0000000000000, // 0.5
        0x4008000000000000, // 3.0
        0xc01c000000000000, // -7.0
        0x3fd5555555555555, // 1/3
        0x7fefffffffffffff, // MAX
        0xffefffffffffffff, // -MAX
        0x0010000000000000, // MIN_POSITIVE
        0x0000000000000001, // smallest denormal
        0x8000000000000001, // -smallest denormal
        0x7ff0000000000000, // +inf
        0xfff0000000000000, // -inf
        0x7ff8000000000000, // canonical NaN
        0xfff8000000000000, // negative quiet NaN
        0x7ff0000000000001, // signalling NaN
        0x7ff8000000000123, // NaN with payload
        0x43e0000000000000, // 2^63
        0x3cb0000000000000, // 2^-52
    ];
    xs.iter().map(|b| format!("{:016x}", b)).collect()
}

/// emit lines that build the function with the given truth table (index bit i = variable i) under
/// handle `h`, using `ite` on the variable handles `x<i>`; returns nothing, uses temporaries `<h>_…`
fn build_table(w: &mut dyn Write, h: &str, n: u32, tab: &[String]) {
    // recursive Shannon expansion from the last variable upwards
    fn rec(w: &mut dyn Write, h: &str, n: u32, v: u32, idx: usize, tab: &[String], ctr: &mut u32) -> String {
        if v == n {
            let name = format!("{}_{}", h, *ctr);
            *ctr += 1;
            writeln!(w, "const {} {}", name, tab[idx]).unwrap();
            return name;
        }
        let t = rec(w, h, n, v + 1, idx | (1 << v), tab, ctr);
        let e = rec(w, h, n, v + 1, idx, tab, ctr);
        let name = format!("{}_{}", h, *ctr);
        *ctr += 1;
        writeln!(w, "ite {} x{} {} {}", name, v, t, e).unwrap();
        name
    }
    let mut ctr = 0;
    let top = rec(w, h, n, 0, 0, tab, &mut ctr);
    // bind the final name: h := top (min with itself is the `f == g` shortcut; use ite on x0 with equal branches)
    writeln!(w, "ite {} x0 {} {}", h, top, top).unwrap();
}

fn mgr_header(w: &mut dyn Write, n: u32, f64m: bool) {
    writeln!(w, "mgr {}{}", n, if f64m { " f64" } else { "" }).unwrap();
    for v in 0..n {
        writeln!(w, "var x{} {}", v, v).unwrap();
    }
}

fn random_table(rng: &mut Rng, n: u32, pool: &[String]) -> Vec<String> {
    // few distinct terminals per function so that diagrams share sub-graphs and reduce
    let k = rng.range(1, 4) as usize;
    let sub: Vec<&String> = (0..k).map(|_| rng.pick(pool)).collect();
    (0..(1usize << n)).map(|_| (*rng.pick(&sub)).clone()).collect()
}

fn bits_str(rng: &mut Rng, n: u32) -> String {
    (0..n).map(|_| if rng.chance(1, 2) { '1' } else { '0' }).collect()
}

fn gen_scalar_i64(cfg: &GenCfg, rng: &mut Rng, w: &mut dyn Write) {
    let pool = pool_i64();
    writeln!(w, "case scalar-i64-boundary").unwrap();
    for o in ["add", "sub", "mul", "div", "cmp"] {
        for a in &pool {
            for b in &pool {
                writeln!(w, "i64 {} {} {}", o, a, b).unwrap();
            }
        }
    }
    // random operands around the interesting magnitudes
    let n = if cfg.thorough { 400000 } else { 30000 } * cfg.scale;
    let interesting: [i64; 14] = [
        0, 1, -1, i64::MAX, i64::MIN, 1 << 31, -(1 << 31), 1 << 32, 3037000499, 3037000500, -3037000500, 1 << 62, -(1 << 62), i64::MAX / 3,
    ];
    writeln!(w, "case scalar-i64-random").unwrap();
    for _ in 0..n {
        let pick = |rng: &mut Rng| -> String {
            match rng.below(10) {
                0 => "nan".into(),
                1 => "+inf".into(),
                2 => "-inf".into(),
                3..=5 => {
                    let d = rng.below(5) as i64 - 2;
                    (rng.pick(&interesting)).wrapping_add(d).to_string()
                }
                6 => (rng.next() as i64).to_string(),
                7 => ((rng.next() as i64) >> rng.range(1, 62)).to_string(),
                _ => (rng.below(41) as i64 - 20).to_string(),
            }
        };
        let (a, b) = (pick(rng), pick(rng));
        let o = *rng.pick(&["add", "sub", "mul", "div", "cmp"]);
        writeln!(w, "i64 {} {} {}", o, a, b).unwrap();
    }
}

fn gen_scalar_f64(_cfg: &GenCfg, _rng: &mut Rng, w: &mut dyn Write) {
    let pool = pool_f64();
    writeln!(w, "case scalar-f64-boundary").unwrap();
    for o in ["add", "sub", "mul", "div", "cmp"] {
        for a in &pool {
            for b in &pool {
                writeln!(w, "f64 {} {} {}", o, a, b).unwrap();
            }
        }
    }
}

/// all operator x terminal pairs on the diagram level (constants), all six operators in a row on
/// the same operands of one manager
fn gen_terminal_pairs(w: &mut dyn Write) {
    let pool = pool_i64();
    writeln!(w, "case terminal-pairs").unwrap();
    mgr_header(w, 1, false);
    for (i, a) in pool.iter().enumerate() {
        writeln!(w, "const c{} {}", i, a).unwrap();
    }
    for i in 0..pool.len() {
        for j in 0..pool.len() {
            for o in OPS {
                writeln!(w, "op r {} c{} c{}", o, i, j).unwrap();
            }
        }
    }
    // one operand a terminal, the other the variable / a one-variable function
    writeln!(w, "case terminal-vs-var").unwrap();
    mgr_header(w, 1, false);
    for (i, a) in pool.iter().enumerate() {
        writeln!(w, "const c{} {}", i, a).unwrap();
    }
    for i in 0..pool.len() {
        for o in OPS {
            writeln!(w, "op r {} c{} x0", o, i).unwrap();
            writeln!(w, "op s {} x0 c{}", o, i).unwrap();
            writeln!(w, "eval r 1").unwrap();
            writeln!(w, "eval s 0").unwrap();
        }
    }
}

/// one-variable functions: exhaustive pairs over (v0 a b), a, b from the pool
fn gen_one_var(cfg: &GenCfg, rng: &mut Rng, w: &mut dyn Write) {
    let pool = pool_i64();
    let mut funs: Vec<(usize, usize)> = Vec::new();
    for i in 0..pool.len() {
        for j in 0..pool.len() {
            funs.push((i, j));
        }
    }
    // quick: a random quarter of the left operands; thorough: all 169 x 169 pairs
    let mut left: Vec<usize> = (0..funs.len()).collect();
    rng.shuffle(&mut left);
    if !cfg.thorough {
        left.truncate(48);
    }
    for (k, chunk) in left.chunks(4).enumerate() {
        writeln!(w, "case one-var-{}", k).unwrap();
        mgr_header(w, 1, false);
        for (i, a) in pool.iter().enumerate() {
            writeln!(w, "const c{} {}", i, a).unwrap();
        }
        for (fi, (i, j)) in funs.iter().enumerate() {
            writeln!(w, "ite f{} x0 c{} c{}", fi, i, j).unwrap();
        }
        for &l in chunk {
            for g in 0..funs.len() {
                for o in OPS {
                    writeln!(w, "op r {} f{} f{}", o, l, g).unwrap();
                }
            }
        }
    }
}

/// two-variable functions: all pairs over a pool of functions, all six operators per pair
fn gen_two_var(cfg: &GenCfg, rng: &mut Rng, w: &mut dyn Write, f64m: bool) {
    let pool = if f64m { pool_f64() } else { pool_i64() };
    let psize = if f64m { if cfg.thorough { 48 } else { 18 } } else if cfg.thorough { 150 } else { 60 } as usize;
    let mut tabs: Vec<Vec<String>> = Vec::new();
    // fixed members: constants 0, 1, nan and projections, then random tables
    let (zero, one, nan) = if f64m {
        (pool[0].clone(), pool[2].clone(), pool[16].clone())
    } else {
        ("0".to_string(), "1".to_string(), "nan".to_string())
    };
    tabs.push(vec![zero.clone(); 4]);
    tabs.push(vec![one.clone(); 4]);
    tabs.push(vec![nan.clone(); 4]);
    tabs.push(vec![zero.clone(), one.clone(), zero.clone(), one.clone()]); // x0
    tabs.push(vec![zero.clone(), zero.clone(), one.clone(), one.clone()]); // x1
    tabs.push(vec![zero.clone(), nan.clone(), one.clone(), zero.clone()]);
    while tabs.len() < psize {
        let t = random_table(rng, 2, &pool);
        if !tabs.contains(&t) {
            tabs.push(t);
        }
    }
    let block = 6;
    let idx: Vec<usize> = (0..tabs.len()).collect();
    for (k, chunk) in idx.chunks(block).enumerate() {
        writeln!(w, "case two-var{}-{}", if f64m { "-f64" } else { "" }, k).unwrap();
        mgr_header(w, 2, f64m);
        for (i, t) in tabs.iter().enumerate() {
            build_table(w, &format!("f{}", i), 2, t);
        }
        for &l in chunk {
            for g in 0..tabs.len() {
                // the six operators in a (per pair) random order on the same operands
                let mut ops = OPS.to_vec();
                rng.shuffle(&mut ops);
                for o in ops {
                    writeln!(w, "op r {} f{} f{}", o, l, g).unwrap();
                }
            }
        }
    }
}

/// thorough only: ALL two-variable functions over the terminals {0, 1, -1, nan, +inf} (625), all
/// 390 625 ordered pairs, all six operators
fn gen_two_var_exhaustive(cfg: &GenCfg, rng: &mut Rng, w: &mut dyn Write) {
    if !cfg.thorough {
        return;
    }
    let terms = ["0", "1", "-1", "nan", "+inf"];
    let mut tabs: Vec<Vec<String>> = Vec::new();
    for code in 0..625usize {
        let mut c = code;
        let mut t = Vec::new();
        for _ in 0..4 {
            t.push(terms[c % 5].to_string());
            c /= 5;
        }
        tabs.push(t);
    }
    let idx: Vec<usize> = (0..tabs.len()).collect();
    for (k, chunk) in idx.chunks(25).enumerate() {
        writeln!(w, "case two-var-all-{}", k).unwrap();
        mgr_header(w, 2, false);
        for (i, t) in tabs.iter().enumerate() {
            build_table(w, &format!("f{}", i), 2, t);
        }
        for &l in chunk {
            for g in 0..tabs.len() {
                let mut ops = OPS.to_vec();
                rng.shuffle(&mut ops);
                for o in ops {
                    writeln!(w, "op r {} f{} f{}", o, l, g).unwrap();
                }
            }
        }
    }
}

/// histories that issue different operators on the same operands of one manager
fn gen_histories(cfg: &GenCfg, rng: &mut Rng, w: &mut dyn Write) {
    let pool = pool_i64();
    let reps = if cfg.thorough { 400 } else { 48 } * cfg.scale;
    for k in 0..reps {
        let n = rng.range(2, 4) as u32;
        writeln!(w, "case history-{}", k).unwrap();
        mgr_header(w, n, false);
        writeln!(w, "const zero 0").unwrap();
        writeln!(w, "const one 1").unwrap();
        writeln!(w, "const nan nan").unwrap();
        build_table(w, "f", n, &random_table(rng, n, &pool));
        build_table(w, "g", n, &random_table(rng, n, &pool));
        // min then max (and the reverse) on the same operands, both operand orders
        let seqs: [&[&str]; 6] = [
            &["min", "max"],
            &["max", "min"],
            &["add", "sub", "add"],
            &["mul", "div", "mul"],
            &["sub", "add", "min", "max", "div", "mul"],
            &["div", "sub", "max", "min"],
        ];
        let s = seqs[(k % 6) as usize];
        for (a, b) in [("f", "g"), ("g", "f"), ("f", "g")] {
            for o in s {
                writeln!(w, "op r {} {} {}", o, a, b).unwrap();
                writeln!(w, "eval r {}", bits_str(rng, n)).unwrap();
            }
        }
        // neutral elements on either side, for every operator
        for o in OPS {
            for c in ["zero", "one", "nan"] {
                writeln!(w, "op r {} {} g", o, c).unwrap();
                writeln!(w, "op r {} g {}", o, c).unwrap();
            }
            writeln!(w, "op r {} g g", o).unwrap();
        }
        // the same pair again after the cache has seen every operator
        for o in OPS {
            writeln!(w, "op r {} f g", o).unwrap();
        }
    }
}

/// random sessions over 3..4 variables: composition of results, ite, restrict, eval
fn gen_random(cfg: &GenCfg, rng: &mut Rng, w: &mut dyn Write, f64m: bool) {
    let pool = if f64m { pool_f64() } else { pool_i64() };
    let reps = if f64m { if cfg.thorough { 200 } else { 20 } } else if cfg.thorough { 2500 } else { 200 } * cfg.scale;
    for k in 0..reps {
        let n = if rng.chance(1, 6) { rng.range(1, 2) } else { rng.range(3, 4) } as u32;
        writeln!(w, "case random{}-{}", if f64m { "-f64" } else { "" }, k).unwrap();
        mgr_header(w, n, f64m);
        let one = if f64m { "3ff0000000000000" } else { "1" };
        writeln!(w, "const one {}", one).unwrap();
        let mut hs: Vec<String> = vec!["one".into()];
        for v in 0..n {
            hs.push(format!("x{}", v));
        }
        // literals and 0-1-valued conditions
        let mut conds: Vec<String> = vec!["one".into()];
        for v in 0..n {
            writeln!(w, "op nx{} sub one x{}", v, v).unwrap();
            conds.push(format!("x{}", v));
            conds.push(format!("nx{}", v));
        }
        for i in 0..3 {
            let (a, b) = (rng.pick(&conds).clone(), rng.pick(&conds).clone());
            let o = *rng.pick(&["mul", "min", "max"]);
            writeln!(w, "op c{} {} {} {}", i, o, a, b).unwrap();
            conds.push(format!("c{}", i));
        }
        // cubes: products of literals on distinct variables
        let mut cubes: Vec<String> = vec!["one".into()];
        for i in 0..4 {
            let mut vars: Vec<u32> = (0..n).collect();
            rng.shuffle(&mut vars);
            let len = rng.range(1, n as u64) as usize;
            let mut cur = "one".to_string();
            for (j, v) in vars[..len].iter().enumerate() {
                let lit = if rng.chance(1, 2) { format!("x{}", v) } else { format!("nx{}", v) };
                let name = format!("q{}_{}", i, j);
                writeln!(w, "op {} mul {} {}", name, cur, lit).unwrap();
                cur = name;
            }
            cubes.push(cur);
        }
        for i in 0..4 {
            let name = format!("f{}", i);
            build_table(w, &name, n, &random_table(rng, n, &pool));
            hs.push(name);
        }
        let steps = rng.range(30, 60);
        for s in 0..steps {
            let name = format!("r{}", s);
            match rng.below(10) {
                0..=4 => {
                    let o = *rng.pick(&OPS);
                    let (a, b) = (rng.pick(&hs).clone(), rng.pick(&hs).clone());
                    writeln!(w, "op {} {} {} {}", name, o, a, b).unwrap();
                    // sometimes a second operator on the same operands right away
                    if rng.chance(1, 3) {
                        let o2 = *rng.pick(&OPS);
                        writeln!(w, "op {}b {} {} {}", name, o2, a, b).unwrap();
                        hs.push(format!("{}b", name));
                    }
                    hs.push(name);
                }
                5 | 6 => {
                    // mostly 0-1-valued conditions, sometimes an arbitrary function (precondition)
                    let c = if rng.chance(1, 8) { rng.pick(&hs).clone() } else { rng.pick(&conds).clone() };
                    let (a, b) = (rng.pick(&hs).clone(), rng.pick(&hs).clone());
                    writeln!(w, "ite {} {} {} {}", name, c, a, b).unwrap();
                    writeln!(w, "eval {} {}", name, bits_str(rng, n)).unwrap(); // `err handle` after `err precond`
                    if rng.chance(7, 8) {
                        // only usable when the precondition held: the generator cannot know for a random
                        // handle, so results of such lines are not reused
                        if conds.contains(&c) {
                            hs.push(name);
                        }
                    }
                }
                7 | 8 => {
                    let c = if rng.chance(1, 8) { rng.pick(&hs).clone() } else { rng.pick(&cubes).clone() };
                    let f = rng.pick(&hs).clone();
                    writeln!(w, "restrict {} {} {}", name, f, c).unwrap();
                    if cubes.contains(&c) {
                        hs.push(name);
                    }
                }
                _ => {
                    let f = rng.pick(&hs).clone();
                    writeln!(w, "eval {} {}", f, bits_str(rng, n)).unwrap();
                }
            }
        }
    }
}

/// restrict one function by every cube over the variables (each variable positive, negative or
/// absent), then a few ite lines sharing two of three operands: same first operand, different
/// second/third operand on one manager (what a too coarse cache key would confuse)
fn gen_restrict_all(cfg: &GenCfg, rng: &mut Rng, w: &mut dyn Write) {
    let pool = pool_i64();
    let reps = if cfg.thorough { 300 } else { 30 } * cfg.scale;
    for k in 0..reps {
        let n = rng.range(2, 4) as u32;
        writeln!(w, "case restrict-all-{}", k).unwrap();
        mgr_header(w, n, false);
        writeln!(w, "const one 1").unwrap();
        for v in 0..n {
            writeln!(w, "op nx{} sub one x{}", v, v).unwrap();
        }
        build_table(w, "f", n, &random_table(rng, n, &pool));
        build_table(w, "g", n, &random_table(rng, n, &pool));
        let mut codes: Vec<u32> = (0..3u32.pow(n)).collect();
        rng.shuffle(&mut codes);
        for code in codes {
            // build the cube from the highest variable down (any order gives the same diagram)
            let mut cur = "one".to_string();
            let mut c = code;
            for v in 0..n {
                let d = c % 3;
                c /= 3;
                if d == 0 {
                    continue;
                }
                let lit = if d == 1 { format!("x{}", v) } else { format!("nx{}", v) };
                writeln!(w, "op q{} mul {} {}", v, cur, lit).unwrap();
                cur = format!("q{}", v);
            }
            writeln!(w, "restrict r f {}", cur).unwrap();
            writeln!(w, "restrict s g {}", cur).unwrap();
            writeln!(w, "restrict t r {}", cur).unwrap(); // idempotent
            if rng.chance(1, 4) {
                writeln!(w, "ite u {} f g", cur).unwrap(); // a cube is 0-1-valued
                writeln!(w, "ite u {} g f", cur).unwrap();
                writeln!(w, "ite u {} f r", cur).unwrap();
            }
        }
    }
}

fn gen_malformed(w: &mut dyn Write) {
    writeln!(w, "case malformed").unwrap();
    for l in [
        "var x 0",
        "i64 add 9223372036854775808 1",
        "i64 add -9223372036854775809 1",
        "i64 pow 1 2",
        "i64 add 1",
        "i64 add +5 1",
        "i64 add inf 1",
        "f64 add 3ff 3ff0000000000000",
        "f64 add 3FF0000000000000 3ff0000000000000",
        "mgr x",
        "mgr 2",
        "var x0 0",
        "var x2 2",
        "var x0 -1",
        "const c 1.5",
        "const c 99999999999999999999",
        "op r xor x0 x0",
        "op r add x0 nope",
        "ite r x0 x0",
        "ite r nope x0 x0",
        "restrict r x0 nope",
        "eval x0 1",
        "eval x0 1x",
        "eval nope 11",
        "frobnicate",
        "op r add x0 x0",
        "eval r 10",
        "mgr 1 f32",
        "mgr 1 f64",
        "const c 1",
        "const c 3ff0000000000000",
        "eval c 0",
    ] {
        writeln!(w, "{}", l).unwrap();
    }
}

/// Writer that ends every case which created a manager with `dropall` + `gc`: after dropping
/// every handle a collection must leave 0 inner nodes and 0 terminals (C05).
struct CaseEnd<'a> {
    w: &'a mut dyn Write,
    buf: Vec<u8>,
    has_mgr: bool,
    skip: bool,
}

impl CaseEnd<'_> {
    fn line(&mut self, l: &[u8]) -> std::io::Result<()> {
        if l.starts_with(b"case") {
            self.end()?;
            self.skip = l.starts_with(b"case malformed");
        } else if l.starts_with(b"mgr ") {
            self.has_mgr = true;
        }
        self.w.write_all(l)?;
        self.w.write_all(b"\n")
    }
    fn end(&mut self) -> std::io::Result<()> {
        if self.has_mgr && !self.skip {
            self.w.write_all(b"dropall\ngc\n")?;
        }
        self.has_mgr = false;
        Ok(())
    }
}

impl Write for CaseEnd<'_> {
    fn write(&mut self, data: &[u8]) -> std::io::Result<usize> {
        self.buf.extend_from_slice(data);
        while let Some(p) = self.buf.iter().position(|&c| c == b'\n') {
            let l: Vec<u8> = self.buf.drain(..=p).collect();
            self.line(&l[..l.len() - 1])?;
        }
        Ok(data.len())
    }
    fn flush(&mut self) -> std::io::Result<()> {
        self.w.flush()
    }
}

fn perm_str(rng: &mut Rng, n: u32, partial: bool) -> String {
    let mut vars: Vec<u32> = (0..n).collect();
    rng.shuffle(&mut vars);
    if partial {
        let k = rng.range(0, n as u64) as usize;
        vars.truncate(k);
    }
    vars.iter().map(|v| v.to_string()).collect::<Vec<_>>().join(" ")
}

/// C01/C05/C08 histories: operations interleaved with clone, drop, gc, set_var_order on live
/// nodes, handle equality and the reference-count oracle
fn gen_lifecycle(cfg: &GenCfg, rng: &mut Rng, w: &mut dyn Write, f64m: bool) {
    let pool = if f64m { pool_f64() } else { pool_i64() };
    let reps = if f64m { if cfg.thorough { 100 } else { 12 } } else if cfg.thorough { 1200 } else { 120 } * cfg.scale;
    for k in 0..reps {
        let n = rng.range(2, 5) as u32;
        writeln!(w, "case life{}-{}", if f64m { "-f64" } else { "" }, k).unwrap();
        mgr_header(w, n, f64m);
        let one = if f64m { "3ff0000000000000" } else { "1" };
        writeln!(w, "const one {}", one).unwrap();
        let mut hs: Vec<String> = vec!["one".into()];
        let mut lits: Vec<String> = Vec::new();
        for v in 0..n {
            writeln!(w, "op nx{} sub one x{}", v, v).unwrap();
            hs.push(format!("x{}", v));
            hs.push(format!("nx{}", v));
            lits.push(format!("x{}", v));
            lits.push(format!("nx{}", v));
        }
        let nf = rng.range(2, 4);
        for i in 0..nf {
            let name = format!("f{}", i);
            // at most 4 variables in the table builder; the fifth comes in through operations
            build_table(w, &name, n.min(4), &random_table(rng, n.min(4), &pool));
            hs.push(name);
        }
        let steps = rng.range(25, 70);
        for s in 0..steps {
            if hs.is_empty() {
                writeln!(w, "var x0 0").unwrap();
                hs.push("x0".into());
            }
            let name = format!("r{}", s);
            match rng.below(20) {
                0..=5 => {
                    let o = *rng.pick(&OPS);
                    let (a, b) = (rng.pick(&hs).clone(), rng.pick(&hs).clone());
                    writeln!(w, "op {} {} {} {}", name, o, a, b).unwrap();
                    hs.push(name);
                }
                6 => {
                    // the same function by two routes must be the same handle (C01)
                    let o = *rng.pick(&["add", "mul", "min", "max"]);
                    let (a, b) = (rng.pick(&hs).clone(), rng.pick(&hs).clone());
                    writeln!(w, "op {}p {} {} {}", name, o, a, b).unwrap();
                    writeln!(w, "op {}q {} {} {}", name, o, b, a).unwrap();
                    writeln!(w, "eq {}p {}q", name, name).unwrap();
                    hs.push(format!("{}p", name));
                    hs.push(format!("{}q", name));
                }
                7 => {
                    let (a, b) = (rng.pick(&hs).clone(), rng.pick(&hs).clone());
                    writeln!(w, "eq {} {}", a, b).unwrap();
                }
                8 => {
                    let a = rng.pick(&hs).clone();
                    writeln!(w, "clone {} {}", name, a).unwrap();
                    writeln!(w, "eq {} {}", name, a).unwrap();
                    hs.push(name);
                }
                9 | 10 => {
                    let i = rng.below(hs.len() as u64) as usize;
                    let a = hs.swap_remove(i);
                    writeln!(w, "drop {}", a).unwrap();
                    hs.retain(|x| *x != a);
                    lits.retain(|x| *x != a);
                }
                11 | 12 => {
                    writeln!(w, "gc").unwrap();
                }
                13..=15 => {
                    let partial = rng.chance(1, 3);
                    let seq = if rng.chance(1, 3) { " seq=1" } else { "" };
                    writeln!(w, "order {}{}", perm_str(rng, n, partial), seq).unwrap();
                    if let Some(f) = hs.last() {
                        writeln!(w, "eval {} {}", f, bits_str(rng, n)).unwrap();
                    }
                    // a variable created under the new order
                    let v = rng.below(n as u64);
                    writeln!(w, "var {}v {}", name, v).unwrap();
                    let f = rng.pick(&hs).clone();
                    writeln!(w, "op {} {} {}v {}", name, rng.pick(&OPS), name, f).unwrap();
                    hs.push(format!("{}v", name));
                    hs.push(name);
                }
                16 => {
                    writeln!(w, "rcchk").unwrap();
                }
                17 => {
                    if !lits.is_empty() {
                        let c = rng.pick(&lits).clone();
                        let (a, b) = (rng.pick(&hs).clone(), rng.pick(&hs).clone());
                        writeln!(w, "ite {} {} {} {}", name, c, a, b).unwrap();
                        hs.push(name);
                    }
                }
                18 => {
                    if lits.len() >= 2 {
                        let (c1, c2) = (rng.pick(&lits).clone(), rng.pick(&lits).clone());
                        let f = rng.pick(&hs).clone();
                        // c1 * c2 is a cube unless they are opposite literals of one variable (then it
                        // is 0, not a cube: `err precond`, and the result name stays unbound)
                        writeln!(w, "op {}c mul {} {}", name, c1, c2).unwrap();
                        writeln!(w, "restrict {} {} {}c", name, f, name).unwrap();
                        hs.push(format!("{}c", name));
                        if c1[c1.len() - 1..] != c2[c2.len() - 1..] || c1 == c2 {
                            hs.push(name);
                        }
                    }
                }
                _ => {
                    let f = rng.pick(&hs).clone();
                    writeln!(w, "eval {} {}", f, bits_str(rng, n)).unwrap();
                }
            }
        }
        writeln!(w, "rcchk").unwrap();
        writeln!(w, "gc").unwrap();
    }
}

/// C08: every permutation of 3 (and 4) variables applied in sequence to live random functions
fn gen_reorder_all(cfg: &GenCfg, rng: &mut Rng, w: &mut dyn Write) {
    let pool = pool_i64();
    let reps = if cfg.thorough { 40 } else { 6 } * cfg.scale;
    for k in 0..reps {
        let n = if k % 2 == 0 { 3 } else { 4 } as u32;
        writeln!(w, "case reorder-all-{}", k).unwrap();
        mgr_header(w, n, false);
        for i in 0..4 {
            build_table(w, &format!("f{}", i), n, &random_table(rng, n, &pool));
        }
        writeln!(w, "gc").unwrap();
        // all permutations in a random sequence (Heap's algorithm order, then shuffled)
        let mut perms: Vec<Vec<u32>> = Vec::new();
        fn heap(k: usize, a: &mut Vec<u32>, out: &mut Vec<Vec<u32>>) {
            if k == 1 {
                out.push(a.clone());
                return;
            }
            for i in 0..k {
                heap(k - 1, a, out);
                if k % 2 == 0 {
                    a.swap(i, k - 1);
                } else {
                    a.swap(0, k - 1);
                }
            }
        }
        heap(n as usize, &mut (0..n).collect(), &mut perms);
        rng.shuffle(&mut perms);
        for (j, p) in perms.iter().enumerate() {
            let seq = if j % 3 == 2 { " seq=1" } else { "" };
            writeln!(w, "order {}{}", p.iter().map(|v| v.to_string()).collect::<Vec<_>>().join(" "), seq).unwrap();
            let (a, b) = (rng.below(4), rng.below(4));
            let v = rng.below(n as u64);
            writeln!(w, "var y {}", v).unwrap();
            writeln!(w, "eq y x{}", v).unwrap();
            writeln!(w, "op g {} f{} f{}", rng.pick(&OPS), a, b).unwrap();
            writeln!(w, "eval g {}", bits_str(rng, n)).unwrap();
            if j % 5 == 4 {
                writeln!(w, "gc").unwrap();
            }
        }
        writeln!(w, "rcchk").unwrap();
    }
}

/// C14: small inner-node and terminal capacities; the reference output is printed
fn gen_capped(cfg: &GenCfg, rng: &mut Rng, w: &mut dyn Write) {
    let pool = pool_i64();
    let reps = if cfg.thorough { 600 } else { 60 } * cfg.scale;
    for k in 0..reps {
        let n = rng.range(1, 4) as u32;
        let f64m = k % 10 == 9;
        // three regimes: terminals are the bottleneck, inner nodes are, both are tight
        let (ic, tc) = match k % 3 {
            0 => (rng.range(16, 64), rng.range(1, 8)),
            1 => (rng.range(1, 12), rng.range(16, 64)),
            _ => (rng.range(2, 16), rng.range(2, 10)),
        };
        writeln!(w, "case capped-{}", k).unwrap();
        writeln!(w, "mgr {}{} inner={} terms={}", n, if f64m { " f64" } else { "" }, ic, tc).unwrap();
        let cst = |i: u64| if f64m { format!("{:016x}", (i as f64).to_bits()) } else { i.to_string() };
        let mut hs: Vec<String> = Vec::new();
        for round in 0..3 {
            for v in 0..n {
                writeln!(w, "var x{} {}", v, v).unwrap();
                hs.push(format!("x{}", v));
            }
            // more and more distinct terminals / nodes
            let m = rng.range(3, 14);
            for i in 0..m {
                let name = format!("c{}_{}", round, i);
                if !f64m && rng.chance(1, 4) {
                    writeln!(w, "const {} {}", name, rng.pick(&pool)).unwrap();
                } else {
                    writeln!(w, "const {} {}", name, cst(rng.below(40))).unwrap();
                }
                hs.push(name);
            }
            let steps = rng.range(5, 25);
            for s in 0..steps {
                let name = format!("r{}_{}", round, s);
                match rng.below(10) {
                    0..=5 => {
                        let (a, b) = (rng.pick(&hs).clone(), rng.pick(&hs).clone());
                        writeln!(w, "op {} {} {} {}", name, rng.pick(&OPS), a, b).unwrap();
                        hs.push(name);
                    }
                    6 => {
                        let v = rng.below(n as u64);
                        let (a, b) = (rng.pick(&hs).clone(), rng.pick(&hs).clone());
                        writeln!(w, "ite {} x{} {} {}", name, v, a, b).unwrap();
                        hs.push(name);
                    }
                    7 => {
                        let i = rng.below(hs.len() as u64) as usize;
                        let a = hs.swap_remove(i);
                        hs.retain(|x| *x != a);
                        writeln!(w, "drop {}", a).unwrap();
                        if hs.is_empty() {
                            writeln!(w, "var x0 0").unwrap();
                            hs.push("x0".into());
                        }
                    }
                    8 => {
                        writeln!(w, "gc").unwrap();
                    }
                    _ => {
                        let f = rng.pick(&hs).clone();
                        writeln!(w, "eval {} {}", f, bits_str(rng, n)).unwrap();
                    }
                }
            }
            // after dropping everything and collecting, the capped manager must work again
            writeln!(w, "rcchk").unwrap();
            writeln!(w, "dropall").unwrap();
            writeln!(w, "gc").unwrap();
            hs.clear();
        }
        writeln!(w, "var x0 0").unwrap();
        writeln!(w, "const two {}", cst(2)).unwrap();
        writeln!(w, "op y mul x0 two").unwrap();
    }
}

/// known finding: `set_var_order` aborts the process when a level swap needs a node and the
/// store is full (no error return).  Executed in a child process (see `Sc::kf_step`).
fn gen_kf(w: &mut dyn Write) {
    for (k, seq) in [(1, ""), (2, " seq=1")] {
        writeln!(w, "case kf-mtbdd-reorder-oom-{}", k).unwrap();
        writeln!(w, "mgr 3 inner=16 terms=64").unwrap();
        for l in [
            "var x0 0", "var x1 1", "var x2 2", "const c2 2", "const c4 4", "op a mul x1 c2", "op b mul x2 c4", "op s add x0 a", "op f add s b",
            "drop a", "drop b", "drop s", "drop x0", "drop x1", "gc",
        ] {
            writeln!(w, "{}", l).unwrap();
        }
        // fill the capped store with live one-node functions (the last ones report OOM there)
        for i in 0..12 {
            writeln!(w, "const k{} {}", i, 100 + i).unwrap();
            writeln!(w, "ite fill{} x2 k{} c2", i, i).unwrap();
        }
        writeln!(w, "rcchk").unwrap();
        writeln!(w, "order 2 1 0{}", seq).unwrap();
        writeln!(w, "eval f 101").unwrap();
    }
}

// ------------------------------------------------------------------------------------------
// Suite `termcap`: tiny terminal (and inner-node) stores; results that die at once; fresh
// constants until the store is full and beyond; the same operations again
// ------------------------------------------------------------------------------------------

/// one operation whose result is dropped right away (or at the end of the round)
struct Probe {
    /// `const c <v>` lines issued before the operation (the handles are dropped after it)
    consts: Vec<(String, i64)>,
    /// the operation with `@` for the result handle, e.g. `op @ add rf rg`
    op: String,
    /// the same operation with the newest fill constant (`$`) in place of the constant operand
    with_fill: Option<String>,
}

struct TcGen<'a> {
    w: &'a mut dyn Write,
    f64m: bool,
    used: HashSet<i64>,
    probes: Vec<Probe>,
    defer: bool,
}

impl TcGen<'_> {
    fn c(&self, v: i64) -> String {
        if self.f64m { format!("{:016x}", (v as f64).to_bits()) } else { v.to_string() }
    }
    fn line(&mut self, l: &str) {
        writeln!(self.w, "{}", l).unwrap();
    }
    /// a value that occurs nowhere else in the case
    fn fresh(&mut self, rng: &mut Rng, lo: i64, hi: i64) -> i64 {
        loop {
            let v = lo + rng.below((hi - lo + 1) as u64) as i64;
            if self.used.insert(v) {
                return v;
            }
            if (lo..=hi).all(|x| self.used.contains(&x)) {
                let mut v = hi + 1;
                while !self.used.insert(v) {
                    v += 1;
                }
                return v;
            }
        }
    }
    /// the function with the given table (index bit i = variable i) under handle `h`; the variable
    /// handles x0.. must be live; all scaffolding is dropped again
    fn build(&mut self, h: &str, n: u32, tab: &[i64]) {
        let mut temps: Vec<String> = Vec::new();
        let mut consts: HashMap<i64, String> = HashMap::new();
        fn rec(g: &mut TcGen, h: &str, n: u32, v: u32, idx: usize, tab: &[i64], temps: &mut Vec<String>, consts: &mut HashMap<i64, String>) -> String {
            if v == n {
                let val = tab[idx];
                if let Some(nm) = consts.get(&val) {
                    return nm.clone();
                }
                let nm = format!("{}_{}", h, temps.len());
                let l = format!("const {} {}", nm, g.c(val));
                g.line(&l);
                g.used.insert(val);
                consts.insert(val, nm.clone());
                temps.push(nm.clone());
                return nm;
            }
            let t = rec(g, h, n, v + 1, idx | (1 << v), tab, temps, consts);
            let e = rec(g, h, n, v + 1, idx, tab, temps, consts);
            if t == e {
                return t;
            }
            let nm = format!("{}_{}", h, temps.len());
            g.line(&format!("ite {} x{} {} {}", nm, v, t, e));
            temps.push(nm.clone());
            nm
        }
        let top = rec(self, h, n, 0, 0, tab, &mut temps, &mut consts);
        self.line(&format!("clone {} {}", h, top));
        for t in temps {
            self.line(&format!("drop {}", t));
        }
    }
    /// every probe once, and with each of the given fill constants as the constant operand
    fn round(&mut self, fills: &[String]) {
        let mut late: Vec<String> = Vec::new();
        let mut k = 0;
        for i in 0..self.probes.len() {
            let consts = self.probes[i].consts.clone();
            let mut ops = vec![self.probes[i].op.clone()];
            if let Some(t) = &self.probes[i].with_fill {
                for f in fills {
                    ops.push(t.replace('$', f));
                }
            }
            for (nm, v) in &consts {
                let l = format!("const {} {}", nm, self.c(*v));
                self.line(&l);
            }
            for o in ops {
                let t = if self.defer { format!("t{}", k) } else { "t".to_string() };
                k += 1;
                self.line(&o.replace('@', &t));
                if self.defer {
                    late.push(t);
                } else {
                    self.line(&format!("drop {}", t));
                }
            }
            for (nm, _) in &consts {
                self.line(&format!("drop {}", nm));
            }
        }
        for t in late {
            self.line(&format!("drop {}", t));
        }
    }
}

const TC_OPS: [&str; 8] = ["add", "sub", "mul", "div", "min", "max", "ite", "restrict"];

/// a non-constant table over `n` variables with entries from `vals`
fn tc_table(rng: &mut Rng, n: u32, vals: &[i64]) -> Vec<i64> {
    let distinct = vals.iter().any(|x| *x != vals[0]);
    loop {
        let t: Vec<i64> = (0..(1usize << n)).map(|_| *rng.pick(vals)).collect();
        if !distinct || t.iter().any(|x| *x != t[0]) {
            return t;
        }
    }
}

/// One case: operands, probes (round 0), optionally a collection, fresh constants until the store
/// is full and beyond with the probes repeated, recovery (drop the constants, collect, the probes
/// must succeed again), a second filling with other values, terminal audit.
fn tc_case(w: &mut dyn Write, rng: &mut Rng, name: &str, f64m: bool, cap: u64, inner_flavour: bool, op: &str, gc_between: bool, thorough: bool) {
    writeln!(w, "case {}", name).unwrap();
    let n: u32 = if op == "restrict" { 2 } else if thorough && rng.chance(1, 6) { 3 } else { rng.range(1, 2) as u32 };
    let dense = rng.chance(1, 2);
    let mut g = TcGen { w, f64m, used: HashSet::new(), probes: Vec::new(), defer: rng.chance(1, 5) };
    g.used.extend([0, 1]);
    if inner_flavour {
        g.line(&format!("mgr {}{} inner={} terms=64", n, if f64m { " f64" } else { "" }, cap));
    } else {
        g.line(&format!("mgr {}{} terms={}", n, if f64m { " f64" } else { "" }, cap));
    }
    for v in 0..n {
        g.line(&format!("var x{} {}", v, v));
    }
    // the terminals 0 and 1 are referenced by nodes only: a first look at the reference counts
    g.line("taudit");
    let small = cap <= 5 && !inner_flavour;
    // which operators get probes: the case's own one first, then (room permitting) others
    let mut ops: Vec<&str> = vec![op];
    if !matches!(op, "add" | "sub" | "mul" | "div") {
        // an operator that creates terminals, so that a result terminal dies in every case
        ops.push(*rng.pick(&["add", "mul", "sub", "div"]));
    }
    if cap >= 8 {
        for _ in 0..rng.range(0, 2) {
            ops.push(*rng.pick(&TC_OPS));
        }
    }
    // (x0 ? 10 : 30)-like operand for the probes with a constant operand
    let (lo_v, hi_v) = (g.fresh(rng, 8, 12), g.fresh(rng, 28, 32));
    let mut have_of = false;
    let mut need_of = |g: &mut TcGen, rng: &mut Rng| {
        if !have_of {
            have_of = true;
            let t = tc_table(rng, n, &[lo_v, hi_v]);
            g.build("of", n, &t);
        }
    };
    let mut fill_lo = -5i64;
    let mut fill_hi = 60i64;
    for (oi, o) in ops.clone().into_iter().enumerate() {
        let (rf, rg, cn) = (format!("rf{}", oi), format!("rg{}", oi), format!("c{}", oi));
        match o {
            "add" | "sub" | "mul" | "div" => {
                // (R) the result is a constant that occurs in neither operand: its terminal is referenced
                // by the apply cache only once the handle is gone
                let (tf, tg): (Vec<i64>, Vec<i64>) = loop {
                    let (tf, tg, r): (Vec<i64>, Vec<i64>, i64) = match o {
                        "add" => {
                            let r = rng.range(7, 20) as i64;
                            let a = if small { 1 } else { rng.range(1, (r - 1) as u64) as i64 };
                            let vals = if small || rng.chance(1, 2) { vec![a, r - a] } else { vec![a, rng.range(1, (r - 1) as u64) as i64] };
                            let tf = tc_table(rng, n, &vals);
                            let tg = tf.iter().map(|x| r - x).collect();
                            (tf, tg, r)
                        }
                        "sub" => {
                            let r = rng.range(2, 9) as i64;
                            let vals = [r + rng.range(1, 6) as i64, r + rng.range(7, 12) as i64];
                            let tf = tc_table(rng, n, &vals);
                            let tg = tf.iter().map(|x| x - r).collect();
                            (tf, tg, r)
                        }
                        "mul" => {
                            let r = *rng.pick(&[12i64, 24, 30, 36, 40]);
                            let divs: Vec<i64> = (2..r).filter(|d| r % d == 0).collect();
                            let a = *rng.pick(&divs);
                            let vals = if small || rng.chance(1, 2) { vec![a, r / a] } else { vec![a, *rng.pick(&divs)] };
                            let tf = tc_table(rng, n, &vals);
                            let tg = tf.iter().map(|x| r / x).collect();
                            (tf, tg, r)
                        }
                        _ => {
                            let r = rng.range(2, 9) as i64;
                            let vals = [rng.range(2, 4) as i64, rng.range(5, 7) as i64];
                            let tg = tc_table(rng, n, &vals);
                            let tf = tg.iter().map(|x| x * r).collect();
                            (tf, tg, r)
                        }
                    };
                    if !tf.contains(&r) && !tg.contains(&r) && tf.iter().any(|x| *x != tf[0]) {
                        g.used.insert(r);
                        break (tf, tg);
                    }
                };
                g.build(&rf, n, &tf);
                g.build(&rg, n, &tg);
                g.probes.push(Probe { consts: vec![], op: format!("op @ {} {} {}", o, rf, rg), with_fill: None });
                // (O) a constant operand that dies: `c o f` and `f o c`, later the newest fill constant
                if !small {
                    need_of(&mut g, rng);
                    let c = g.fresh(rng, 2, 9);
                    let (a, b) = if rng.chance(1, 2) { (cn.as_str(), "of") } else { ("of", cn.as_str()) };
                    g.probes.push(Probe {
                        consts: vec![(cn.clone(), c)],
                        op: format!("op @ {} {} {}", o, a, b),
                        with_fill: Some(format!("op @ {} {} {}", o, a.replace(&cn, "$"), b.replace(&cn, "$"))),
                    });
                }
            }
            "min" | "max" => {
                // constant operand above / below / inside the operand's range: the result is the other
                // operand, the constant itself or a node that contains it
                need_of(&mut g, rng);
                let pos = rng.below(4);
                let outside_gives_f = (o == "min") == (pos != 1); // 0, 2, 3: result = of
                let c = match (pos, outside_gives_f, o) {
                    (3, _, _) => g.fresh(rng, 14, 26),
                    (_, true, "min") | (_, false, "max") => g.fresh(rng, 35, 45),
                    _ => g.fresh(rng, -5, 5),
                };
                // fill constants that give another result than `c` did
                if c > 32 {
                    fill_hi = 27;
                } else if c < 8 {
                    fill_lo = 13;
                }
                let (a, b) = if rng.chance(1, 2) { (cn.as_str(), "of") } else { ("of", cn.as_str()) };
                g.probes.push(Probe {
                    consts: vec![(cn.clone(), c)],
                    op: format!("op @ {} {} {}", o, a, b),
                    with_fill: Some(format!("op @ {} {} {}", o, a.replace(&cn, "$"), b.replace(&cn, "$"))),
                });
                if !small {
                    let t = tc_table(rng, n, &[lo_v + 5, hi_v - 5, lo_v]);
                    g.build(&rf, n, &t);
                    g.probes.push(Probe { consts: vec![], op: format!("op @ {} of {}", o, rf), with_fill: None });
                }
            }
            "ite" => {
                need_of(&mut g, rng);
                let c = g.fresh(rng, 2, 9);
                let cond = format!("x{}", rng.below(n as u64));
                let (a, b) = if rng.chance(1, 2) { (cn.as_str(), "of") } else { ("of", cn.as_str()) };
                g.probes.push(Probe {
                    consts: vec![(cn.clone(), c)],
                    op: format!("ite @ {} {} {}", cond, a, b),
                    with_fill: Some(format!("ite @ {} {} {}", cond, a.replace(&cn, "$"), b.replace(&cn, "$"))),
                });
                if !small {
                    let t = tc_table(rng, n, &[lo_v, hi_v - 5, hi_v + 7]);
                    g.build(&rf, n, &t);
                    g.probes.push(Probe { consts: vec![], op: format!("ite @ x{} of {}", rng.below(n as u64), rf), with_fill: None });
                    g.probes.push(Probe { consts: vec![], op: format!("ite @ x{} {} of", rng.below(n as u64), rf), with_fill: None });
                }
            }
            _ => {
                // restrict: f above the restricted variable (the memoised path), both polarities, a cube
                need_of(&mut g, rng);
                let t = tc_table(rng, n, &[lo_v, hi_v, hi_v + 7]);
                g.build(&rf, n, &t);
                let l = format!("const one {}", g.c(1));
                g.line(&l);
                for v in 0..n {
                    g.line(&format!("op nx{} sub one x{}", v, v));
                }
                g.line("drop one");
                let v = n - 1;
                g.probes.push(Probe { consts: vec![], op: format!("restrict @ {} x{}", rf, v), with_fill: None });
                g.probes.push(Probe { consts: vec![], op: format!("restrict @ {} nx{}", rf, v), with_fill: None });
                g.probes.push(Probe { consts: vec![], op: format!("restrict @ of nx{}", v), with_fill: None });
                if n >= 2 && !small {
                    g.line(&format!("op q mul {}x0 {}x1", if rng.chance(1, 2) { "n" } else { "" }, if rng.chance(1, 2) { "n" } else { "" }));
                    g.probes.push(Probe { consts: vec![], op: format!("restrict @ {} q", rf), with_fill: None });
                }
            }
        }
    }
    // the variables stay only where a probe needs them (their terminals 0 and 1 occupy two slots)
    let uses_vars = ops.iter().any(|o| matches!(*o, "ite" | "restrict")) || inner_flavour;
    if !uses_vars {
        for v in 0..n {
            g.line(&format!("drop x{}", v));
        }
    }
    g.line("gc");
    // round 0: results (and constant operands) die at once; the apply cache remembers them
    g.round(&[]);
    if rng.chance(1, 3) {
        g.round(&[]);
    }
    match (gc_between, rng.below(3)) {
        (false, _) => {}
        (true, 0) => g.line("taudit"),
        (true, _) => g.line("gc"),
    }
    // fresh constants until the store is full and beyond; the same operations again (before the
    // next regular collection unless `gc_between`)
    let extra = rng.range(1, 3);
    for phase in 0..2 {
        let cnt = cap + extra;
        let mut fills: Vec<String> = Vec::new();
        let mut consts: Vec<String> = Vec::new();
        let mut last_lines: Vec<(String, String)> = Vec::new();
        for j in 0..cnt {
            let nm = format!("k{}_{}", phase, j);
            let v = g.fresh(rng, fill_lo, fill_hi);
            let l = format!("const {} {}", nm, g.c(v));
            g.line(&l);
            if j + 2 >= cnt {
                last_lines.push((nm.clone(), l));
            }
            if inner_flavour {
                // one new live node per constant
                let prev = if j == 0 { "of".to_string() } else { format!("k{}_{}", phase, j - 1) };
                g.line(&format!("ite nd{}_{} x0 {} {}", phase, j, nm, prev));
                fills.push(format!("nd{}_{}", phase, j));
            }
            fills.push(nm.clone());
            consts.push(nm.clone());
            if dense {
                g.round(&[nm]);
            } else if j + 1 == cnt {
                g.round(&consts);
            }
            if gc_between && rng.chance(1, 12) {
                g.line("gc");
            }
        }
        g.round(&[]);
        g.line("rcchk");
        if phase == 0 {
            // recovery: without the constants and after a collection every probe succeeds again
            for f in &fills {
                g.line(&format!("drop {}", f));
            }
            g.line(if rng.chance(1, 2) { "gc" } else { "taudit" });
            g.round(&[]);
            // the requests that failed on the full store, again
            for (_, l) in &last_lines {
                g.line(l);
            }
            for (nm, _) in &last_lines {
                g.line(&format!("drop {}", nm));
            }
            if !gc_between && rng.chance(1, 2) {
                // once more with a clean cache and dead results in the store
            } else {
                g.line("gc");
            }
        }
    }
    g.line("taudit");
}

fn gen_termcap(cfg: &GenCfg, rng: &mut Rng, w: &mut dyn Write) {
    // the grid: every capacity 2..16 x every operator x both terminal kinds x with / without a
    // collection between the first execution and the filling; thorough: several value choices each
    let reps = if cfg.thorough { 6 } else { 1 } * cfg.scale;
    for rep in 0..reps {
        for f64m in [false, true] {
            for cap in 2..=16u64 {
                for op in TC_OPS {
                    for gcb in [false, true] {
                        let name = format!("termcap-{}-{}-k{}-{}-{}", if f64m { "f64" } else { "i64" }, op, cap, if gcb { "gc" } else { "nogc" }, rep);
                        tc_case(w, rng, &name, f64m, cap, false, op, gcb, cfg.thorough);
                    }
                }
            }
        }
        // tiny inner-node stores (the analogous situation for nodes): a smaller grid
        for cap in 2..=16u64 {
            for op in TC_OPS {
                if !cfg.thorough && rng.chance(1, 2) {
                    continue;
                }
                let f64m = rng.chance(1, 4);
                let gcb = rng.chance(1, 2);
                let name = format!("termcap-inner-{}-{}-k{}-{}-{}", if f64m { "f64" } else { "i64" }, op, cap, if gcb { "gc" } else { "nogc" }, rep);
                tc_case(w, rng, &name, f64m, cap, true, op, gcb, cfg.thorough);
            }
        }
    }
}

fn generate(cfg: &GenCfg, rng: &mut Rng, w: &mut dyn Write) {
    let mut ce = CaseEnd { w, buf: Vec::new(), has_mgr: false, skip: false };
    let w: &mut dyn Write = &mut ce;
    if cfg.extra.get("suite").map(|s| s.as_str()) == Some("termcap") {
        gen_termcap(cfg, rng, w);
        ce.end().unwrap();
        return;
    }
    gen_scalar_i64(cfg, rng, w);
    gen_scalar_f64(cfg, rng, w);
    gen_terminal_pairs(w);
    gen_one_var(cfg, rng, w);
    gen_two_var(cfg, rng, w, false);
    gen_two_var(cfg, rng, w, true);
    gen_two_var_exhaustive(cfg, rng, w);
    gen_histories(cfg, rng, w);
    gen_restrict_all(cfg, rng, w);
    gen_random(cfg, rng, w, false);
    gen_random(cfg, rng, w, true);
    gen_lifecycle(cfg, rng, w, false);
    gen_lifecycle(cfg, rng, w, true);
    gen_reorder_all(cfg, rng, w);
    gen_capped(cfg, rng, w);
    if !cfg.extra.contains_key("no-kf") {
        gen_kf(w);
    }
    gen_malformed(w);
    ce.end().unwrap();
}

// ------------------------------------------------------------------------------------------
// known-finding cases: executed by a re-invoked child process
// ------------------------------------------------------------------------------------------

struct KfChild {
    proc: std::process::Child,
    stdin: std::process::ChildStdin,
    stdout: std::io::BufReader<std::process::ChildStdout>,
    dead: bool,
}

impl Drop for KfChild {
    fn drop(&mut self) {
        let _ = self.proc.kill();
        let _ = self.proc.wait();
    }
}

impl Sc {
    /// Lines of a `case kf-mtbdd-…` go to a child (`<exe> kf-child`), which answers each line with
    /// its output line followed by `@F <k>` and `k` oracle failures (JSON).  If the child dies
    /// (abort), this and all further lines of the case answer `ABORT` and one `crash` failure is
    /// reported; the stream itself survives.
    fn kf_step(&mut self, line: &str, ctx: &mut Ctx) -> String {
        use std::io::{BufRead, BufReader};
        use std::process::{Command, Stdio};
        if self.child.is_none() {
            let exe = std::env::current_exe().expect("current_exe");
            let mut proc = Command::new(exe)
                .arg("kf-child")
                .arg(&ctx.case)
                .stdin(Stdio::piped())
                .stdout(Stdio::piped())
                .stderr(Stdio::null())
                .spawn()
                .expect("spawn kf child");
            let stdin = proc.stdin.take().unwrap();
            let stdout = BufReader::new(proc.stdout.take().unwrap());
            self.child = Some(KfChild { proc, stdin, stdout, dead: false });
            ctx.count("kf.children");
        }
        let ch = self.child.as_mut().unwrap();
        if ch.dead {
            return "ABORT".into();
        }
        let mut died = writeln!(ch.stdin, "{}\t{}", ctx.line_no, line).is_err() || ch.stdin.flush().is_err();
        let mut out = String::new();
        if !died {
            died = ch.stdout.read_line(&mut out).unwrap_or(0) == 0;
        }
        if !died {
            let mut l = String::new();
            let k = if ch.stdout.read_line(&mut l).unwrap_or(0) == 0 { None } else { l.trim().strip_prefix("@F ").and_then(|x| x.parse::<usize>().ok()) };
            match k {
                None => died = true,
                Some(k) => {
                    for _ in 0..k {
                        let mut f = String::new();
                        if ch.stdout.read_line(&mut f).unwrap_or(0) == 0 {
                            died = true;
                            break;
                        }
                        ctx.failures.push(f.trim_end().to_string());
                        ctx.count("oracle_failures");
                    }
                }
            }
        }
        if died {
            ch.dead = true;
            let status = ch.proc.wait().map(|s| s.to_string()).unwrap_or_else(|_| "?".into());
            ctx.fail("crash", &format!("the process executing this case died while executing `{}` ({}); the API offers no error return here", line, status));
            return "ABORT".into();
        }
        out.trim_end().to_string()
    }
}

fn kf_child_main(case: &str) {
    use std::io::BufRead;
    std::panic::set_hook(Box::new(|_| {}));
    let mut extra = BTreeMap::new();
    extra.insert("kf-child".to_string(), "1".to_string());
    let mut sc = Sc { st: St::None, capped: St::None, diverged: false, child: None, tc: TcState::default() };
    let mut ctx = Ctx { line_no: 0, case: case.to_string(), failures: Vec::new(), stats: BTreeMap::new(), extra };
    let stdin = std::io::stdin();
    let out = std::io::stdout();
    for l in stdin.lock().lines() {
        let Ok(l) = l else { break };
        let (no, line) = l.split_once('\t').unwrap_or(("0", &l));
        ctx.line_no = no.parse().unwrap_or(0);
        let r = std::panic::catch_unwind(std::panic::AssertUnwindSafe(|| sc.step(line, &mut ctx)));
        let o = match r {
            Ok(o) => o,
            Err(_) => {
                ctx.fail("panic", &format!("panic while executing `{}`", line));
                "PANIC".into()
            }
        };
        let mut w = out.lock();
        writeln!(w, "{}", o).unwrap();
        writeln!(w, "@F {}", ctx.failures.len()).unwrap();
        for f in ctx.failures.drain(..) {
            writeln!(w, "{}", f).unwrap();
        }
        w.flush().unwrap();
    }
    std::mem::forget(sc);
}

fn make(_f: &BTreeMap<String, String>) -> Box<dyn Scenario> {
    Box::new(Sc { st: St::None, capped: St::None, diverged: false, child: None, tc: TcState::default() })
}

fn main() {
    let args: Vec<String> = std::env::args().collect();
    if args.get(1).map(|s| s.as_str()) == Some("kf-child") {
        kf_child_main(args.get(2).map(|s| s.as_str()).unwrap_or("case kf-mtbdd-?"));
        return;
    }
    harness_main(generate, make)
}
